"""Seeded generators of font descriptions (see ufo.py for the format)."""

NAMES = ["A", "B", "C", "a", "b", "c", "a.alt", "f_i", "space", "zero", "one", "uni0041", "dieresis", "Adieresis",
         "x", "y", "z", "Zed", "_part", "e", "eacute", "acutecomb", "period", "comma", "hyphen", "g01", "g02", "g03"]


def coord(rng, grid=1, lim=600, half=0.3):
    """a coordinate on the exact dyadic grid 1/grid; `half` = share of k+1/2 values"""
    k = rng.randrange(-lim, lim + 1)
    if rng.random() < half:
        return k + 0.5
    if grid > 1 and rng.random() < 0.4:
        return k + rng.randrange(grid) / grid
    return k


def contour(rng, kinds=("line",), grid=1, lim=600, half=0.3, offstart=False, open_=0.0):
    """a closed (or open) contour: list of [x, y, segmentType|None]"""
    n = rng.choice([2, 3, 3, 4, 5])
    pts = []
    isopen = rng.random() < open_
    for i in range(n):
        k = rng.choice(kinds)
        c = lambda: [coord(rng, grid, lim, half), coord(rng, grid, lim, half)]
        if isopen and i == 0:
            pts.append(c() + ["move"]); continue
        if k == "line":
            pts.append(c() + ["line"])
        elif k == "curve":
            pts.append(c() + [None]); pts.append(c() + [None]); pts.append(c() + ["curve"])
        elif k == "qcurve":
            for _ in range(rng.choice([1, 1, 2, 3])):
                pts.append(c() + [None])
            pts.append(c() + ["qcurve"])
    if not isopen and offstart and rng.random() < 0.3:
        # rotate so that the contour starts on an off-curve point
        for i, p in enumerate(pts):
            if p[2] is None:
                pts = pts[i:] + pts[:i]; break
    return pts


MATS = {
    "id": (1, 0, 0, 1), "mirrorx": (-1, 0, 0, 1), "mirrory": (1, 0, 0, -1), "rot90": (0, 1, -1, 0), "rot180": (-1, 0, 0, -1),
    "swap": (0, 1, 1, 0), "half": (0.5, 0, 0, 0.5), "shear": (1, 0, 0.5, 1), "shear2": (1, 0.25, 0, 1), "sc15": (1.5, 0, 0, 1.5),
    "nonuni": (0.5, 0, 0, 1.25), "mirrorshear": (-1, 0.5, 0, 1), "singular": (1, 0, 0, 0), "zero": (0, 0, 0, 0),
}


def matrix(rng, kinds):
    k = rng.choice(kinds)
    return k, MATS[k]


def outline_font(rng, nglyphs=None, kinds=("line",), grid=1, half=0.3, mats=("id",), maxdepth=3, pcomp=0.5,
                 mixed=0.3, offstart=False, open_=0.0, names=None, lim=600, widthhalf=0.2, offgrid=1):
    """random glyphs + an acyclic component graph (glyph i may only reference glyphs j < i)."""
    n = nglyphs or rng.choice([1, 2, 3, 5, 8, 12])
    pool = list(names or NAMES)
    rng.shuffle(pool)
    pool = pool[:n]
    glyphs, depth = [], {}
    for i, nm in enumerate(pool):
        g = {"name": nm, "unicodes": [], "contours": [], "components": [], "anchors": []}
        w = rng.choice([0, 250, 500, 600, rng.randrange(0, 1200)])
        if rng.random() < widthhalf:
            w += 0.5
        g["width"] = w
        iscomp = i > 0 and rng.random() < pcomp
        d = 0
        if iscomp:
            for _ in range(rng.choice([1, 1, 2, 3])):
                cands = [j for j in range(i) if depth[pool[j]] < maxdepth]
                if not cands:
                    break
                # prefer deep bases so that nesting actually happens
                j = max(rng.sample(cands, min(2, len(cands))), key=lambda j: depth[pool[j]]) if rng.random() < 0.6 else rng.choice(cands)
                kname, m = matrix(rng, mats)
                dx = coord(rng, offgrid, 300, half)
                dy = coord(rng, offgrid, 300, half)
                g["components"].append([pool[j], [m[0], m[1], m[2], m[3], dx, dy]])
                d = max(d, depth[pool[j]] + 1)
        if not iscomp or rng.random() < mixed:
            for _ in range(rng.choice([0, 1, 1, 2, 3]) if not iscomp else rng.choice([1, 2])):
                g["contours"].append(contour(rng, kinds, grid, lim, half, offstart, open_))
        depth[nm] = d
        glyphs.append(g)
    return {"upm": 1000, "glyphs": glyphs, "info": {}, "lib": {}}
