"""Observation helpers for C18: read GDEF / cursive GPOS lookups back from a compiled font, and the
statements the GDEF writer appended from the final feature text (debugFeatureFile)."""
import io

SENTINEL = 7777  # x coordinate used only by the user's own `pos cursive` statement


def font_classes(tt):
    if "GDEF" not in tt or tt["GDEF"].table.GlyphClassDef is None:
        return []
    return sorted([g, c] for g, c in tt["GDEF"].table.GlyphClassDef.classDefs.items())


def font_carets(tt):
    """[[glyph, [coordinate...]]...]; a CaretValue format 2 (contour point) is encoded as 100000+index,
    format 3 as its coordinate"""
    if "GDEF" not in tt:
        return []
    lcl = getattr(tt["GDEF"].table, "LigCaretList", None)
    if lcl is None:
        return []
    out = []
    for g, lg in zip(lcl.Coverage.glyphs, lcl.LigGlyph):
        vals = []
        for cv in lg.CaretValue:
            if cv.Format == 2:
                vals.append(100000 + cv.CaretValuePoint)
            else:
                vals.append(cv.Coordinate)
        out.append([g, vals])
    return sorted(out)


def _xy(a):
    if a is None:
        return None
    return [a.XCoordinate, a.YCoordinate]


def font_cursive(tt):
    """all GPOS lookups holding CursivePos subtables, in LookupList order:
    [(lookupFlag, [[glyph, entry|None, exit|None]...], inCursFeature)]"""
    if "GPOS" not in tt:
        return []
    t = tt["GPOS"].table
    if t.LookupList is None:
        return []
    curs_idx = set()
    if t.FeatureList is not None:
        for fr in t.FeatureList.FeatureRecord:
            if fr.FeatureTag == "curs":
                curs_idx.update(fr.Feature.LookupListIndex)
    out = []
    for li, lk in enumerate(t.LookupList.Lookup):
        recs, seen, has = [], set(), False
        for st in lk.SubTable:
            typ = lk.LookupType
            if typ == 9:
                typ, st = st.ExtensionLookupType, st.ExtSubTable
            if typ != 3:
                continue
            has = True
            for g, r in zip(st.Coverage.glyphs, st.EntryExitRecord):
                if g not in seen:
                    seen.add(g)
                    recs.append([g, _xy(r.EntryAnchor), _xy(r.ExitAnchor)])
        if has:
            out.append((lk.LookupFlag, recs, li in curs_idx))
    return out


def is_user_lookup(recs):
    return any(r[1] is not None and r[1][0] == SENTINEL for r in recs)


def fea_gdef(text, glyph_order, n_user):
    """statements appended by the GDEF writer.  n_user[k] = number of statements the user wrote in the
    k-th top-level `table GDEF` block.  returns (classDef | None, carets | None, problems)"""
    from fontTools.feaLib import ast
    from fontTools.feaLib.parser import Parser
    doc = Parser(io.StringIO(text), glyphNames=glyph_order).parse()
    k = 0
    cds, carets, problems = [], [], []
    for st in doc.statements:
        if isinstance(st, ast.TableBlock) and st.name == "GDEF":
            body = [s for s in st.statements if not isinstance(s, ast.Comment)]
            gen = body[n_user[k]:] if k < len(n_user) else body
            k += 1
            for s in gen:
                if isinstance(s, ast.GlyphClassDefStatement):
                    def names(gc):
                        return [] if gc is None else list(gc.glyphSet())
                    cds.append([names(s.baseGlyphs), names(s.ligatureGlyphs), names(s.markGlyphs), names(s.componentGlyphs)])
                elif isinstance(s, ast.LigatureCaretByPosStatement):
                    gl = list(s.glyphs.glyphSet())
                    if len(gl) != 1:
                        problems.append("caret statement for %d glyphs" % len(gl))
                    carets.append([gl[0], [int(c) if float(c) == int(c) else c for c in s.carets]])
                else:
                    problems.append("unexpected generated GDEF statement " + type(s).__name__)
    if len(cds) > 1:
        problems.append("%d GlyphClassDef statements generated" % len(cds))
    return (cds[0] if cds else None), (carets if carets else None), problems
