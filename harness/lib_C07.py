"""C07 helpers: deep structural snapshots of source fonts / designspace documents, cell diffs, the abstract
description of a source font (input of the Lean effect model), font/designspace construction.

A snapshot is a dict  (cell, detail) -> canonical string, where `cell` is the tuple the Lean model uses
(without the font index, which the caller adds):
  ("info", attr)  ("fontLib", key)  ("kerning", "a b")  ("groups", name)  ("features", "text")
  ("layerLib", layer, key)  ("glyph", layer, glyph, field)  ("other", what, slot)
and `detail` is the path below the cell (nested lib keys), kept only to make replays readable.
Glyph fields: width height unicodes outline components anchors lib guidelines note image.
"""
import copy
import json
import re

MATH_PREFIX = "com.nagwa.MATHPlugin."
MATH_CONSTANTS = MATH_PREFIX + "constants"
UFO2FT = "com.github.googlei18n.ufo2ft."
COLOR_PALETTES = UFO2FT + "colorPalettes"
COLOR_MAPPING = UFO2FT + "colorLayerMapping"
COLOR_LAYERS = UFO2FT + "colorLayers"
FILTERS_KEY = UFO2FT + "filters"
CATS_KEY = "public.openTypeCategories"
CURVE_KEY = "com.github.googlei18n.cu2qu.curve_type"
# lib keys whose first-level sub-keys are cells of their own (the model predicts them individually)
DEEP_KEYS = {MATH_CONSTANTS, CATS_KEY}

_INFO_ATTRS = None


def _info_attrs():
    global _INFO_ATTRS
    if _INFO_ATTRS is None:
        from fontTools.ufoLib import fontInfoAttributesVersion3
        _INFO_ATTRS = sorted(fontInfoAttributesVersion3)
    return _INFO_ATTRS


def _plain(v):
    """canonical JSON-able form of plist-like values and small UFO objects"""
    if v is None or isinstance(v, (bool, int, str)):
        return v
    if isinstance(v, float):
        return {"f": v.hex()}
    if isinstance(v, bytes):
        return {"b": v.hex()}
    if isinstance(v, dict):
        return {"d": [[str(k), _plain(x)] for k, x in sorted(v.items(), key=lambda kv: str(kv[0]))]}
    if isinstance(v, (list, tuple)):
        return [_plain(x) for x in v]
    if isinstance(v, (set, frozenset)):
        return {"s": sorted(json.dumps(_plain(x), sort_keys=True) for x in v)}
    d = {}
    for k in ("name", "x", "y", "angle", "color", "identifier", "fileName", "transformation",
              "nameID", "platformID", "encodingID", "languageID", "string",
              "rangeMaxPPEM", "rangeGaspBehavior"):
        if hasattr(v, k):
            d[k] = _plain(getattr(v, k))
    if d:
        return {"o": d}
    try:
        return {"o": _plain(dict(v))}
    except Exception:
        return {"r": repr(v)}


def _c(v):
    return json.dumps(_plain(v), sort_keys=True, separators=(",", ":"))


def _flat(v, detail, out, cell, depth=0):
    if isinstance(v, dict) and depth < 6:
        out[(cell, detail + "/@dict")] = "1"
        for k, x in v.items():
            _flat(x, detail + "/" + str(k), out, cell, depth + 1)
    else:
        out[(cell, detail)] = _c(v)


def _snap_lib(lib, mk, out):
    """mk(key) -> cell for a top-level key"""
    for k, v in dict(lib).items():
        k = str(k)
        if k in DEEP_KEYS and isinstance(v, dict):
            out[(mk(k), "@dict")] = "1"
            for sk, sv in v.items():
                _flat(sv, "", out, mk(k + "/" + str(sk)))
        else:
            _flat(v, "", out, mk(k))


class _Rec:
    def __init__(self):
        self.contours, self.components, self._cur = [], [], None

    def beginPath(self, identifier=None, **kw):
        self._cur = [["id", identifier]] if identifier else []

    def addPoint(self, pt, segmentType=None, smooth=False, name=None, identifier=None, **kw):
        self._cur.append([_plain(pt[0]), _plain(pt[1]), segmentType, bool(smooth), name, identifier])

    def endPath(self):
        self.contours.append(self._cur); self._cur = None

    def addComponent(self, baseGlyphName, transformation, identifier=None, **kw):
        self.components.append([baseGlyphName, [_plain(x) for x in transformation], identifier])


def snap_glyph(g, layer, out):
    rec = _Rec()
    g.drawPoints(rec)
    n = g.name
    out[(("glyph", layer, n, "width"), "")] = _c(g.width)
    out[(("glyph", layer, n, "height"), "")] = _c(g.height)
    out[(("glyph", layer, n, "unicodes"), "")] = _c(list(g.unicodes))
    out[(("glyph", layer, n, "outline"), "")] = json.dumps(rec.contours, separators=(",", ":"))
    out[(("glyph", layer, n, "components"), "")] = json.dumps(rec.components, separators=(",", ":"))
    out[(("glyph", layer, n, "anchors"), "")] = _c(
        [[a.name, a.x, a.y, getattr(a, "color", None), getattr(a, "identifier", None)] for a in g.anchors])
    out[(("glyph", layer, n, "guidelines"), "")] = _c(list(g.guidelines))
    out[(("glyph", layer, n, "note"), "")] = _c(g.note)
    img = getattr(g, "image", None)
    try:
        out[(("glyph", layer, n, "image"), "")] = _c(dict(img) if img is not None and getattr(img, "fileName", None) else None)
    except Exception:
        out[(("glyph", layer, n, "image"), "")] = repr(img)
    cell = ("glyph", layer, n, "lib")
    out[(cell, "@dict")] = "1"
    for k, v in dict(g.lib).items():
        _flat(v, str(k), out, cell)


def snap_font(font):
    out = {}
    info = font.info
    for a in _info_attrs():
        v = getattr(info, a, None)
        if v is not None:
            out[(("info", a), "")] = _c(v)
    _snap_lib(font.lib, lambda k: ("fontLib", k), out)
    for (a, b), v in font.kerning.items():
        out[(("kerning", f"{a} {b}"), "")] = _c(v)
    for k, v in font.groups.items():
        out[(("groups", k), "")] = _c(list(v))
    out[(("features", "text"), "")] = _c(font.features.text)
    layers = font.layers
    out[(("other", "layers", "order"), "")] = _c([l.name for l in layers])
    out[(("other", "layers", "default"), "")] = _c(layers.defaultLayer.name)
    for layer in layers:
        ln = layer.name
        out[(("other", "layer:" + ln, "names"), "")] = _c(sorted(layer.keys()))
        out[(("other", "layer:" + ln, "color"), "")] = _c(getattr(layer, "color", None))
        _snap_lib(layer.lib, lambda k, ln=ln: ("layerLib", ln, k), out)
        for g in layer:
            snap_glyph(g, ln, out)
    try:
        out[(("other", "data", "files"), "")] = _c(sorted(font.data.fileNames))
        out[(("other", "images", "files"), "")] = _c(sorted(font.images.fileNames))
    except Exception:
        pass
    return out


def _ds_plain(v, fonts):
    if v is None or isinstance(v, (bool, int, str)):
        return v
    if isinstance(v, float):
        return {"f": v.hex()}
    if isinstance(v, dict):
        return {"d": [[str(k), _ds_plain(x, fonts)] for k, x in sorted(v.items(), key=lambda kv: str(kv[0]))]}
    if isinstance(v, (list, tuple)):
        return [_ds_plain(x, fonts) for x in v]
    if hasattr(v, "__dict__"):
        d = {}
        for k, x in sorted(vars(v).items()):
            if k == "font":
                d[k] = _font_id(x, fonts)
            elif k == "documentObject":
                continue
            else:
                d[k] = _ds_plain(x, fonts)
        return {"o": type(v).__name__, "a": d}
    return {"r": repr(v)}


def _font_id(x, fonts):
    if x is None:
        return "none"
    for i, f in enumerate(fonts):
        if f is x:
            return "font#%d" % i
    return "other:" + type(x).__name__


DS_LISTS = ("axes", "axisMappings", "sources", "instances", "rules", "variableFonts", "locationLabels")


def snap_ds(doc, fonts):
    """(("doc", slot), detail) -> value.  `default` — the memo that findDefault() fills — is not document
    content (it is not serialised and is recomputed on demand); it is returned separately."""
    out = {}
    for k, v in sorted(vars(doc).items()):
        if k in DS_LISTS:
            seq = list(v or [])
            out[(("doc", f"{k}/@len"), "")] = str(len(seq))
            for i, d in enumerate(seq):
                if hasattr(d, "__dict__"):
                    for ak, av in sorted(vars(d).items()):
                        if ak == "font":
                            out[(("doc", f"{k}/{i}/font"), "")] = _font_id(av, fonts)
                        else:
                            out[(("doc", f"{k}/{i}/{ak}"), "")] = json.dumps(_ds_plain(av, fonts), sort_keys=True)
                else:
                    out[(("doc", f"{k}/{i}"), "")] = json.dumps(_ds_plain(d, fonts), sort_keys=True)
        elif k == "lib":
            for lk, lv in dict(v).items():
                _flat(lv, "", out, ("doc", "lib/" + str(lk)))
        elif k in ("default", "log", "writerClass", "readerClass"):
            continue
        else:
            out[(("doc", k), "")] = json.dumps(_ds_plain(v, fonts), sort_keys=True)
    return out


def ds_default_memo(doc):
    d = getattr(doc, "default", None)
    return next((i for i, s in enumerate(doc.sources) if s is d), None)


def snapshot(fonts, doc=None):
    out = {}
    for i, f in enumerate(fonts):
        for (cell, det), v in snap_font(f).items():
            out[((cell[0], i) + cell[1:], det)] = v
    if doc is not None:
        out.update(snap_ds(doc, fonts))
    return out


def diff(a, b):
    """(sorted list of changed cells, {cell-json: [details]})"""
    keys = [k for k in a if k not in b or a[k] != b[k]] + [k for k in b if k not in a]
    cells = {}
    for cell, det in keys:
        cells.setdefault(json.dumps(list(cell)), set()).add(det)
    return [json.loads(c) for c in sorted(cells)], {c: sorted(d) for c, d in sorted(cells.items())}


# ---------------------------------------------------------------------------- description for the model

KNOWN_FILTERS = {
    "decomposeComponents": "DecomposeComponentsFilter",
    "decomposeTransformedComponents": "DecomposeTransformedComponentsFilter",
    "flattenComponents": "FlattenComponentsFilter",
    "removeOverlaps": "RemoveOverlapsFilter",
    "cubicToQuadratic": "CubicToQuadraticFilter",
    "reverseContourDirection": "ReverseContourDirectionFilter",
    "sortContours": "SortContoursFilter",
    "transformations": "TransformationsFilter",
    "propagateAnchors": "PropagateAnchorsFilter",
    "skipExportGlyphs": "SkipExportGlyphsFilter",
    "explodeColorLayerGlyphs": "ExplodeColorLayerGlyphsFilter",
    "dottedCircle": "DottedCircleFilter",
    "probe": "ProbeFilter",
}
PROBE_NS = "lib_C07_ns"


def glyphs_of(layer):
    """the glyphs of a layer in an order that does not depend on the interpreter's string-hash seed: ufoLib2 layers are
    insertion-ordered dicts; defcon hands out its names as a set, so they are sorted here"""
    gl = list(layer)
    if type(layer).__module__.startswith("ufoLib2"):
        return gl
    return sorted(gl, key=lambda g: g.name)


def class_name(name):
    """the naming rule of ufo2ft.filters.getFilterClass"""
    n = name.replace(" ", "")
    c = n[0].upper() + n[1:]
    return c if c.endswith("Filter") else c + "Filter"


def spec_of(fdict):
    """{"kind","pre"} for a lib/arg filter dict, None when the loader would skip it (unknown module)"""
    n = fdict["name"].replace(" ", "")
    mod = n[0].lower() + n[1:]
    if mod.endswith("Filter"):
        return None
    if mod not in KNOWN_FILTERS:
        return None
    if (mod == "probe") != (fdict.get("namespace") == PROBE_NS):
        return None
    d = {"kind": class_name(n), "pre": bool(fdict.get("pre", False))}
    if mod == "skipExportGlyphs":
        d["skip"] = sorted((fdict.get("args") or [[]])[0])      # names this filter deletes from the glyph set
    return d


def _my_copy(g):
    """what a glyph-set copy of `g` holds (name, metrics, code points, anchors, lib, outline) — written from the
    UFO API, not from ufo2ft — used only for Python `==` against another layer's glyph"""
    import ufoLib2
    c = ufoLib2.objects.Glyph(g.name)
    c.width, c.height = g.width, g.height
    c.unicodes = list(g.unicodes)
    c.anchors = [dict(name=a.name, x=a.x, y=a.y, **({"color": a.color} if a.color else {}),
                      **({"identifier": a.identifier} if a.identifier else {})) for a in g.anchors]
    c.lib = copy.deepcopy(dict(g.lib))
    g.drawPoints(c.getPointPen())
    return c


def _width_nz(font, g, is_ufolib2):
    try:
        if is_ufolib2:
            b = g.getBounds(font)
            w = (b.xMax - b.xMin) if b else None
        else:
            b = g.bounds
            w = (b[2] - b[0]) if b else None
    except Exception:
        return True
    if w is None:
        w = g.width
    return bool(w)


def describe(font, inplace=False, want_width=False):
    is_u2 = type(font).__module__.startswith("ufoLib2")
    lib = font.lib
    dflt = font.layers.defaultLayer
    gmap_any = COLOR_MAPPING in lib or any(COLOR_MAPPING in g.lib for l in font.layers for g in l)
    layers = []
    for layer in font.layers:
        gl = []
        for g in glyphs_of(layer):
            d = {"name": g.name, "contours": len(g) > 0, "comps": [c.baseGlyph for c in g.components],
                 "unicodes": bool(g.unicodes), "dc": 0x25CC in g.unicodes,
                 "anchors": [a.name for a in g.anchors]}
            cm = g.lib.get(COLOR_MAPPING)
            if cm is not None:
                d["colorMap"] = [x[0] for x in cm]
            if want_width and layer is dflt:
                d["widthNZ"] = _width_nz(font, g, is_u2)
            if gmap_any:
                eq = []
                for other in font.layers:
                    if g.name not in other:
                        continue
                    o = other[g.name]
                    if inplace:
                        same = o is g or (is_u2 and g == o)
                    else:
                        same = is_u2 and _my_copy(g) == o
                    if same:
                        eq.append(other.name)
                d["eq"] = eq
            gl.append(d)
        layers.append({"name": layer.name, "glyphs": gl})
    consts = lib.get(MATH_CONSTANTS)
    dcname = next((g.name for g in glyphs_of(dflt) if 0x25CC in g.unicodes), "uni25CC")
    cats = lib.get(CATS_KEY)
    gm = lib.get(COLOR_MAPPING)
    fea = re.sub(r"(?m)#.*$", "", font.features.text or "")
    ld = {
        "mathPrefix": any(str(k).startswith(MATH_PREFIX) for k in lib),
        "mathConstants": isinstance(consts, dict),
        "mathMCO": isinstance(consts, dict) and "MinConnectorOverlap" in consts,
        "palettes": COLOR_PALETTES in lib, "colorLayers": COLOR_LAYERS in lib,
        "colorMap": None if gm is None else [x[0] for x in gm],
        "categories": CATS_KEY in lib, "catsDCBase": isinstance(cats, dict) and cats.get(dcname) == "base",
        "curveType": CURVE_KEY in lib,
        "filters": [s for s in (spec_of(f) for f in lib.get(FILTERS_KEY, [])) if s],
        "skipExport": list(lib.get("public.skipExportGlyphs", [])),
    }
    return {"default": dflt.name, "layers": layers, "lib": ld,
            "gdefTable": re.search(r"\btable\s+GDEF\b", fea) is not None,
            "layerCurveType": [l.name for l in font.layers if CURVE_KEY in l.lib]}
