"""C19 - instances equal masters at master locations and the model's blend elsewhere."""
import copy
import os
import shutil
import tempfile
from fractions import Fraction

import lib_C19 as L
from ufo import err_kind, rat

ID = "C19"
THEOREM = ("Ufo2ft.C19.C19_master / C19_blend / C19_holdsGlyph / C19_blend_two / C19_scalars1_master / C19_instance_geometry / "
           "C19_glyphset / C19_unicodes / C19_swap_ref / C19_swap_involution / C19_swap_unicodes / C19_swap_render / "
           "C19_kern_blend / C19_holdsKern / C19_kern_round / C19_pure / C19_collect_ref")
N = {"quick": 200, "thorough": 8000}
RULE = ("families: 1-2 axes (axis maps, default at an end or inside), 1-6 sources on exact dyadic positions (chains of intermediate "
        "masters per axis side, corner masters on two axes), sparse layer sources and sparse fonts, glyphs empty in one master, an "
        "extra glyph outside the default, glyphs empty in every master (space, anchor-only) with per-master advances; in half "
        "of the families the default source is NOT the first <source> (sources shuffled, or the default listed last), so "
        "masters are met by the collecting loops before the default source (tags default-not-first, "
        "empty-glyph-before-default[:at-that-master]); one deliberately incompatible glyph in a fifth of the families (more/fewer points or "
        "contours, component/anchor mismatches, repeated anchor names), same-key or wild kerning with kern1/kern2 groups "
        "(overlapping), six numeric info attributes (all/none/mixed), 0-2 rules with 1-2 condition sets and open bounds, "
        "substitutions to alternates/missing/identical glyphs, public.skipExportGlyphs; written to a temporary directory as UFOs + "
        ".designspace and read back (half) or kept in memory (half); round_geometry on/off; one Instantiator per family, up to 7 "
        "instances generated in sequence: every master location, axis ends, beyond the ends, interior dyadic points, and (60 % of "
        "the families, 1-2 each, tag near-master) locations that are NOT a master location but lie within 0.0005 normalized of "
        "one on every axis - master +- span*2^-k, k in 11,12,13,16 (exact in doubles, unrounded design values), moved on one or on "
        "all axes, towards the inside of the axis range - so that a master shortcut taken with any tolerance/rounded location key "
        "shows as a plateau instead of the blend (visible with round_geometry off, or with rounding on once a master delta "
        "exceeds ~1/offset units); sources "
        "snapshotted before/after (objects and files). A tenth of the families use non-dyadic positions/locations and are "
        "compared with tolerance 1e-6 (never alone breaking correspondence). Function level: swap_glyph_names once and twice on "
        "random fonts whose two glyphs are referenced from components, kerning and groups at once; one-axis master scalars of the "
        "real VariationModel against the hat model. non-trivial = an instance that is not at the default location and whose "
        "family has >= 2 sources, or an active substitution; for swap: the two glyphs are distinct and referenced; for scalars: "
        ">= 3 masters.")
ASSUMED = [
    "fontMath arithmetic (MathGlyph/MathKerning/MathInfo +, *, round, extract*) is re-stated in the model for the observable "
    "fields (contours, components, anchors, width, height; pairs and kern groups; six info attributes) and tied by the "
    "correspondence run; identifiers, guidelines, images, libs and notes are not modelled (never generated)",
    "VariationModel.getMasterScalars: modelled and proved (master reproduction, partition of unity) for ONE axis; for two axes the "
    "scalars are measured on the real VariationModel for every master sub-list and enter the model as input (their "
    "master-reproduction law is a hypothesis of C19_reproduce, measured on every request)",
    "IEEE double arithmetic is exact on the generated dyadic grids (exact stream); the inexact stream is compared with 1e-6",
    "designspaceLib reading/writing and ufoLib2 loading are identities on the generated data (measured: disk and memory modes agree with one model)",
]

_TOL = 1e-6


def gen(rng, n, mode):
    search = mode == "search"
    # function level: one-axis master scalars
    for i in range(max(2, n // 20)):
        items = []
        for _ in range(40):
            exact = rng.random() < 0.6
            if exact:
                ps = [0.0] + list(rng.choice(L.CHAINS)) + [-p for p in rng.choice(L.CHAINS)]
                vs = [rng.randrange(-64, 65) / 64 for _ in range(5)] + [rng.choice(ps)]
            else:
                grid = [k / 10 for k in range(-10, 11) if k] + [1 / 3, -2 / 3, 0.15]
                ps = [0.0] + rng.sample(grid, rng.choice([1, 2, 3, 4, 5]))
                vs = [rng.random() * 2 - 1 for _ in range(4)] + [rng.choice(ps), 1.0, -1.0]
            rng.shuffle(ps)
            items.append({"ps": ps, "vs": vs, "exact": exact})
        yield {"kind": "scalars", "items": items}
    # function level: swap_glyph_names
    for i in range(max(2, n // 8)):
        yield {"kind": "swap", "items": [gen_swap(rng, search) for _ in range(10)]}
    # families
    for i in range(n):
        exact = rng.random() < 0.9
        fam = L.gen_family(rng, exact, search)
        mode_ = rng.choice(["disk", "memory"])
        if L.overlapping_kern_groups(fam):
            mode_ = "memory"          # ufoLib refuses to write a glyph that is in two kerning groups of one side
        yield {"kind": "family", "fam": fam, "round": rng.random() < 0.5, "mode": mode_,
               "exact": exact, "instances": L.gen_instances(rng, fam, exact)}


def gen_swap(rng, search):
    k = rng.choice([2, 3, 4, 5])
    names = rng.sample(L.GLYPHS, k)
    st = L.gen_structure(rng, names)
    a, b = rng.sample(names, 2)
    # make sure the two glyphs are referenced from components (also from each other), kerning and groups
    for n in names:
        if n not in (a, b) and rng.random() < 0.6:
            st[n]["comps"] = [rng.choice([a, b]) for _ in range(rng.choice([1, 2]))] + st[n]["comps"]
    lib = rng.choice(["ufoLib2", "ufoLib2", "defcon"])
    if rng.random() < 0.4 and not _reaches({n: st[n]["comps"] for n in names}, a, b):
        st[b]["comps"] = [a] + [c for c in st[b]["comps"] if c != b]      # b references its swap partner
    graph = {n: st[n]["comps"] for n in names}
    if lib == "defcon" and not _finding_listed(DEFCON_FINDING) and (_reaches(graph, a, b) or _reaches(graph, b, a)):
        lib = "ufoLib2"          # see classify_failure: generated for defcon only once the finding is listed
    if rng.random() < 0.15 and lib == "ufoLib2":
        st[a]["comps"] = st[a]["comps"] + [a]                                 # self reference (never rendered; defcon cannot hold it)
    if _cyclic({n: st[n]["comps"] for n in names}):
        lib = "ufoLib2"          # defcon's notification machinery recurses forever on a component cycle
    glyphs = [L.gen_glyph(rng, n, st[n], [0x41 + i] if rng.random() < 0.8 else []) for i, n in enumerate(names)]
    groups = L.gen_groups(rng, names)
    if rng.random() < 0.7:
        groups["public.kern1.Z"] = [a] + ([b] if rng.random() < 0.5 else [])
        groups["public.kern2.Z"] = [b, a] if rng.random() < 0.5 else [b]
    pairs = L.gen_pairs(rng, names, groups) + [(a, b), (b, a), (a, a)][:rng.choice([0, 1, 2, 3])]
    pairs = list(dict.fromkeys(tuple(p) for p in pairs))
    fd = {"glyphs": glyphs, "kerning": [[p[0], p[1], L.kern_value(rng)] for p in pairs], "groups": groups}
    r = rng.random()
    if r < 0.08:
        b = "missing"
    elif r < 0.12:
        b = a
    return {"fd": fd, "a": a, "b": b, "lib": lib}


DEFCON_FINDING = "C19-defcon-swap-partner-reference"


def _finding_listed(fid):
    """the defcon partner-reference crash (see classify_failure) is generated only when known_findings.json has an entry
    for it (kind known or fixed): without the entry the unchanged tree must stay green, with it the hit is reported as
    KNOWN-FINDING (or passes, once fixed)."""
    import json
    p = os.path.join(os.path.dirname(os.path.dirname(os.path.dirname(os.path.abspath(__file__)))), "known_findings.json")
    try:
        return any(f.get("id") == fid for f in json.load(open(p))["findings"])
    except Exception:
        return False


def _reaches(graph, x, y):
    """x reaches y through one or more component references"""
    seen, todo = set(), list(graph.get(x, []))
    while todo:
        n = todo.pop()
        if n == y:
            return True
        if n not in seen:
            seen.add(n)
            todo += graph.get(n, [])
    return False


def _cyclic(graph):
    state = {}

    def visit(n):
        if state.get(n) == 1:
            return True
        if state.get(n) == 2:
            return False
        state[n] = 1
        if any(visit(m) for m in graph.get(n, [])):
            return True
        state[n] = 2
        return False
    return any(visit(n) for n in graph)


# ---------------------------------------------------------------------------------------------- run

def _font_or_err(f):
    return f


def run_swap(case):
    from ufo import build
    from ufo2ft.instantiator import swap_glyph_names
    out = []
    for it in case["items"]:
        fd, a, b = it["fd"], it["a"], it["b"]
        font = build(fd, it["lib"])

        def once():
            try:
                swap_glyph_names(font, a, b)
                return {"err": None, "font": L.obs_font(font)}
            except Exception as e:
                return {"err": err_kind(e)}
        o1 = once()
        # the input glyph order is the font's order
        o2 = once() if o1["err"] is None else {"err": o1["err"]}
        inp = L.enc_font(fd)
        names = [g["name"] for g in fd["glyphs"]]
        referenced = any(c[0] in (a, b) for g in fd["glyphs"] for c in g["components"]) and \
            any(a in (p[0], p[1]) or b in (p[0], p[1]) for p in fd["kerning"])
        # observed glyphs are sorted by name; the model keeps the input order: send the input sorted too
        inp["glyphs"].sort(key=lambda g: g["name"])
        graph = {g["name"]: [c[0] for c in g["components"]] for g in fd["glyphs"]}
        partner = _reaches(graph, a, b) or _reaches(graph, b, a)
        out.append({"op": "swap", "in": {"font": inp, "a": a, "b": b, "lib": it["lib"], "partnerRef": partner},
                    "obs": {"once": o1, "twice": o2},
                    "nontrivial": a != b and b in names and referenced,
                    "tags": ["swap", "swap:" + ("missing" if b not in names else "same" if a == b else "ok"), "swap:" + it["lib"]]
                    + (["swap:partner-ref"] if any(c[0] == a for g in fd["glyphs"] if g["name"] == b for c in g["components"]) else [])})
    return out


def run_scalars(case):
    from fontTools.varLib.models import VariationModel
    out = []
    for it in case["items"]:
        ps = it["ps"]
        m = VariationModel([{"a": p} for p in ps], ["a"])
        for v in it["vs"]:
            sc = m.getMasterScalars({"a": v})
            out.append({"op": "scalars", "in": {"ps": [rat(p) for p in ps], "v": rat(v), "tol": rat(0 if it["exact"] else _TOL)},
                        "obs": [rat(s) for s in sc], "nontrivial": len(ps) >= 3,
                        "tags": ["scalars", "scalars:" + ("exact" if it["exact"] else "tol"), "scalars:n=%d" % len(ps)]
                        + (["scalars:at-master"] if v in ps else [])})
    return out


def run_family(case):
    import ufoLib2  # noqa: F401
    from fontTools import designspaceLib as dl
    from fontTools.varLib.models import normalizeLocation
    from ufo2ft.instantiator import Instantiator
    fam = case["fam"]
    tmp = tempfile.mkdtemp(prefix="C19-")
    try:
        return _run_family(case, fam, tmp, dl, normalizeLocation, Instantiator)
    finally:
        shutil.rmtree(tmp, ignore_errors=True)


def _run_family(case, fam, tmp, dl, normalizeLocation, Instantiator):
    mode = case["mode"]
    ds = L.build_designspace(fam, mode, tmp)
    enc = L.enc_family(fam)
    tol = 0 if case["exact"] else _TOL
    # what the model needs from outside: measured scalars for >1 axis
    bounds = {a["name"]: (a["dmin"], a["ddef"], a["dmax"]) for a in fam["axes"]}
    names = [a["name"] for a in fam["axes"]]
    multi = len(names) > 1
    setup_err = None
    inst = None
    try:
        inst = Instantiator.from_designspace(ds, round_geometry=case["round"])
    except Exception as e:
        setup_err = err_kind(e)
    src_fonts = []
    for s in ds.sources:
        if s.font is not None and all(s.font is not f for f in src_fonts):
            src_fonts.append(s.font)
    before = [L.snapshot(f) for f in src_fonts]
    digest = L.tree_digest(tmp) if mode == "disk" else None
    nsrc = len(fam["sources"])
    reqs = []
    for k, iloc in enumerate(case["instances"]):
        obs = {"err": setup_err}
        if inst is not None:
            idesc = dl.InstanceDescriptor()
            idesc.location = {n: v for n, v in iloc}
            idesc.familyName, idesc.styleName = "Fam", "I%d" % k
            try:
                font = inst.generate_instance(idesc)
                info = font.info
                obs = {"err": None, "font": L.obs_font(font),
                       "info": {"attrs": [None if getattr(info, a) is None else rat(getattr(info, a)) for a in L.INFO_ATTRS],
                                "weightClass": info.openTypeOS2WeightClass,
                                "widthClass": None if info.openTypeOS2WidthClass is None else int(info.openTypeOS2WidthClass)},
                       "libLocation": [[n, rat(v)] for n, v in font.lib.get("designspace.location", [])],
                       "libSkip": list(font.lib.get("public.skipExportGlyphs", [])),
                       "other": [font.features.text, font.info.familyName, font.info.styleName,
                                 repr({kk: vv for kk, vv in font.lib.items() if kk not in ("designspace.location", "public.skipExportGlyphs")})]}
            except Exception as e:
                obs = {"err": err_kind(e)}
        # purity: the sources (objects and files) are what they were
        after = [L.snapshot(f) for f in src_fonts]
        pure = after == before and (digest is None or L.tree_digest(tmp) == digest)
        obs["pure"] = pure
        table = []
        if multi:
            full = {a["name"]: a["ddef"] for a in fam["axes"]}
            nl_of = [normalizeLocation({n: v for n, v in s["loc"]}, bounds) for s in fam["sources"]]
            inl = normalizeLocation({**full, **{n: v for n, v in iloc}}, bounds)
            table = L.scalar_table(fam, nl_of, inl)
        if tol == 0 and inst is not None and obs["err"] is None:
            tol = _exactness(inst, idesc, tol)
        i = dict(enc)
        i.update({"table": table, "round": case["round"], "loc": [[n, rat(v)] for n, v in iloc], "tol": rat(tol)})
        defloc = all(v == bounds[n][1] for n, v in iloc)
        tags = ["inst", "axes=%d" % len(names), "sources=%d" % nsrc, "mode:" + mode, "round:%s" % case["round"],
                "stream:" + ("exact" if tol == 0 else "tol"), "err:%s" % obs["err"], "seq:%d" % min(k, 3)]
        if any(s["layer"] for s in fam["sources"]):
            tags.append("sparse-layer")
        if fam.get("broken"):
            tags.append("broken:" + fam["broken"][1])
            if fam["broken"][0] in fam["skip"]:
                tags.append("broken-in-skip")
        if fam.get("malformed"):
            tags.append("malformed:" + fam["malformed"])
        if fam["wild_kern"]:
            tags.append("kern:wild")
        if fam["rules"]:
            tags.append("rules")
        if any(a["map"] for a in fam["axes"]):
            tags.append("axis-map")
        di = L.default_index(fam)
        if di:
            tags.append("default-not-first")
            early = _empty_before_default(fam, di)
            if early:
                tags.append("empty-glyph-before-default")
                if any(_same_loc(fam, fam["sources"][j]["loc"], iloc) for j in early):
                    tags.append("empty-glyph-before-default:at-that-master")
        atm = any(_same_loc(fam, s["loc"], iloc) for s in fam["sources"])
        tags.append("at-master" if atm else "between")
        if not atm and _near_master(fam, bounds, normalizeLocation, iloc):
            tags.append("near-master")
        full = {a["name"]: a["ddef"] for a in fam["axes"]}
        full.update({n: v for n, v in iloc})
        gnames = [g["name"] for g in fam["fonts"][0]["glyphs"]]
        act = [s for r in fam["rules"] if _rule_active(r, full) for s in r["subs"] if s[0] in gnames and s[0] != s[1]]
        if act:
            tags.append("swap-active:%d" % min(len(act), 3))
        if obs["err"] is None and any(g["name"] in fam["skip"] and not g["contours"] and not g["comps"] and not g["unicodes"] and g["width"] == "0"
                                      for g in obs["font"]["glyphs"]):
            tags.append("skip-left-empty?")
        reqs.append({"op": "inst", "in": i, "obs": obs, "nontrivial": (obs["err"] is None and ((not defloc and nsrc >= 2) or bool(act))),
                     "tags": tags})
    # the distribution tag for active substitutions needs the model's view; approximated from the observation:
    return reqs


def _exactness(inst, idesc, tol):
    """safety net for the exact stream: if a master list actually in use has master scalars that are not short dyadic
    numbers at this location, double arithmetic is not exact and the request is compared with tolerance"""
    try:
        nl = inst.normalize({**inst.default_design_location, **idesc.location})
        muts = [inst.info_mutator, inst.kerning_mutator] + list(inst.glyph_mutators.values())
        for m in muts:
            if m is None:
                continue
            for sc in m.model.getMasterScalars(nl):
                if Fraction(sc).denominator > (1 << 20):
                    return _TOL
    except Exception:
        pass
    return tol


def _rule_active(r, loc):
    def cond(c):
        v = loc.get(c["name"])
        return v is not None and (c["min"] is None or c["min"] <= v) and (c["max"] is None or v <= c["max"])
    return any(all(cond(c) for c in cs) for cs in r["condSets"])


def _src_glyphs(fam, s):
    fd = fam["fonts"][s["font"]]
    return fd["glyphs"] if s["layer"] is None else fd["layers"][s["layer"]]


def _empty_before_default(fam, di):
    """indices of the sources listed BEFORE the default source in which some glyph that is empty (no contours, no
    components) in the default source is empty too, with another advance width or other anchors: the masters that
    collect_glyph_masters must keep although it meets them before it has seen the default glyph"""
    empty = lambda g: not g["contours"] and not g["components"]
    dg = {g["name"]: g for g in _src_glyphs(fam, fam["sources"][di]) if empty(g)}
    out = []
    for j in range(di):
        for g in _src_glyphs(fam, fam["sources"][j]):
            d = dg.get(g["name"])
            if d is not None and empty(g) and (g["width"], g["anchors"]) != (d["width"], d["anchors"]):
                out.append(j)
                break
    return out


def _near_master(fam, bounds, normalizeLocation, iloc):
    """the instance is within 0.0005 (normalized, every axis) of some master location (without being on it)"""
    full = {x["name"]: x["ddef"] for x in fam["axes"]}
    inl = normalizeLocation({**full, **{n: v for n, v in iloc}}, bounds)
    for s in fam["sources"]:
        snl = normalizeLocation({**full, **{n: v for n, v in s["loc"]}}, bounds)
        if all(abs(snl[k] - inl[k]) < 0.0005 for k in inl):
            return True
    return False


def _same_loc(fam, a, b):
    full = {x["name"]: x["ddef"] for x in fam["axes"]}
    clamp = lambda d: {x["name"]: min(max(d[x["name"]], x["dmin"]), x["dmax"]) for x in fam["axes"]}
    return clamp({**full, **{n: v for n, v in a}}) == clamp({**full, **{n: v for n, v in b}})


def run(case):
    import logging
    logging.disable(logging.WARNING)
    if case["kind"] == "scalars":
        return run_scalars(case)
    if case["kind"] == "swap":
        return run_swap(case)
    return run_family(case)


# ---------------------------------------------------------------------------------------------- comparison

def _num(s):
    return Fraction(s)


def _close(a, b, tol):
    if a is None or b is None:
        return a is None and b is None
    return abs(_num(a) - _num(b)) <= tol


def _glyph_eq(m, o, tol):
    if (m["name"], m["unicodes"]) != (o["name"], o["unicodes"]):
        return False
    if not (_close(m["width"], o["width"], tol) and _close(m["height"], o["height"], tol)):
        return False
    if len(m["contours"]) != len(o["contours"]) or len(m["comps"]) != len(o["comps"]) or len(m["anchors"]) != len(o["anchors"]):
        return False
    for cm, co in zip(m["contours"], o["contours"]):
        if len(cm) != len(co):
            return False
        for pm, po in zip(cm, co):
            if pm[2] != po[2] or not _close(pm[0], po[0], tol) or not _close(pm[1], po[1], tol):
                return False
    for cm, co in zip(m["comps"], o["comps"]):
        if cm[0] != co[0] or not all(_close(x, y, tol) for x, y in zip(cm[1], co[1])):
            return False
    for am, ao in zip(m["anchors"], o["anchors"]):
        if am[0] != ao[0] or not _close(am[1], ao[1], tol) or not _close(am[2], ao[2], tol):
            return False
    return True


def _font_eq(m, o, tol):
    mg = sorted(m["glyphs"], key=lambda g: g["name"])
    og = sorted(o["glyphs"], key=lambda g: g["name"])
    if len(mg) != len(og) or not all(_glyph_eq(a, b, tol) for a, b in zip(mg, og)):
        return False
    mk, ok = sorted(m["kerning"]), sorted(o["kerning"])
    if tol == 0:
        if mk != ok:
            return False
    else:
        # a pair whose blend is zero up to rounding noise may or may not have been cleaned up
        dm = {(l, r): v for l, r, v in mk}
        do = {(l, r): v for l, r, v in ok}
        for k in set(dm) | set(do):
            if not _close(dm.get(k, "0"), do.get(k, "0"), tol):
                return False
    return sorted(m["groups"]) == sorted(o["groups"])


def agree(req, rep):
    m, o = rep["model"], req["obs"]
    op = req["op"]
    if op == "scalars":
        tol = _num(req["in"]["tol"])
        return len(m) == len(o) and all(_close(a, b, tol) for a, b in zip(m, o))
    if op == "swap":
        if classify_failure({"req": req}) is not None:
            # defcon's own crash on a transient component cycle is not part of the model (which describes the font
            # objects generate_instance works on); the property predicate still fails on it -> finding, not divergence
            return True
        for k in ("once", "twice"):
            if (m[k].get("err") is None) != (o[k].get("err") is None):
                return False
            if m[k].get("err") is not None:
                if m[k]["err"] != o[k]["err"]:
                    return False
            elif not _font_eq(m[k]["font"], o[k]["font"], 0):
                return False
        return True
    tol = _num(req["in"]["tol"])
    if m.get("err") is not None or o.get("err") is not None:
        return m.get("err") == o.get("err")
    rtol = 1 if (tol > 0 and req["in"]["round"]) else tol
    if not _font_eq(m["font"], o["font"], rtol):
        return False
    if m["info"]["weightClass"] != o["info"]["weightClass"] or m["info"]["widthClass"] != o["info"]["widthClass"]:
        return False
    if len(m["info"]["attrs"]) != len(o["info"]["attrs"]) or not all(_close(a, b, rtol) for a, b in zip(m["info"]["attrs"], o["info"]["attrs"])):
        return False
    return m["libLocation"] == o["libLocation"] and m["libSkip"] == o["libSkip"]


# ---------------------------------------------------------------------------------------------- shrinking, findings

def shrink(case):
    if case["kind"] != "family":
        for i in range(len(case["items"])):
            yield {"kind": case["kind"], "items": [case["items"][i]]}
        return
    fam = case["fam"]
    for i in range(len(case["instances"])):
        if len(case["instances"]) > 1:
            c = copy.deepcopy(case); c["instances"] = [case["instances"][i]]; yield c
    for i in range(len(case["instances"])):
        if len(case["instances"]) > 1:
            c = copy.deepcopy(case); del c["instances"][i]; yield c
    if fam["rules"]:
        for i in range(len(fam["rules"])):
            c = copy.deepcopy(case); del c["fam"]["rules"][i]; yield c
    # drop a non-default source
    di = L.default_index(fam)
    for i in range(len(fam["sources"])):
        if i == di:
            continue
        c = copy.deepcopy(case); del c["fam"]["sources"][i]
        c["exact"] = False            # the remaining positions need not be an exact chain any more
        yield c
    # drop a glyph everywhere
    names = [g["name"] for g in fam["fonts"][0]["glyphs"]]
    for n in names:
        if len(names) <= 1:
            break
        c = copy.deepcopy(case)
        for fd in c["fam"]["fonts"]:
            fd["glyphs"] = [g for g in fd["glyphs"] if g["name"] != n and all(cc[0] != n for cc in g["components"])]
            for ln in list(fd.get("layers", {})):
                fd["layers"][ln] = [g for g in fd["layers"][ln] if g["name"] != n and all(cc[0] != n for cc in g["components"])]
            fd["kerning"] = [k for k in fd.get("kerning", []) if n not in (k[0], k[1])]
            fd["groups"] = {k: [x for x in v if x != n] for k, v in fd.get("groups", {}).items()}
        if c["fam"]["fonts"][0]["glyphs"]:
            yield c
    for fi in range(len(fam["fonts"])):
        if fam["fonts"][fi].get("kerning"):
            c = copy.deepcopy(case); c["fam"]["fonts"][fi]["kerning"] = []; yield c
    if fam["skip"]:
        c = copy.deepcopy(case); c["fam"]["skip"] = []; yield c


def classify_failure(res):
    """Genuine defect of the unchanged tree: swap_glyph_names on a *defcon* font dies with RecursionError when one of the
    two glyphs reaches the other through component references (directly: a.alt = a + accent; or through a third glyph):
    step 1 exchanges the outlines, so until step 3 remaps the references the font holds a component cycle, and defcon's
    change notifications recurse forever on a cycle.
    (ufoLib2 fonts - the ones generate_instance creates whenever ufoLib2 is installed - are fine.)"""
    r = res["req"]
    if r["op"] == "swap" and r["in"].get("lib") == "defcon" and r["in"].get("partnerRef") and r["in"]["a"] != r["in"]["b"] \
            and r["obs"]["once"].get("err") == "RecursionError":
        return {"op": "swap_glyph_names", "ufo": "defcon", "shape": "one glyph reaches its swap partner through components",
                "error": "RecursionError"}
    return None


LEVEL_TEXT = ("Proved for all inputs (Lean): an instance at a master's location is that master, untouched by arithmetic and "
              "whatever the other masters look like (rounded with otRound iff round_geometry); off the master locations the instance of "
              "compatible masters has every number equal to the weighted sum of the masters' numbers, for ANY master scalars; the "
              "one-axis scalars are proved to reproduce masters and, for two masters, to be the linear blend ((b-l)A+(l-a)B)/(b-a); the "
              "instance's glyph names and code points are the default source's; swap_glyph_names equals the renaming semantics, is an "
              "involution, leaves code points alone and commutes with component rendering; kerning blend for masters storing the same "
              "pairs; kerning rounding gives a nearest integer; the glyph-mutator cache cannot change a result (history independence); "
              "and for the whole generate_instance: undoing the substitutions in force leaves every glyph satisfying the "
              "master/blend/rounding predicate (C19_instance_geometry), where the masters of a glyph are the declarative list - every "
              "source that has the glyph, minus, only if the default source's glyph is not empty, those where it is empty - which "
              "the model's two-step collect_glyph_masters is proved to compute wherever the default source stands in the source "
              "list (C19_collect_ref). Not proved (differential only): info attributes and OS/2 "
              "class fallbacks, kerning of masters storing different pairs, multi-axis master scalars.")
LEVEL_NOTE = ("Trusted: Lean kernel + propext/Classical.choice/Quot.sound; hand-written model of instantiator.py and of the fontMath / "
              "varLib pieces it drives, tied to the code by differential runs (disk and memory designspaces, sequences of instances "
              "from one Instantiator, designspaces listing the default source first / in between / last, instance locations on, far "
              "from and just off (2^-11..2^-16 normalized) the master locations - the model's master shortcut is exact equality of "
              "normalized locations over Q, as the code's dict lookup on the exact location key - function-level swap and "
              "scalars streams); multi-axis master scalars are measured, not modelled.")
