"""C07 - compiling never modifies the caller's sources unless inplace is requested."""
import copy
import json
import os

import lib_C07 as L
from gen import outline_font
from ufo import build, err_kind

ID = "C07"
THEOREM = ("Ufo2ft.C07.C07_main / C07_frame / C07_history / C07_signatures / C07_leaks_nil / C07_attribution / "
           "applyAll_frame / run_safe / witnessMath_fails / witnessColor_fails / witnessDC_fails / witnessPropagate_now / witnessPropagate_old_fails")
N = {"quick": 900, "thorough": 20000}
RULE = ("each case = sources (generated rich fonts: curves, nested/transformed components, anchors, kerning, groups, features, "
        "nested glyph/layer/font libs, extra layers; or fixture UFOs/designspaces of tests/data loaded into memory; ufoLib2 and defcon) "
        "x one of the nine public compile functions x options (inplace, removeOverlaps, flattenComponents, convertCubics, "
        "reverseDirection, rememberCurveType, layerName(s), skipExportGlyphs arg/lib/designspace lib, skipFeatureCompilation, "
        "variableFeatures, optimizeCFF, custom filters by argument (with/without ellipsis) and by lib key: every shipped filter "
        "plus a probe filter that writes to every field it is handed) x MATH data, colour-layer mappings, dotted-circle filter "
        "x 1 or 2 calls. Before and after every call a deep snapshot of every source font (all layers) and of the designspace "
        "document is taken; the set of changed cells is compared with the Lean model's predicted leak set (Spec.consistent: every "
        "certain write observed, everything observed predicted) and `holds` (nothing changed unless inplace) is evaluated on the "
        "observation. Fixed head: the fixtures carrying MATH / colour-layer / dotted-circle data and the mixed-composite "
        "designspace shape. "
        "non-trivial = the call has a custom/lib filter, an active skipExportGlyphs list, several sources, inplace, or activates "
        "one of the three reaching stages (setupTable_MATH, ExplodeColorLayerGlyphsFilter, DottedCircleFilter). The "
        "PropagateAnchorsIFilter-through-the-Instantiator leak was repaired in /repo 61a81a2: the model predicts no leak for it "
        "any more, its fixed-head cases stay, and classify_failure still names the shape so that a recurrence is reported.")
ASSUMED = [
    "the effect signatures (which glyph fields each shipped filter writes, that table builders / feature writers / the "
    "post-processor / varLib merge write only into the new TTFont) are validated by the before/after snapshots, not derived "
    "from the source",
    "snapshot completeness: a mutation of caller data that is invisible to the UFO object API (private caches) is not observed; "
    "DesignSpaceDocument.default (memo of findDefault) is not counted as document content",
    "writes that the model marks `may` (value-dependent: outline after removeOverlaps/cu2qu on an aliased glyph, feature text "
    "re-serialisation; with inplace=True also anchors appended through the Instantiator) are only checked as an upper bound",
    "facts about the sources that the model takes as measured input: Python `==` between a glyph-set copy and a layer glyph, "
    "truthiness of a glyph's bounds width, presence of `table GDEF` in the feature text",
]

DATA = "/repo/tests/data/"
FIX_UFOS = ["TestFont.ufo", "MTIFeatures.ufo", "TestMathFont-Regular.ufo", "ColorTest.ufo", "ColorTestRaw.ufo", "COLRv1Test.ufo",
            "DottedCircleTest.ufo", "LayerFont-Regular.ufo", "CantarellAnchorPropagation.ufo", "MultipleAnchorClasses.ufo",
            "UseMyMetrics.ufo"]
FIX_DS = ["TestVarfea.designspace", "TestVarFont.designspace", "SkipExportGlyphsTest.designspace",
          "NestedComponents.designspace", "OTestFont.designspace"]
SINGLE_FNS = ["compileTTF", "compileOTF"]
DS_FNS = ["compileInterpolatableTTFsFromDS", "compileInterpolatableOTFsFromDS", "compileVariableTTF", "compileVariableTTFs",
          "compileVariableCFF2", "compileVariableCFF2s"]
NAMES = ["A", "B", "C", "a", "b", "c", "a.alt", "f_i", "space", "zero", "one", "x", "y", "z", "e", "eacute", "period", "comma"]
MATH_CONSTS = {"ScriptPercentScaleDown": 70, "ScriptScriptPercentScaleDown": 60, "DelimitedSubFormulaMinHeight": 1300,
               "AxisHeight": 250, "RadicalDegreeBottomRaisePercent": 60}


# ------------------------------------------------------------------------------------------------ generators

def _free(names, fd):
    r = set(fd.get("reserved", [])) | {".notdef"} if fd else {".notdef"}
    return [n for n in names if n not in r]


def _skip_choice(rng, names, fd):
    """1-3 non-export glyphs; half of the time a composite together with one of its own bases (nested non-export
    parts), which is the shape that makes SkipExportGlyphsFilter decompose a non-export glyph itself"""
    free = _free(names, fd)
    if not free:
        return []
    out = []
    if fd is not None and rng.random() < 0.5:
        comps = [g for g in fd["glyphs"] if g["components"] and g["name"] in free]
        if comps:
            g = rng.choice(comps)
            out = [g["name"]] + [c[0] for c in g["components"] if c[0] in free][:rng.choice([1, 1, 2])]
    for _ in range(rng.choice([0, 1, 1, 2])):
        out.append(rng.choice(free))
    out = list(dict.fromkeys(out))
    if len(out) >= len(names):
        out = out[:max(1, len(names) - 1)]
    return out


def _filter_dict(rng, names, via, qcurve=False, fd=None):
    """one custom filter (as the lib dict; argument filters are instantiated from the same dict)"""
    k = rng.choice(["propagateAnchors", "decomposeTransformedComponents", "flattenComponents", "removeOverlaps",
                    "sortContours", "transformations", "transformations", "reverseContourDirection", "cubicToQuadratic",
                    "decomposeComponents", "skipExportGlyphs", "probe", "probe", "probe", "explodeColorLayerGlyphs"]
                   if rng.random() < 0.97 else ["explodeColorLayerGlyphs"])
    if qcurve and k == "removeOverlaps":
        k = "sortContours"              # booleanOperations rejects quadratic sources outright
    d = {"name": k, "pre": rng.random() < 0.5}
    if k == "transformations":
        d["kwargs"] = rng.choice([{"OffsetX": 10, "OffsetY": -5}, {"ScaleX": 50, "ScaleY": 50}, {"OffsetX": 3}])
    if k == "skipExportGlyphs":
        d["args"] = [_skip_choice(rng, names, fd)]
        if not d["args"][0]:
            d = {"name": "sortContours", "pre": d["pre"]}
    if k == "probe":
        d["namespace"] = L.PROBE_NS
    if rng.random() < 0.15 and k not in ("skipExportGlyphs",):
        d[rng.choice(["include", "exclude"])] = rng.sample(names, min(len(names), 2))
    if via == "lib" and rng.random() < 0.05:
        d = {"name": "noSuchFilterAnywhere", "pre": False}      # the loader logs and skips it
    return d


def rich_fd(rng, mode):
    kinds = rng.choice([("line",), ("line", "curve"), ("line", "curve"), ("line", "qcurve")])
    fd = outline_font(rng, nglyphs=rng.choice([2, 3, 4, 5, 6, 8]), kinds=kinds, grid=1, half=0.1,
                      mats=("id", "id", "mirrorx", "half", "shear", "rot90"), maxdepth=2, pcomp=0.45, mixed=0.3,
                      names=NAMES, lim=400, widthhalf=0.0)
    gl = fd["glyphs"]
    if rng.random() < 0.35:
        gl.append({"name": ".notdef", "unicodes": [], "width": 500, "components": [], "anchors": [],
                   "contours": [[[50, 0, "line"], [450, 0, "line"], [450, 700, "line"], [50, 700, "line"]]]})
    names = [g["name"] for g in gl]
    cps = rng.sample(range(0x41, 0x7B), len(gl))
    marks = set(rng.sample(names, rng.choice([0, 1, 1, 2]) if len(names) > 2 else 0))
    for g, cp in zip(gl, cps):
        if g["name"] == ".notdef":
            g["height"] = 0
            continue
        if rng.random() < 0.7:
            g["unicodes"] = [cp]
        if g["name"] in marks:
            g["anchors"] = [["_top", 100, 500]] + ([["_bottom", 100, 0]] if rng.random() < 0.3 else [])
        elif rng.random() < 0.6:
            g["anchors"] = [["top", 120, 520]] + ([["bottom", 110, -10]] if rng.random() < 0.4 else [])
            if rng.random() < 0.1:
                g["width"] = 0
        if rng.random() < 0.3:
            g["lib"] = {"c07.nested": {"k": [1, 2], "d": {"x": 1}}, "c07.list": [1, [2]]}
        g["height"] = rng.choice([0, 0, 1000])
    if rng.random() < 0.5 and len(names) >= 2:
        a, b = rng.sample(names, 2)
        fd["kerning"] = [[a, b, -20], [b, a, 15]]
        if rng.random() < 0.5:
            rest = [n for n in names if n not in (a, b)]
            rng.shuffle(rest)
            h = len(rest) // 2
            fd["groups"] = {"public.kern1.grp": [a] + rest[:h], "public.kern2.grp": [b] + rest[h:], "other.grp": [b, a]}
            fd["kerning"].append(["public.kern1.grp", "public.kern2.grp", -30])
    fea = ""
    fd["reserved"] = []
    if rng.random() < 0.4 and len(names) >= 2:
        a, b = rng.sample(names, 2)
        fd["reserved"] = [a, b]
        fea += "languagesystem DFLT dflt;\nfeature liga {\n    sub %s by %s;\n} liga;\n" % (a, b)
    fd["features"] = fea
    fd["qcurve"] = "qcurve" in kinds
    fd["lib"] = {"c07.font.nested": {"a": [1, 2, {"b": 3}]}}
    if rng.random() < 0.3:
        fd["lib"]["public.postscriptNames"] = {n: "ps" + str(i) for i, n in enumerate(names[:3])}
    if rng.random() < 0.2:
        fd["lib"]["public.openTypeMeta"] = {"dlng": ["en-latn"], "slng": ["la"]}
    if rng.random() < 0.25:
        fd["lib"]["com.github.googlei18n.ufo2ft.featureWriters"] = [
            {"class": "KernFeatureWriter", "options": {"mode": rng.choice(["skip", "append"])}},
            {"class": "MarkFeatureWriter"}] + ([{"class": "GdefFeatureWriter"}] if rng.random() < 0.5 else [])
    if rng.random() < 0.15:
        fd["lib"]["com.github.googlei18n.ufo2ft.useProductionNames"] = rng.random() < 0.5
    withcp = [g for g in gl if g.get("unicodes")]
    if withcp and rng.random() < 0.15:
        g0 = withcp[0]
        fd["lib"]["public.unicodeVariationSequences"] = {"FE00": {"%04X" % g0["unicodes"][0]: rng.choice(names)}}
    if rng.random() < 0.08:
        fd["lib"]["com.github.googlei18n.ufo2ft.colorPalettes"] = [[[1.0, 0.0, 0.0, 1.0], [0.0, 0.0, 1.0, 1.0]]]
        fd["lib"]["com.github.googlei18n.ufo2ft.colorLayers"] = {names[0]: [[n, i % 2] for i, n in enumerate(names[1:3])]}
    info = {}
    if rng.random() < 0.5:
        info["openTypeNameRecords"] = [{"nameID": 19, "platformID": 3, "encodingID": 1, "languageID": 1033, "string": "sample"}]
        info["openTypeOS2Panose"] = [2, 0, 5, 3, 0, 0, 0, 0, 0, 0]
        info["postscriptBlueValues"] = [-10, 0, 500, 510]
        info["openTypeGaspRangeRecords"] = [{"rangeMaxPPEM": 65535, "rangeGaspBehavior": [0, 1]}]
        info["openTypeOS2Selection"] = [7]
        info["openTypeOS2UnicodeRanges"] = [0, 1]
        info["openTypeHeadFlags"] = [0, 1]
        info["openTypeOS2Type"] = []
    fd["info"] = info
    if rng.random() < 0.3:
        fd["glyphOrder"] = rng.sample(names, len(names))
    # an ordinary extra layer
    fd["layers"] = {}
    if rng.random() < 0.5:
        sub = rng.sample(gl, rng.randrange(1, len(gl) + 1))
        fd["layers"]["background"] = [dict(copy.deepcopy(g), components=[c for c in g["components"] if c[0] in {s["name"] for s in sub}])
                                      for g in sub]
    fd["layerlibs"] = {"public.default": {"c07.layer.nested": {"q": [1]}}} if rng.random() < 0.5 else {}
    return fd


def _color_extra(rng, fd, mode):
    """colour layers color1/color2 + mapping; returns the 'color' extra"""
    gl = fd["glyphs"]
    names = [g["name"] for g in gl]
    lay = {}
    for ln in rng.sample(["color1", "color2"], rng.choice([1, 2, 2])):
        sub = rng.sample(gl, rng.randrange(1, len(gl) + 1))
        subn = {s["name"] for s in sub}
        out = []
        for g in sub:
            g2 = copy.deepcopy(g)
            r = rng.random()
            # components: usually inside the layer, rarely pointing outside it (KeyError path)
            g2["components"] = [c for c in g2["components"] if c[0] in subn or rng.random() < 0.08]
            if not g2["components"] and not g2["contours"]:
                g2["contours"] = [[[0, 0, "line"], [50, 0, "line"], [25, 40, "line"]]]
            if r < 0.5:
                g2["unicodes"] = []
            if rng.random() < 0.15:
                g2 = copy.deepcopy(g)           # identical to the default-layer glyph (the `==` branch)
            out.append(g2)
        lay[ln] = out
    fd["layers"].update(lay)
    lnames = list(lay)
    cm = lambda: [[ln, rng.randrange(2)] for ln in rng.sample(lnames, rng.randrange(1, len(lnames) + 1))]
    ex = {"palettes": rng.random() < 0.92, "global": cm() if rng.random() < 0.6 else None, "perGlyph": {},
          "colorLayersKey": rng.random() < 0.08}
    for n in names:
        if rng.random() < (0.3 if ex["global"] else 0.6):
            ex["perGlyph"][n] = cm()
    if rng.random() < 0.12:        # a mapping naming the default layer / a missing layer
        tgt = ex["global"] if ex["global"] is not None else (ex["perGlyph"].setdefault(names[0], []))
        tgt.append([rng.choice(["public.default", "public.default", "nolayer"]), 0])
    if rng.random() < 0.06:        # name clash:  <glyph>.<layer> already exists
        g0 = copy.deepcopy(gl[0]); g0["name"] = gl[0]["name"] + "." + lnames[0]; g0["unicodes"] = []; g0["components"] = []
        if not g0["contours"]:
            g0["contours"] = [[[0, 0, "line"], [50, 0, "line"], [25, 40, "line"]]]
        gl.append(g0)
    return ex


def _extras(rng, fd, mode, names):
    ex = {"math": None, "color": None, "dc": None, "cats": False, "gdef": False, "libfilters": [], "skipLib": None, "curve": None}
    r = rng.random()
    if r < 0.16:
        ex["math"] = {"constants": rng.random() < 0.93, "mco": rng.random() < 0.75, "ext": rng.random() < 0.4}
    elif r < 0.34 and fd is not None:
        ex["color"] = _color_extra(rng, fd, mode)
    elif r < 0.46:
        ex["dc"] = {"via": rng.choice(["lib", "arg"]), "pre": rng.random() < 0.8, "glyph": rng.random() < 0.3}
        ex["cats"] = rng.random() < 0.55
        ex["gdef"] = rng.random() < 0.3
    if rng.random() < 0.05:
        ex["cats"] = True
    if rng.random() < 0.04 and not ex["math"]:
        ex["math"] = {"constants": True, "mco": True, "ext": False}
    free = _free(names, fd)
    for _ in range(rng.choice([0, 0, 0, 1, 1, 2, 3])):
        ex["libfilters"].append(_filter_dict(rng, free, "lib", bool(fd and fd.get("qcurve")), fd))
    if rng.random() < 0.2 and free:
        ex["skipLib"] = _skip_choice(rng, names, fd)
    if rng.random() < 0.06:
        ex["curve"] = rng.choice([["font", "quadratic"], ["layer", "quadratic"], ["font", "cubic"], ["layer", "cubic"]])
    return ex


def _kw(rng, fn, names, layers, mode, fd=None):
    kw = {}
    ttf = "TTF" in fn
    qc = bool(fd and fd.get("qcurve"))
    names = _free(names, fd)
    if rng.random() < 0.09:
        kw["inplace"] = True
    if rng.random() < 0.3 and fn in SINGLE_FNS and not qc:
        kw["removeOverlaps"] = True
        if rng.random() < 0.3:
            kw["overlapsBackend"] = "pathops"
    if ttf and rng.random() < 0.3:
        kw["flattenComponents"] = True
    if ttf and rng.random() < 0.25:
        kw["convertCubics"] = False
        kw["allQuadratic"] = False
        if rng.random() < 0.3:
            kw["reverseDirection"] = False
    if ttf and fn == "compileTTF" and rng.random() < 0.2:
        kw["rememberCurveType"] = False
    if ttf and rng.random() < 0.1:
        kw["allQuadratic"] = False
    if rng.random() < 0.2 and names:
        kw["skipExportGlyphs"] = _skip_choice(rng, names, fd) if rng.random() < 0.85 else []
    if rng.random() < 0.1:
        kw["skipFeatureCompilation"] = True
    if rng.random() < 0.15:
        kw["useProductionNames"] = rng.random() < 0.5
    if rng.random() < 0.12:
        kw["featureWriters"] = rng.choice(["none", "all", "kern-append"])
    if fn == "compileOTF":
        kw["optimizeCFF"] = 0 if rng.random() < 0.8 else rng.choice([1, 2])
        if rng.random() < 0.15:
            kw["cffVersion"] = 2
            kw["optimizeCFF"] = 0
    if fn in SINGLE_FNS and layers and rng.random() < 0.12:
        kw["layerName"] = rng.choice(layers)
    if "Variable" in fn and rng.random() < 0.35:
        kw["variableFeatures"] = False
    r = rng.random()
    if r < 0.35:
        fl = [_filter_dict(rng, names, "arg", qc, fd) for _ in range(rng.choice([0, 1, 1, 2]))]
        if rng.random() < 0.5:
            fl.insert(rng.randrange(len(fl) + 1), "...")
        kw["filters"] = fl
    return kw


def gen(rng, n, mode):
    # fixed head: the fixtures that carry the data of the expected findings, every compile function once
    for fx, fn in (("TestMathFont-Regular.ufo", "compileTTF"), ("ColorTest.ufo", "compileOTF"), ("ColorTest.ufo", "compileTTF"),
                   ("DottedCircleTest.ufo", "compileTTF")):
        ex = {"math": None, "color": None, "dc": None, "cats": False, "gdef": False, "libfilters": [], "skipLib": None, "curve": None}
        if fx.startswith("Dotted"):
            ex["dc"] = {"via": "arg", "pre": True, "glyph": False}; ex["cats"] = True
        yield {"kind": "single", "base": {"fixture": fx}, "ufolib": "ufoLib2", "extras": ex, "fn": fn, "kw": {}, "calls": 2}
    # the PropagateAnchorsIFilter / Instantiator shape: a mixed glyph used as a component, designspace entry points
    tri = [[0, 0, "line"], [100, 0, "line"], [50, 100, "line"]]
    pfd = {"upm": 1000, "info": {}, "lib": {}, "features": "", "layers": {}, "glyphs": [
        {"name": "B", "width": 500, "unicodes": [66], "contours": [tri], "components": [], "anchors": [["top", 50, 120]]},
        {"name": "one", "width": 500, "unicodes": [49], "contours": [[[0, 200, "line"], [100, 200, "line"], [50, 300, "line"]]],
         "components": [["B", [1, 0, 0, 1, 10, 0]]], "anchors": []},
        {"name": "period", "width": 500, "unicodes": [46], "contours": [], "components": [["one", [1, 0, 0, 1, 20, 0]]], "anchors": []}]}
    noex = {"math": None, "color": None, "dc": None, "cats": False, "gdef": False, "libfilters": [], "skipLib": None, "curve": None}
    for fn, via in (("compileInterpolatableOTFsFromDS", "lib"), ("compileVariableTTF", "arg"), ("compileInterpolatableTTFs", "lib")):
        ex = dict(noex, libfilters=[{"name": "propagateAnchors", "pre": True}] if via == "lib" else [])
        kw = {"filters": [{"name": "propagateAnchors", "pre": True}], "variableFeatures": False} if via == "arg" else {}
        yield {"kind": "list" if fn == "compileInterpolatableTTFs" else "ds", "base": {"fd": pfd}, "ufolib": "ufoLib2", "extras": ex,
               "fn": fn, "kw": kw, "calls": 2,
               "ds": {"nm": 2, "sparse": False, "named": "all", "rules": False, "dsSkip": None, "instances": False, "exOn": "all", "vf": None}}
    for i in range(n):
        r = rng.random()
        ufolib = rng.choice(["ufoLib2", "ufoLib2", "defcon"])
        calls = 2 if rng.random() < 0.5 else 1
        if r < 0.5:
            fn = rng.choice(SINGLE_FNS)
            if rng.random() < 0.2:
                fx = rng.choice(FIX_UFOS)
                base, fd, names = {"fixture": fx}, None, []
                layers = []
            else:
                fd = rich_fd(rng, mode)
                base, names = {"fd": fd}, [g["name"] for g in fd["glyphs"]]
            ex = _extras(rng, fd, mode, names)
            layers = list(fd["layers"]) if fd else []
            yield {"kind": "single", "base": base, "ufolib": ufolib, "extras": ex, "fn": fn,
                   "kw": _kw(rng, fn, names, layers, mode, fd), "calls": calls}
        else:
            fn = "compileInterpolatableTTFs" if r < 0.6 else rng.choice(DS_FNS)
            if fn != "compileInterpolatableTTFs" and rng.random() < 0.12:
                fx = rng.choice(FIX_DS)
                yield {"kind": "ds", "base": {"fixture": fx}, "ufolib": ufolib, "extras": _extras(rng, None, mode, []),
                       "fn": fn if not (fx == "TestVarFont.designspace" and fn in ("compileVariableTTF", "compileVariableCFF2")) else fn + "s",
                       "kw": _kw(rng, fn, [], [], mode), "calls": 1 if False else calls, "ds": {}}
                continue
            fd = rich_fd(rng, mode)
            names = [g["name"] for g in fd["glyphs"]]
            ex = _extras(rng, fd, mode, names)
            dsc = {"nm": rng.choice([2, 2, 3]), "sparse": rng.random() < 0.3,
                   "named": rng.choice(["all", "all", "none", "some", "dup"]), "rules": rng.random() < 0.2,
                   "dsSkip": _skip_choice(rng, names, fd) if rng.random() < 0.25 else None,
                   "vf": rng.choice([None, None, {"n": 1, "info": True}, {"n": 2, "info": True}, {"n": 1, "info": False}]), "instances": rng.random() < 0.4,
                   "exOn": rng.choice(["all", "all", "first", "last"])}
            kw = _kw(rng, fn, names, [], mode, fd)
            if ex["skipLib"] is not None and rng.random() < 0.5:
                # masters whose own skip lists differ: every later master lists one more name than the one before it
                dsc["skipVary"] = True
                dsc["exOn"] = "all"
                kw.pop("skipExportGlyphs", None)
            if rng.random() < 0.08:
                ex["libfilters"].insert(0, {"name": "propagateAnchors", "pre": True})
                dsc["exOn"] = "all"
            if kw.get("inplace") and fn != "compileInterpolatableTTFs":
                calls = 1          # the document then holds TTFonts: a second call is meaningless
            yield {"kind": "list" if fn == "compileInterpolatableTTFs" else "ds", "base": {"fd": fd}, "ufolib": ufolib,
                   "extras": ex, "fn": fn, "kw": kw, "calls": calls, "ds": dsc}


# ------------------------------------------------------------------------------------------------ building sources

def _load_fixture(name, ufolib):
    if ufolib == "ufoLib2":
        import ufoLib2
        f = ufoLib2.Font.open(DATA + name)
        f.unlazify()
        return f
    import defcon
    f = defcon.Font(DATA + name)
    for layer in f.layers:          # load everything into memory
        for g in layer:
            len(g); g.lib; g.anchors
    f.lib; f.kerning; f.groups; f.features.text; f.info.familyName
    return f


def _apply_extras(font, ex, first=True):
    lib = font.lib
    names = [g.name for g in L.glyphs_of(font.layers.defaultLayer)]
    if ex["math"]:
        m = ex["math"]
        if m["constants"]:
            c = dict(MATH_CONSTS)
            if m["mco"]:
                c["MinConnectorOverlap"] = 40
            if L.MATH_CONSTANTS in lib and isinstance(lib[L.MATH_CONSTANTS], dict):
                if not m["mco"]:
                    lib[L.MATH_CONSTANTS].pop("MinConnectorOverlap", None)
            else:
                lib[L.MATH_CONSTANTS] = c
        elif L.MATH_CONSTANTS in lib:
            del lib[L.MATH_CONSTANTS]
        if m["ext"] or not m["constants"]:
            lib[L.MATH_PREFIX + "extendedShapes"] = names[:1]
        if m["ext"] and len(names) >= 2:
            font.layers.defaultLayer[names[0]].lib[L.MATH_PREFIX + "variants"] = {
                "vVariants": [names[0], names[1]], "hVariants": [names[1]],
                "vAssembly": [[names[1], 0, 0, 100], [names[0], 1, 100, 0]]}
    if ex["color"]:
        c = ex["color"]
        if c["palettes"]:
            lib[L.COLOR_PALETTES] = [[[1.0, 0.0, 0.0, 1.0], [0.0, 0.0, 1.0, 1.0]]]
        if c["global"] is not None:
            lib[L.COLOR_MAPPING] = [list(x) for x in c["global"]]
        for gn, cm in c["perGlyph"].items():
            if gn in font.layers.defaultLayer:
                font.layers.defaultLayer[gn].lib[L.COLOR_MAPPING] = [list(x) for x in cm]
        if c["colorLayersKey"]:
            lib[L.COLOR_LAYERS] = {}
    if ex["dc"]:
        d = ex["dc"]
        if d["glyph"] and not any(0x25CC in g.unicodes for g in font.layers.defaultLayer) and "uni25CC" not in font:
            g = font.newGlyph("uni25CC")
            g.unicodes = [0x25CC]; g.width = 600
            pen = g.getPointPen()
            pen.beginPath()
            for x, y in ((100, 100), (500, 100), (300, 400)):
                pen.addPoint((x, y), segmentType="line")
            pen.endPath()
            if d["pre"] is False:
                g.appendAnchor({"name": "top", "x": 300, "y": 450})
        if d["via"] == "lib":
            lib.setdefault(L.FILTERS_KEY, []).append({"name": "dottedCircle", "pre": d["pre"]})
    if ex["cats"]:
        lib[L.CATS_KEY] = {n: "base" for n in names[:2]}
    if ex["gdef"]:
        bases = [g.name for g in L.glyphs_of(font.layers.defaultLayer) if not any(a.name.startswith("_") for a in g.anchors)][:3]
        if bases:
            font.features.text = (font.features.text or "") + "\ntable GDEF {\n  GlyphClassDef [%s], , , ;\n} GDEF;\n" % " ".join(bases)
    for fdict in ex["libfilters"]:
        lib.setdefault(L.FILTERS_KEY, []).append(copy.deepcopy(fdict))
    if ex["skipLib"] is not None:
        lib["public.skipExportGlyphs"] = list(ex["skipLib"])
    if ex["curve"]:
        where, val = ex["curve"]
        (lib if where == "font" else font.layers.defaultLayer.lib)[L.CURVE_KEY] = val


def _shift(fd, k):
    fd = copy.deepcopy(fd)
    if k == 0:
        return fd
    def sh(gs):
        for g in gs:
            g["width"] = g.get("width", 0) + (20 * k if g.get("width", 0) else 0)
            for c in g.get("contours", []):
                for p in c:
                    p[0] += 10 * k
            for a in g.get("anchors", []):
                a[1] += 5 * k
    sh(fd["glyphs"])
    for gs in fd.get("layers", {}).values():
        sh(gs)
    fd["kerning"] = [[a, b, v - 5 * k] for a, b, v in fd.get("kerning", [])]
    return fd


def _build_font(fd, ufolib, style):
    font = build(dict(fd, info={}), ufolib)
    for k, v in fd.get("info", {}).items():
        try:
            setattr(font.info, k, copy.deepcopy(v))
        except Exception:
            pass
    font.info.familyName = "C07 Test"
    font.info.styleName = style
    font.info.ascender, font.info.descender, font.info.xHeight, font.info.capHeight = 800, -200, 500, 700
    for ln, ll in fd.get("layerlibs", {}).items():
        layer = font.layers.defaultLayer if ln == "public.default" else font.layers[ln]
        for k, v in ll.items():
            layer.lib[k] = copy.deepcopy(v)
    for g in fd["glyphs"]:
        if g.get("lib"):
            for k, v in g["lib"].items():
                font[g["name"]].lib[k] = copy.deepcopy(v)
    return font


def _sources(case):
    """-> (fonts [unique objects], sources [(font index, layerName)], doc|None)"""
    kind, ex, ufolib = case["kind"], case["extras"], case["ufolib"]
    if kind == "single":
        b = case["base"]
        font = _load_fixture(b["fixture"], ufolib) if "fixture" in b else _build_font(b["fd"], ufolib, "Regular")
        _apply_extras(font, ex)
        return [font], [(0, case["kw"].get("layerName"))], None
    from fontTools.designspaceLib import AxisDescriptor, DesignSpaceDocument, InstanceDescriptor, RuleDescriptor, SourceDescriptor
    if "fixture" in case["base"]:
        doc = DesignSpaceDocument.fromfile(DATA + case["base"]["fixture"])
        cache, fonts = {}, []
        for s in doc.sources:
            if s.path not in cache:
                cache[s.path] = _load_fixture(os.path.relpath(s.path, DATA), ufolib)
                fonts.append(cache[s.path])
                _apply_extras(cache[s.path], ex)
            s.font = cache[s.path]
        srcs = [(next(i for i, f in enumerate(fonts) if f is s.font), s.layerName) for s in doc.sources]
        return fonts, srcs, doc
    dsc = case["ds"]
    fd = case["base"]["fd"]
    nm = dsc["nm"]
    fonts = []
    for k in range(nm):
        fdk = _shift(fd, k)
        if k == 0 and dsc["sparse"]:
            sub = [copy.deepcopy(g) for g in _shift(fd, 1)["glyphs"] if not g["components"]][:3]
            for g in sub:
                g["unicodes"] = []
            if sub:
                fdk.setdefault("layers", {})["support"] = sub
        f = _build_font(fdk, case["ufolib"], "Master%d" % k)
        on = dsc["exOn"]
        if on == "all" or (on == "first" and k == 0) or (on == "last" and k == nm - 1):
            _apply_extras(f, ex)
        if dsc.get("skipVary") and k > 0 and "public.skipExportGlyphs" in f.lib:
            have = list(f.lib["public.skipExportGlyphs"])
            more = [g.name for g in L.glyphs_of(f.layers.defaultLayer) if g.name not in have and g.name != ".notdef"][:k]
            f.lib["public.skipExportGlyphs"] = have + more
        fonts.append(f)
    locs = [0, 1000] if nm == 2 else [0, 1000, 500]
    srcs = [(k, None) for k in range(nm)]
    has_sparse = dsc["sparse"] and "support" in [l.name for l in fonts[0].layers]
    if has_sparse:
        srcs.append((0, "support"))
        locs.append(250)
    if kind == "list":
        return fonts, srcs, None
    doc = DesignSpaceDocument()
    ax = AxisDescriptor(); ax.name = "Weight"; ax.tag = "wght"; ax.minimum, ax.default, ax.maximum = 0, 0, 1000
    doc.addAxis(ax)
    for j, ((fi, ln), loc) in enumerate(zip(srcs, locs)):
        s = SourceDescriptor()
        s.font = fonts[fi]; s.layerName = ln; s.location = {"Weight": loc}
        s.familyName = "C07 Test"; s.styleName = "S%d" % j
        named = dsc["named"]
        if named == "all" or (named == "some" and j == 0):
            s.name = "src%d" % j
        elif named == "dup":
            s.name = "same"
        doc.addSource(s)
    if dsc["instances"]:
        inst = InstanceDescriptor(); inst.familyName = "C07 Test"; inst.styleName = "Medium"; inst.location = {"Weight": 500}
        inst.name = "inst0"
        doc.addInstance(inst)
    names = [g["name"] for g in fd["glyphs"]]
    if dsc["rules"] and len(names) >= 2:
        r = RuleDescriptor(); r.name = "r0"; r.conditionSets = [[{"name": "Weight", "minimum": 600, "maximum": 1000}]]
        r.subs = [(names[0], names[1])]
        doc.addRule(r)
    if dsc["dsSkip"] is not None:
        doc.lib["public.skipExportGlyphs"] = list(dsc["dsSkip"])
    doc.lib["c07.ds.nested"] = {"a": [1, {"b": 2}]}
    vf = dsc.get("vf")
    if vf and "Variable" in case["fn"]:
        from fontTools.designspaceLib import RangeAxisSubsetDescriptor, VariableFontDescriptor
        n = vf["n"] if case["fn"].endswith("s") else 1
        for j in range(n):
            v = VariableFontDescriptor(name="C07VF%d" % j, axisSubsets=[RangeAxisSubsetDescriptor(name="Weight")])
            if vf["info"] and j == 0:
                v.lib["public.fontInfo"] = {"familyName": "C07 Display VF", "versionMajor": 7, "versionMinor": 5,
                                            "openTypeOS2TypoAscender": 950}
            doc.addVariableFont(v)
        doc.formatVersion = "5.0"
    return fonts, srcs, doc


def _make_filter(fdict):
    from ufo2ft.filters import getFilterClass
    cls = getFilterClass(fdict["name"], fdict.get("namespace", "ufo2ft.filters"))
    return cls(*fdict.get("args", []), include=fdict.get("include"), exclude=fdict.get("exclude"),
               pre=fdict.get("pre", False), **fdict.get("kwargs", {}))


# ------------------------------------------------------------------------------------------------ running

def _cfg(case, fonts, srcs, doc, kw):
    fn = case["fn"]
    cfg = {"fn": fn, "inplace": bool(kw.get("inplace", False)), "removeOverlaps": bool(kw.get("removeOverlaps", False)),
           "flattenComponents": bool(kw.get("flattenComponents", False)), "convertCubics": kw.get("convertCubics", True),
           "reverseDirection": kw.get("reverseDirection", True), "rememberCurveType": kw.get("rememberCurveType", True),
           "skipFeatures": bool(kw.get("skipFeatureCompilation", False)),
           "skipArg": kw.get("skipExportGlyphs"), "sources": [{"font": f, "layer": l} for f, l in srcs],
           "variableFeatures": kw.get("variableFeatures", True)}
    fa = kw.get("filters")
    dc = case["extras"]["dc"]
    if dc and dc["via"] == "arg":
        fa = list(fa) if fa is not None else ["..."]
        fa = fa + [{"name": "dottedCircle", "pre": dc["pre"]}]
    if fa is not None:
        cfg["filtersArg"] = [None if f == "..." else L.spec_of(f) for f in fa]
    if doc is not None:
        cfg["dsSkip"] = list(doc.lib.get("public.skipExportGlyphs", []))
        seen, named = set(), []
        for s in doc.sources:
            ok = s.name is not None and s.name not in seen
            named.append(ok)
            seen.add(s.name if ok else None)
        cfg["dsNamed"] = named
    return cfg, fa


def _tags(case, cfg, fonts_d, kw):
    t = ["fn:" + case["fn"], case["ufolib"], "inplace" if cfg["inplace"] else "copy", "sources:%d" % len(cfg["sources"]),
         "base:" + ("fixture" if "fixture" in case["base"] else "generated")]
    for k in ("removeOverlaps", "flattenComponents", "skipFeatures"):
        if cfg[k]:
            t.append("opt:" + k)
    for k in ("convertCubics", "reverseDirection", "rememberCurveType", "variableFeatures"):
        if not cfg[k]:
            t.append("opt:no-" + k)
    if any(l is not None for _, l in [(s["font"], s["layer"]) for s in cfg["sources"]]):
        t.append("opt:layerName")
    if cfg.get("skipArg"):
        t.append("skip:arg")
    if cfg.get("dsSkip"):
        t.append("skip:dslib")
    if any(fd["lib"]["skipExport"] for fd in fonts_d):
        t.append("skip:lib")
    for f in cfg.get("filtersArg") or []:
        t.append("filter-arg:" + ("..." if f is None else f["kind"] + ("/pre" if f["pre"] else "/post")))
    for fd in fonts_d[:1]:
        for f in fd["lib"]["filters"]:
            t.append("filter-lib:" + f["kind"] + ("/pre" if f["pre"] else "/post"))
    ex = case["extras"]
    for k in ("math", "color", "dc"):
        if ex[k]:
            t.append("data:" + k)
    return t


def run(case):
    import logging
    logging.disable(logging.CRITICAL)       # ufo2ft/fontTools log warnings about the generated fonts; not observations
    import ufo2ft
    fonts, srcs, doc = _sources(case)
    kw = dict(case["kw"])
    out = []
    for callno in range(case["calls"]):
        inplace = bool(kw.get("inplace", False))
        want_w = True
        fonts_d = []
        for i, f in enumerate(fonts):
            fonts_d.append(L.describe(f, inplace=inplace, want_width=want_w))
        cfg, fa = _cfg(case, fonts, srcs, doc, kw)
        call_kw = {k: v for k, v in kw.items() if k not in ("filters", "featureWriters")}
        if "featureWriters" in kw:
            from ufo2ft.featureWriters import CursFeatureWriter, GdefFeatureWriter, KernFeatureWriter, MarkFeatureWriter
            call_kw["featureWriters"] = {"none": [], "all": [KernFeatureWriter, MarkFeatureWriter, GdefFeatureWriter, CursFeatureWriter],
                                         "kern-append": [KernFeatureWriter(mode="append"), MarkFeatureWriter(mode="append")]}[kw["featureWriters"]]
        if fa is not None:
            call_kw["filters"] = [... if f == "..." else _make_filter(f) for f in fa]
        before = L.snapshot(fonts, doc)
        memo0 = L.ds_default_memo(doc) if doc is not None else None
        err, errmsg = None, None
        try:
            fn = getattr(ufo2ft, case["fn"])
            if case["kind"] == "single":
                fn(fonts[0], **call_kw)
            elif case["kind"] == "list":
                call_kw.pop("layerName", None)
                list(fn([fonts[fi] for fi, _ in srcs], layerNames=[l for _, l in srcs], **call_kw))
            else:
                call_kw.pop("layerName", None)
                fn(doc, **call_kw)
        except Exception as e:
            err = err_kind(e)
            errmsg = (type(e).__name__ + ": " + str(e))[:160]
        after = L.snapshot(fonts, doc)
        changed, details = L.diff(before, after)
        obs = {"changed": changed, "err": err, "errmsg": errmsg, "details": {k: v[:4] for k, v in list(details.items())[:12]}}
        if doc is not None:
            obs["defaultMemoFilled"] = memo0 != L.ds_default_memo(doc)
        reaching = any(fd["lib"]["mathPrefix"] or fd["lib"]["palettes"] for fd in fonts_d) or bool(case["extras"]["dc"])
        nontriv = bool(cfg.get("filtersArg")) or any(fd["lib"]["filters"] for fd in fonts_d) or len(srcs) > 1 or inplace \
            or reaching or bool(cfg.get("skipArg")) or bool(cfg.get("dsSkip")) or any(fd["lib"]["skipExport"] for fd in fonts_d)
        tags = _tags(case, cfg, fonts_d, kw) + ["call:%d" % (callno + 1), "err:" + str(err), "changed" if changed else "unchanged"]
        tags += sorted({"chg:" + c[0] + (":" + c[-1] if c[0] == "glyph" else "") for c in changed})
        out.append({"op": "call", "in": {"cfg": cfg, "fonts": fonts_d}, "obs": obs, "tags": tags, "nontrivial": nontriv})
    return out


def _canon(c):
    return json.dumps(c, separators=(",", ":"))


def agree(req, rep):
    """Spec.consistent, evaluated by the Lean driver: every certain predicted write is observed (unless the call
    raised) and every observed change is predicted (exactly, or through a wildcard lib slot)"""
    return bool(rep["model"]["consistent"])


KNOWN_STAGES = ("setupTable_MATH", "ExplodeColorLayerGlyphsFilter", "DottedCircleFilter", "PropagateAnchorsIFilter")


def _propagate_shape(res):
    """the leak repaired by /repo 61a81a2, recognised from the observation alone (the model no longer predicts it):
    a designspace entry point without inplace, propagateAnchors among the filters, and nothing changed but
    `anchors` of source glyphs"""
    q = res["req"]
    cfg, ch = q["in"]["cfg"], q["obs"]["changed"]
    if cfg.get("inplace") or cfg["fn"] in ("compileTTF", "compileOTF", "compileInterpolatableTTFs") or not ch:
        return False
    if not all(c[0] == "glyph" and c[-1] == "anchors" for c in ch):
        return False
    specs = [f for f in (cfg.get("filtersArg") or []) if f] + [f for fd in q["in"]["fonts"] for f in fd["lib"]["filters"]]
    return any(f["kind"] == "PropagateAnchorsFilter" for f in specs)


def classify_failure(res):
    """A failing observation is a known finding only if the model predicts it (consistent) and blames every
    changed cell on reaching stages; the shape is that set of stages.  The repaired PropagateAnchorsIFilter leak is
    named too (known_findings lists it as `fixed`, which suppresses nothing: its return is a VIOLATION)."""
    if res["holds"]:
        return None
    if not res["agree"]:
        return {"leak": ["PropagateAnchorsIFilter"]} if _propagate_shape(res) else None
    stages = res["model"].get("blame")
    if not stages or any(s not in KNOWN_STAGES for s in stages):
        return None
    return {"leak": sorted(stages)}


def shrink(case):
    c = copy.deepcopy(case)
    if c["calls"] > 1:
        c2 = copy.deepcopy(c); c2["calls"] = 1
        yield c2
    for k in list(c["kw"]):
        c2 = copy.deepcopy(c); del c2["kw"][k]
        yield c2
    ex = c["extras"]
    for k in ("math", "color", "dc"):
        if ex[k]:
            c2 = copy.deepcopy(c); c2["extras"][k] = None
            yield c2
    for i in range(len(ex["libfilters"])):
        c2 = copy.deepcopy(c); del c2["extras"]["libfilters"][i]
        yield c2
    if "fd" in c["base"]:
        gl = c["base"]["fd"]["glyphs"]
        for i in range(len(gl)):
            used = any(comp[0] == gl[i]["name"] for g in gl for comp in g["components"])
            if not used and len(gl) > 1:
                c2 = copy.deepcopy(c); del c2["base"]["fd"]["glyphs"][i]
                yield c2


LEVEL_TEXT = ("Proved for all inputs (Lean): over an explicit object store with caller-owned and fresh objects, a pipeline of any "
              "length — and any prefix of it (exceptions), repeated any number of times (histories) — whose stages write only through "
              "handles that designate objects made during the call leaves every caller-owned cell unchanged (frame theorem by "
              "induction over the stage list); for all nine entry points, any number of sources and any combination of options and "
              "shipped/custom filters, a configuration without inplace and without MATH data, colour-layer trigger or dotted-circle "
              "filter has such a pipeline (signature table), so its predicted leak set is empty; for every configuration without "
              "inplace each predicted leak is attributed to setupTable_MATH, ExplodeColorLayerGlyphsFilter or DottedCircleFilter; "
              "for those three the property is proved FALSE on concrete witnesses (the model follows the code as it is). The fourth "
              "leak found by this check (PropagateAnchorsIFilter reaching the sources through the Instantiator) was repaired in /repo "
              "61a81a2: proved false for the separately kept OLD pipeline, proved to hold for the current one on the same witness. Tied to the code by deep before/after snapshots "
              "of all source fonts and the designspace document around every public compile function, compared with the model's "
              "predicted leak set.")
LEVEL_NOTE = ("Partial: the effect signatures are data validated by observation (snapshots), not derived from the Python source; "
              "value-dependent writes are modelled as `may`. Trusted: Lean kernel + standard axioms; the snapshot/diff code and the "
              "description extraction in harness/lib_C07.py; generators.")
