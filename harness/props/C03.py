"""C03 - glyph order and character map follow the source exactly."""
import io
import itertools

from ufo import build, err_kind

ID = "C03"
THEOREM = "Ufo2ft.C03.C03_order / C03_notdef_first / C03_empty_order / C03_cmap / C03_cmap_every / C03_dup / C03_uvs"
N = {"quick": 400, "thorough": 6000}
RULE = ("function level: ALL name sets over {.notdef,a,b,c,B} x ALL glyphOrder lists of length<=3 (quick) / <=4 (thorough) "
        "over those names+{zzz}, and ALL name sets over {.notdef,-,.alt,.n,.notdef.x,a} (names sorting before / right after the string "
        "'.notdef') x ALL orders of length<=2 (the empty order included), against util.makeOfficialGlyphOrder (exhaustive small scope); "
        "every 5th random case is a 'lowNames' font: 1-3 glyph names that compare lower than '.notdef' ('-', '+x', '$', '.alt', '.001', "
        "'.case', '.n', '.notde', ...) and neighbours ('.notdef.alt', '.notdeg', '.null') among ordinary names, '.notdef' in the source or "
        "synthesised, the effective order EMPTY in ~70% (no public.glyphOrder [ufoLib2] / an empty stored one / explicit glyphOrder=[] "
        "with or without a non-empty stored order it overrides) and a short list otherwise, TTF and OTF, saved and reloaded; end-to-end: random fonts "
        "(glyph names, public.glyphOrder or glyphOrder= argument with duplicates/unknown names/.notdef anywhere, BMP and "
        "supplementary code points, several per glyph, duplicate code points, variation sequences) through compileTTF and "
        "compileOTF, saved and reloaded; LOW-END code points: in ~30% of the random fonts (~20% of the lowNames fonts) one glyph gets U+0000 - as its FIRST code point (glyph.unicode == 0, falsy in Python; alone or followed by 1-2 secondary code points from U+0001/U+0008/U+000D/U+001D/U+0020/U+0041/U+1F600) in 3/4 of these, as a SECONDARY code point otherwise - a secondary code point may clash with one another glyph declares (must be rejected), and in 40% another glyph gets a low non-zero first code point (CR = U+000D, ...), tags U+0000-first / U+0000-first+secondary / U+0000-secondary; "
        "histories: 3-4 fonts over one family's glyph names compiled one after another (compileTTF / compileOTF / alternating) or as the masters of one compileInterpolatableTTFs call with ONE shared explicit glyphOrder list object - each font's order must be the specified order for the ORIGINAL list. non-trivial = glyphOrder has a duplicate or unknown name or omits a glyph, or some "
        "code point > 0xFFFF, or a duplicate code point, or a variation sequence.")
EXHAUSTIVE = False
ASSUMED = ["cmap subtable binary encoding/decoding (fontTools) is an identity on the mapping"]

# names that compare LOWER than the string ".notdef" (first char < '.', or '.' + something < "notdef") and two that share its
# prefix: legal UFO glyph names for which "'.notdef' first" and "plain sorted()" differ
LOW = ["-", "+x", "$", ".alt", ".001", ".case", ".n", ".notde", "-.notdef", "(c)"]
NEAR = [".notdef.alt", ".notdeg", ".null", ".o"]
POOL = [".notdef", "a", "b", "c", "B", "space", "a.alt", "f_i", "uni0041", "Zed", "z", "_x", "A", "ab", "b.sc", "zero", "one"]


def gen(rng, n, mode):
    # exhaustive small-scope function-level cases
    names5 = [".notdef", "a", "b", "c", "B"]
    maxlen = 3 if n <= 1000 else 4
    alpha = names5 + ["zzz"]
    subsets = [[x for i, x in enumerate(names5) if m >> i & 1] for m in range(32)]
    orders = [list(t) for k in range(maxlen + 1) for t in itertools.product(alpha, repeat=k)]
    # pack many function-level cases in one case to keep process overhead low
    chunk = []
    for s in subsets:
        for o in orders:
            chunk.append([s, o])
            if len(chunk) == 500:
                yield {"kind": "official", "items": chunk}; chunk = []
    if chunk:
        yield {"kind": "official", "items": chunk}; chunk = []
    # second small scope: name sets whose members sort BEFORE / right after ".notdef", with no / short orders
    low5 = [".notdef", "-", ".alt", ".n", ".notdef.x", "a"]
    subsets = [[x for i, x in enumerate(low5) if m >> i & 1] for m in range(64)]
    orders = [list(t) for k in range(3) for t in itertools.product(low5[:5] + ["zzz"], repeat=k)]
    for s in subsets:
        for o in orders:
            chunk.append([s, o])
            if len(chunk) == 500:
                yield {"kind": "official", "items": chunk}; chunk = []
    if chunk:
        yield {"kind": "official", "items": chunk}
    for i in range(n):
        if i % 5 == 2:
            yield _gen_low(rng, mode)
            continue
        k = rng.choice([1, 2, 3, 5, 8, 12])
        names = rng.sample(POOL, min(k, len(POOL)))
        if rng.random() < 0.3 and ".notdef" not in names:
            names[rng.randrange(len(names))] = ".notdef"
        names = list(dict.fromkeys(names))
        go = None
        r = rng.random()
        if r < 0.8:
            go = [rng.choice(names + ["zzz", ".notdef", "q"]) for _ in range(rng.randrange(0, len(names) + 3))]
            if rng.random() < 0.4:
                go = rng.sample(names, len(names))
        cps = {}
        used = []
        for nm in names:
            us = []
            # '.notdef' (glyph index 0) cannot be the target of a cmap entry in the binary format: not generated
            for _ in range(0 if nm == ".notdef" else rng.choice([0, 1, 1, 1, 2, 3])):
                if rng.random() < 0.25:
                    u = rng.choice([0x10000, 0x1F600, 0x1F601, 0x20000, 0x10FFFF])
                else:
                    u = rng.choice([0x20, 0x41, 0x42, 0x61, 0x62, 0xFFFF, 0xFFFE, 0x3042, 0x5D0, 0xE000])
                dupok = (mode == "search" and rng.random() < 0.2) or rng.random() < 0.04
                if u in used and not dupok:
                    continue
                us.append(u); used.append(u)
            cps[nm] = us
        _low_cps(rng, mode, names, cps, used, 0.3)
        uvs = []
        if used and rng.random() < 0.35:
            for vs in rng.sample([0xFE00, 0xFE0F, 0xE0100, 0xE0101], rng.choice([1, 2])):
                recs = {}
                for _ in range(rng.choice([1, 2, 3])):
                    u = rng.choice(used) if rng.random() < 0.95 else 0x7777
                    recs[u] = rng.choice(names)
                    if rng.random() < 0.5:
                        owners = [nm for nm in names if u in cps[nm]]
                        if owners:
                            recs[u] = owners[0]
                uvs.append([vs, sorted(recs.items())])
            uvs.sort()
        if i % 5 == 4:
            # history: several fonts (sub-sets of one family's glyphs) compiled one after another, or as the masters of one
            # interpolatable call, with ONE shared explicit glyphOrder list object
            fam = rng.sample(POOL, min(rng.choice([4, 6, 8]), len(POOL)))
            order = rng.sample(fam, len(fam))[: rng.randrange(2, len(fam) + 1)] + (["zzz"] if rng.random() < 0.3 else [])
            fonts = []
            for _ in range(rng.choice([2, 2, 3])):
                sub = [nm for nm in fam if rng.random() < 0.65] or fam[:1]
                fonts.append(sub)
            fonts.append(list(fam))
            yield {"kind": "history", "fonts": fonts, "glyphOrder": order, "lib": rng.choice(["ufoLib2", "defcon"]),
                   "how": rng.choice(["ttf-calls", "otf-calls", "interpolatable-ttf", "mixed-calls"])}
            continue
        yield {"kind": "font", "names": names, "glyphOrder": go, "cps": cps, "uvs": uvs,
               "arg": rng.random() < 0.4, "lib": rng.choice(["ufoLib2", "defcon"]), "fmt": rng.choice(["ttf", "otf"])}


# boundary code points at the LOW end: U+0000 is the only code point that is falsy as a Python int (the classic TrueType
# NULL glyph is mapped to it, with U+000D / U+0008 / U+001D as customary secondary code points); U+0001 is its neighbour
LOWCP = [0x0000, 0x0001, 0x0008, 0x000D, 0x001D]


def _low_cps(rng, mode, names, cps, used, p):
    """with probability p give one encoded-or-not glyph (never '.notdef') a code-point list that involves U+0000: U+0000 FIRST
    (so `glyph.unicode == 0`) alone or followed by 1-2 secondary code points (low ones, or ordinary ones), or U+0000 as a
    SECONDARY code point after a low/ordinary first one; a secondary code point may clash with one another glyph declares
    (must be rejected), and another glyph may get a low non-zero code point."""
    cand = [nm for nm in names if nm != ".notdef"]
    if not cand or 0 in used or rng.random() >= p:
        return
    nm = rng.choice(cand)
    for u in cps[nm]:
        used.remove(u)
    r = rng.random()
    sec = []
    for _ in range(rng.choice([0, 1, 1, 2])):
        u = rng.choice(LOWCP[1:] + [0x20, 0x41, 0x1F600])
        clash = u in used
        if u in sec or (clash and not (rng.random() < (0.5 if mode == "search" else 0.25))):
            continue
        sec.append(u)
    if r < 0.75:
        us = [0] + sec                              # U+0000 is the glyph's first code point
    elif sec:
        us = sec[:1] + [0] + sec[1:]                # U+0000 is a secondary code point
    else:
        us = [rng.choice([0x1, 0xD]), 0]
        us = [u for u in us if u not in used]
    cps[nm] = us
    used.extend(us)
    others = [x for x in cand if x != nm]
    if others and rng.random() < 0.4:              # a neighbour with a low, non-zero first code point (e.g. CR = U+000D)
        o = rng.choice(others)
        u = rng.choice(LOWCP[1:])
        if u not in used or rng.random() < 0.3:
            cps[o] = [u] + cps[o]
            used.append(u)


def _gen_low(rng, mode):
    """end-to-end font whose glyph names include some that sort before / next to '.notdef'; the effective glyph order is
    EMPTY in most cases (no public.glyphOrder / an empty stored one / an explicit glyphOrder=[] overriding a stored order),
    otherwise a short list.  '.notdef' in the source or synthesised."""
    k = rng.choice([1, 2, 3, 5, 8])
    names = rng.sample(LOW, rng.randrange(1, 4)) + rng.sample(NEAR, rng.randrange(0, 2)) + rng.sample(POOL[1:], k)
    if rng.random() < 0.5:
        names.append(".notdef")
    rng.shuffle(names)
    r = rng.random()
    stored = None
    if r < 0.25:
        go, arg = None, False                      # nothing stored, nothing passed
    elif r < 0.45:
        go, arg = [], False                        # empty public.glyphOrder
    elif r < 0.70:
        go, arg = [], True                         # explicit empty order ...
        if rng.random() < 0.6:                     # ... overriding a non-empty stored one
            stored = rng.sample(names, rng.randrange(1, len(names) + 1))
    else:
        go = [rng.choice(names + ["zzz", ".notdef"]) for _ in range(rng.randrange(1, 4))]
        arg = rng.random() < 0.5
    cps, used = {}, []
    for nm in names:
        us = []
        if nm != ".notdef" and rng.random() < 0.5:
            u = rng.choice([0x2D, 0x2B, 0x24, 0x41, 0x61, 0x1F600, 0xE000, 0x30])
            if u not in used:
                us.append(u); used.append(u)
        cps[nm] = us
    _low_cps(rng, mode, names, cps, used, 0.2)
    # defcon keeps an implicit glyph order as glyphs are added, so "nothing stored" is only reachable with ufoLib2
    lib = "ufoLib2" if (go is None or (mode == "search" and not arg)) else rng.choice(["ufoLib2", "ufoLib2", "defcon"])
    c = {"kind": "font", "names": names, "glyphOrder": go, "cps": cps, "uvs": [], "arg": arg, "lib": lib,
         "fmt": rng.choice(["ttf", "otf"]), "low": True}
    if stored is not None:
        c["stored"] = stored
    return c


class _FakeFont(dict):
    pass


def run(case):
    from ufo2ft.util import makeOfficialGlyphOrder
    if case["kind"] == "official":
        out = []
        for names, go in case["items"]:
            f = _FakeFont((n, None) for n in names)
            obs = makeOfficialGlyphOrder(f, go)
            out.append({"op": "official", "in": {"names": names, "glyphOrder": go}, "obs": obs,
                        "nontrivial": len(set(go)) != len(go) or any(g not in names for g in go) or set(go) != set(names),
                        "tags": ["official"]})
        return out
    import ufo2ft
    from fontTools.ttLib import TTFont
    if case["kind"] == "history":
        return _run_history(case)
    names, go = case["names"], case["glyphOrder"]
    fd = {"glyphs": [{"name": n, "width": 500, "unicodes": case["cps"][n]} for n in names],
          "glyphOrder": case.get("stored") if case["arg"] else go, "lib": {}}
    if case["uvs"]:
        fd["lib"]["public.unicodeVariationSequences"] = {
            "%04X" % vs: {"%04X" % u: g for u, g in recs} for vs, recs in case["uvs"]}
    font = build(fd, case["lib"])
    kw = {"useProductionNames": False}
    if case["arg"] and go is not None:
        kw["glyphOrder"] = go
    # the stored order is whatever the UFO library reports (defcon maintains one as glyphs are added)
    eff_go = list(kw["glyphOrder"]) if "glyphOrder" in kw else list(font.glyphOrder or [])
    err = None
    try:
        if case["fmt"] == "ttf":
            tt = ufo2ft.compileTTF(font, **kw)
        else:
            tt = ufo2ft.compileOTF(font, optimizeCFF=0, **kw)
        buf = io.BytesIO(); tt.save(buf); buf.seek(0)
        tt = TTFont(buf)
    except Exception as e:
        err = err_kind(e)
    reqs = []
    tags = [case["fmt"], case["lib"], "arg" if case["arg"] else "libOrder"]
    if case.get("low"):
        tags.append("lowNames")
    if not eff_go:
        tags.append("emptyOrder")
    if any(n < ".notdef" for n in names):
        tags.append("name<.notdef")
    if err is None:
        order = tt.getGlyphOrder()
        assert tt["maxp"].numGlyphs == len(order)
        reqs.append({"op": "order", "in": {"names": names, "glyphOrder": eff_go}, "obs": order,
                     "nontrivial": len(set(eff_go)) != len(eff_go) or any(g not in names for g in eff_go) or set(eff_go) != set(names),
                     "tags": tags + ["order"]})
    else:
        # order of iteration for the duplicate check = glyph order; recompute with the real function
        from ufo2ft.util import makeOfficialGlyphOrder
        nm = list(names) + ([] if ".notdef" in names else [".notdef"])
        order = makeOfficialGlyphOrder(_FakeFont((n, None) for n in nm), eff_go)
    glyphs = [[g, case["cps"].get(g, [])] for g in order]
    obs = {"err": err}
    if err is None:
        f4, f12, u14 = [], [], []
        for t in tt["cmap"].tables:
            if t.format == 4:
                f4.append(sorted([u, g] for u, g in t.cmap.items()))
            elif t.format == 12:
                f12.append(sorted([u, g] for u, g in t.cmap.items()))
            elif t.format == 14:
                u14 = sorted([vs, sorted([[u, g] for u, g in l])] for vs, l in t.uvsDict.items())
            else:
                f4.append([["unexpected-format", t.format]])
        obs.update({"fmt4": f4, "fmt12": f12, "uvs": u14,
                    "ids": sorted([t.platformID, t.platEncID, t.format] for t in tt["cmap"].tables)})
    allcps = [u for g in glyphs for u in g[1]]
    reqs.append({"op": "cmap", "in": {"glyphs": glyphs, "uvs": case["uvs"]}, "obs": obs,
                 "nontrivial": any(u > 0xFFFF for u in allcps) or len(set(allcps)) != len(allcps) or bool(case["uvs"]),
                 "tags": tags + ["cmap", "err:" + str(err)] + _zero_tags(glyphs) + (["nonBMP"] if any(u > 0xFFFF for u in allcps) else []) + (["uvs"] if case["uvs"] else [])})
    return reqs


def _zero_tags(glyphs):
    t = []
    if any(us[:1] == [0] for _, us in glyphs):
        t.append("U+0000-first")
        if any(len(us) > 1 and us[0] == 0 for _, us in glyphs):
            t.append("U+0000-first+secondary")
    if any(0 in us[1:] for _, us in glyphs):
        t.append("U+0000-secondary")
    return t


def _run_history(case):
    import ufo2ft
    shared = list(case["glyphOrder"])       # ONE list object handed to every compile
    fonts = []
    for k, names in enumerate(case["fonts"]):
        fd = {"glyphs": [{"name": n, "width": 500, "unicodes": []} for n in names], "glyphOrder": None, "lib": {},
              "info": {"familyName": "F", "styleName": "S%d" % k}}
        fonts.append(build(fd, case["lib"]))
    orders, err = [], None
    try:
        if case["how"] == "ttf-calls":
            orders = [ufo2ft.compileTTF(f, glyphOrder=shared, useProductionNames=False).getGlyphOrder() for f in fonts]
        elif case["how"] == "otf-calls":
            orders = [ufo2ft.compileOTF(f, glyphOrder=shared, useProductionNames=False, optimizeCFF=0).getGlyphOrder() for f in fonts]
        elif case["how"] == "interpolatable-ttf":
            orders = [t.getGlyphOrder() for t in ufo2ft.compileInterpolatableTTFs(fonts, glyphOrder=shared, useProductionNames=False)]
        else:
            orders = [(ufo2ft.compileTTF(f, glyphOrder=shared, useProductionNames=False) if k % 2 else
                       ufo2ft.compileOTF(f, glyphOrder=shared, useProductionNames=False, optimizeCFF=0)).getGlyphOrder()
                      for k, f in enumerate(fonts)]
    except Exception as e:
        err = err_kind(e)
    reqs = []
    for k, names in enumerate(case["fonts"]):
        obs = orders[k] if err is None else ["<error:%s>" % err]
        reqs.append({"op": "order", "in": {"names": names, "glyphOrder": case["glyphOrder"]}, "obs": obs,
                     "nontrivial": k > 0 and any(g not in case["fonts"][j] for j in range(k) for g in case["glyphOrder"] if g in names),
                     "tags": ["history", case["how"], case["lib"], "call#%d" % k]})
    return reqs


def agree(req, rep):
    m, o = rep["model"], req["obs"]
    if req["op"] != "cmap":
        return m == o
    if m.get("err") is not None or o.get("err") is not None:
        return m.get("err") == o.get("err")
    s4 = sorted(m["fmt4"])
    if len(o["fmt4"]) != 2 or any(t != s4 for t in o["fmt4"]):
        return False
    if m["fmt12"] is None:
        if o["fmt12"]:
            return False
        ids = [[0, 3, 4], [3, 1, 4]]
    else:
        s12 = sorted(m["fmt12"])
        if len(o["fmt12"]) != 2 or any(t != s12 for t in o["fmt12"]):
            return False
        ids = [[0, 3, 4], [0, 4, 12], [3, 1, 4], [3, 10, 12]]
    if m["uvs"]:
        ids = sorted(ids + [[0, 5, 14]])
    if o["ids"] != ids:
        return False
    return sorted([vs, sorted(l, key=lambda e: e[0])] for vs, l in m["uvs"]) == o["uvs"]


def shrink(case):
    if case["kind"] == "history":
        for i in range(len(case["fonts"]) - 1):
            c = dict(case); c["fonts"] = case["fonts"][:i] + case["fonts"][i + 1:]; yield c
        for i in range(len(case["glyphOrder"])):
            c = dict(case); c["glyphOrder"] = case["glyphOrder"][:i] + case["glyphOrder"][i + 1:]; yield c
        return
    if case["kind"] != "font":
        it = case["items"]                      # bisect (the core allows 60 candidates): halves, then single items
        if len(it) > 8:
            yield {"kind": "official", "items": it[:len(it) // 2]}
            yield {"kind": "official", "items": it[len(it) // 2:]}
        elif len(it) > 1:
            for i in range(len(it)):
                yield {"kind": "official", "items": [it[i]]}
        return
    for i in range(len(case["names"])):
        nm = case["names"][i]
        c = dict(case)
        c["names"] = case["names"][:i] + case["names"][i + 1:]
        c["cps"] = {k: v for k, v in case["cps"].items() if k != nm}
        c["uvs"] = [[vs, [r for r in recs if r[1] != nm]] for vs, recs in case["uvs"]]
        yield c
    if case["uvs"]:
        c = dict(case); c["uvs"] = []; yield c
    if case["glyphOrder"]:
        for i in range(len(case["glyphOrder"])):
            c = dict(case); c["glyphOrder"] = case["glyphOrder"][:i] + case["glyphOrder"][i + 1:]; yield c

LEVEL_TEXT = ("Proved for all inputs (Lean): the modelled glyph-order algorithm equals the declarative order ('.notdef' first, listed "
              "glyphs in first-occurrence order, rest sorted), is duplicate-free and a permutation of the glyph set; '.notdef' is glyph 0 "
              "for every name set and order (also when names compare lower than '.notdef'), and with an empty order the result is "
              "'.notdef' + all other names sorted (with a proved witness that this differs from plain sorted()); the modelled "
              "code-point mapping equals the source declarations exactly when no code point is declared twice and is an "
              "InvalidFontData error otherwise; every code point of every glyph - U+0000 included, whether it is the glyph's first or a secondary "
              "code point - is mapped to that glyph in the 16-bit subtables (if <= 0xFFFF) and in the 32-bit subtables when present "
              "(C03_cmap_every: no 'encoded glyph' pre-selection exists in the model, all glyphs of the glyph order are handed over); BMP/supplementary subtable split; default/non-default UVS rule. The model is tied "
              "to the code by exhaustive small-scope + random differential runs through compileTTF/compileOTF.")
LEVEL_NOTE = ("Trusted: Lean kernel + propext/Classical.choice/Quot.sound; the hand-written model's correspondence to util.py / "
              "outlineCompiler.py is differential (generators bound it; string comparison is by code point in both Lean and Python, "
              "the generated names are ASCII); the empty-effective-order x low-sorting-name scenarios are generated, not enumerated "
              "beyond the 6-name scope; the model of BaseOutlineCompiler.makeUnicodeToGlyphNameMapping is 'util.makeUnicodeToGlyphNameMapping over "
              "ALL glyphs in glyph order' - that the compiler's wrapper passes every glyph (also one whose first code point is the falsy U+0000) "
              "is checked differentially by the U+0000 stream through compileTTF/compileOTF, with the declarative holdsCmap / noDup predicates "
              "evaluated on the observed subtables; code points below U+0020 other than 0,1,8,0xD,0x1D are not generated; fontTools' cmap codec is assumed identity; a '.notdef' "
              "glyph carrying code points is excluded (glyph index 0 cannot be a cmap target in the binary format).")
