"""C20 - generated positioning features are reachable from every registered script."""
import io
import os
import shutil
import tempfile

from ufo import build, err_kind
import lib_C20

ID = "C20"
THEOREM = ("Ufo2ft.C20.C20_partial / C20_unscripted_everywhere / C20_languages / C20_kern_keys_partial / C20_dflt / "
           "C20_model_failures_shapeA_partial / C20_false_as_stated / C20_quirk_witness / C20_rejects / C20_register / "
           "C20_ds_extra_complete / C20_ds_extra / C20_ds_variable_same / C20_ds_extra_paths / C20_ds_alternate_inherits / "
           "C20_ds_classify / C20_merge_disjoint / C20_merge_cover / C20_merge_sound / C20_merge_never_asserts / C20_merge_asserts_iff / C20_merge_pairs / C20_merge_lands / C20_merge_holds / C20_merge_idempotent / C20_merge_disjoint_id / C20_merge_exact / C20_var_pairs")
PROOF_FILES = ["C20", "C20Merge"]
N = {"quick": 1200, "thorough": 12000}
RULE = ("fonts: 1-4 scripts drawn from latn/grek/cyrl/hebr/arab/deva/beng/khmr/mymr/nko/hira+kana/thai plus common glyphs and "
        "combining marks; kerning inside scripts, across scripts, with common glyphs and with marks (some through groups); "
        "top/bottom/_top/_bottom anchors (mark, mkmk, abvm/blwm), entry/exit anchors (curs); feature file = languagesystem "
        "statements (none / DFLT only / all scripts / subset with or without DFLT / extra languages, contiguous or grouped by "
        "language / language-only / a single non-DFLT one) + non-exported glyphs of foreign scripts (skipExportGlyphs) + "
        "optional user features (GSUB, unscripted GPOS, scripted GPOS with language include/exclude, own kern with or without "
        "insert marker, own mark with marker); compiled with compileTTF/compileOTF; observed: GPOS ScriptList -> LangSys -> "
        "feature tags (harness/gpos.py), the kern writer's lookups-by-script (wrapper around _makeFeatureBlocks), the final "
        "feature file (debugFeatureFile, parsed). function level: KernFeatureWriter._registerLookups and "
        "ast.addLookupReferences on synthetic lookups/language maps. malformed stream: languagesystem lists feaLib rejects. "
        "non-trivial = generated kerning and at least one generated mark/mkmk/abvm/blwm/curs feature are both present (fonts), "
        "or >= 2 scripts registered (function level). designspace stream (harness/lib_C20.py, n/12 cases + 2 corpus cases): 2-3 "
        "masters on 1-2 axes, 1-3 scripts (LTR, RTL, dist-enabled), 1-3 <rules> where the same letters are usually replaced in "
        "SEVERAL rules by a different alternate each (unencoded glyphs name.rK), a repeated substitution now and then; kerning per "
        "script on the plain letters, on the alternates of ONE rule (any, not only the last), or mixed, sometimes through a group "
        "or with a common glyph; top/_top anchors on letters, alternates and marks; languagesystems all / all+languages / subset "
        "/ none; three build paths (1/3 : 1/2 : 1/6): per-master (compileInterpolatableTTFsFromDS / OTFsFromDS), variable font with "
        "compatible master features (compileVariableTTF / compileVariableCFF2: features compiled once by VariableFeatureCompiler), "
        "variable font whose second master has an extra GSUB feature (incompatible -> per-master feature compilation, varLib "
        "merge); observed: the compiler object's extraSubstitutions (wrapper around _pre_compile_designspace), what the feature "
        "writers RECEIVE from each feature compiler (wrapper around BaseFeatureWriter.extraSubstitutions, tagged by compiler "
        "class), util.classifyGlyphs on that mapping, and the GPOS ScriptList of each master / of the variable font. non-trivial "
        "(designspace) = some glyph is replaced in >= 2 rules (function level), kerning and a mark feature both compiled (masters). "
        "cross-script stream (harness/lib_C20.py, max(60, n/10) fonts + 2 corpus fonts): 3-5 scripts of ONE direction (LTR: "
        "latn/grek/cyrl/armn/geor/thai, or RTL: hebr/arab/syrc/thaa/nko), glyph-to-glyph kerning pairs ACROSS scripts forming a chain "
        "through all scripts (60%), a star, two components or random links, stored in RANDOM order (bucket order = order of first "
        "occurrence), kerning inside a script only for ~30% of the scripts (so some script is kerned only against another one); "
        "top/_top anchors everywhere; languagesystems DFLT + all / + languages / subset; the usual register/build/e2e requests plus "
        "the predicate-only 'xkern' request on the compiled ScriptList. function level: kernFeatureWriter.mergeScripts on synthetic "
        "kerningPerScript dicts (max(300, n/4) items: 4-8 scripts, chains of two-script buckets / random 1-3-script buckets / stars, "
        "single-script buckets, shuffled order, now and then an empty key) against the Lean model, Spec.holdsMerge on the observed "
        "result. non-trivial (cross-script) = kerning and a mark feature compiled and >= 3 distinct buckets (fonts); >= 3 multi-script "
        "buckets of which some were merged (function level). "
        "uneven-kerning stream (harness/lib_C20.py gen_ds_uneven, generated LAST so the other streams keep their cases; max(50, n/20) "
        "designspaces + 3 corpus cases): a designspace as above whose masters do NOT carry the same kerning pairs - per script the "
        "pairs are in all masters / only in non-default masters (one or several) / only in the last master / only in the default "
        "master; every script kerned in some master; languagesystems mostly DFLT + all scripts; built as a variable font "
        "(compileVariableTTF/CFF2, 4/5) or per master (1/5); observed: arguments and result of KernFeatureWriter."
        "getVariableKerningPairs (wrapper: per source layerName-is-None and kerning keys; result pairs with classes mapped back to "
        "group names) against the Lean model (op 'varpairs', also for every variable build of the designspace stream), and the "
        "compiled ScriptList against Spec.holdsDs with the pairs of EVERY master (variable font) or of the master itself "
        "(per-master build). non-trivial (varpairs) = the full sources do not all have the same kerning keys.")
ASSUMED = [
    "feaLib parser/builder beyond the modelled registration logic (set_script/set_language/add_lookup_to_feature_/"
    "add_language_system/makeTable ScriptList) - measured by the 'build' stream on every generated font",
    "languagesystem statements precede all feature blocks (as the feature file specification requires)",
    "Unicode script data (script extensions, direction, OpenType tags, DIST_ENABLED_SCRIPTS membership) is an input",
    "which glyphs a generated feature 'acts on' is read from the compiled lookups' primary coverage (base/ligature/mark2/"
    "cursive) and the glyphs' code points; glyphs without a specific script count for every script",
    "designspace stream: an unencoded rule alternate belongs to the script(s) of the glyph(s) the rules replace by it (one "
    "step); generated kerning 'acts on' a script when some kerning pair has both glyphs in that script and neither is "
    "common/inherited (pairs with a common glyph on one side are not counted - see LEVEL_NOTE)",
    "uneven-kerning stream: a variable font's generated kerning 'acts on' a script when some master has a kerning pair with both "
    "glyphs in that script (the variable font covers every master's location); sparse layer sources are not generated (the "
    "model skips them as the code does); kerning keys naming missing glyphs/groups and all-zero class-to-class pairs (which "
    "the code drops after collation) are not generated",
    "cross-script stream: generated kerning 'acts on' a script when some kerning pair between two script-specific glyphs whose "
    "scripts all run in one horizontal direction has a glyph of that script on either side (mixed-direction pairs are dropped by "
    "the writer by design and are not counted); directions come from fontTools.unicodedata",
]

DFLT = "DFLT"
GEN_TAGS = ("mark", "mkmk", "abvm", "blwm", "curs")

# script -> [(glyph, code point)], marks listed apart
BASES = {
    "latn": [("a", 0x61), ("b", 0x62), ("A", 0x41), ("V", 0x56)],
    "grek": [("alpha", 0x3B1), ("beta", 0x3B2)],
    "cyrl": [("becy", 0x431), ("vecy", 0x432)],
    "hebr": [("alefhebr", 0x5D0), ("bethebr", 0x5D1)],
    "arab": [("behar", 0x628), ("alefar", 0x627), ("seenar", 0x633)],
    "deva": [("kadeva", 0x915), ("gadeva", 0x917)],
    "beng": [("kabeng", 0x995), ("gabeng", 0x997)],
    "khmr": [("kakhmer", 0x1780), ("khakhmer", 0x1781)],
    "mymr": [("kamymr", 0x1000), ("khamymr", 0x1001)],
    "nko": [("anko", 0x7CA), ("eenko", 0x7CB)],
    "kana": [("ahira", 0x3042), ("akata", 0x30A2), ("ihira", 0x3044)],
    "thai": [("kokaithai", 0xE01), ("khokhaithai", 0xE02)],
}
MARKS = {
    "latn": [("acutecomb", 0x301), ("gravecomb", 0x300), ("dotbelowcomb", 0x323)],
    "grek": [("acutecomb", 0x301)],
    "cyrl": [("gravecomb", 0x300)],
    "hebr": [("patahhebr", 0x5B7)],
    "arab": [("fathaar", 0x64E)],
    "deva": [("anusvaradeva", 0x902)],
    "beng": [("anusvarabeng", 0x982)],
    "khmr": [("nikahitkhmer", 0x17C6)],
    "mymr": [("anusvaramymr", 0x1036)],
    "nko": [("highnko", 0x7EB)],
    "kana": [],
    "thai": [("maiekthai", 0xE48)],
}
COMMON = [("period", 0x2E), ("zero", 0x30), ("hyphen", 0x2D), ("space", 0x20)]
OTTAGS = {"latn": ["latn"], "grek": ["grek"], "cyrl": ["cyrl"], "hebr": ["hebr"], "arab": ["arab"], "deva": ["dev2", "deva"],
          "beng": ["bng2", "beng"], "khmr": ["khmr"], "mymr": ["mym2", "mymr"], "nko": ["nko"], "kana": ["kana"], "thai": ["thai"]}
LANGS = ["TRK", "AZE", "URD", "MAR", "SRB"]


# ------------------------------------------------------------------------------------------------ generation

def _langsys(rng, scripts, mode):
    tags = [t for s in scripts for t in OTTAGS[s]]
    r = rng.random()
    kind = None
    if r < 0.18:
        kind, ls = "none", []
    elif r < 0.26:
        kind, ls = "DFLT-only", [[DFLT, "dflt"]]
    elif r < 0.42:
        kind, ls = "all", [[DFLT, "dflt"]] + [[t, "dflt"] for t in tags]
    elif r < 0.52:
        sub = [t for t in tags if rng.random() < 0.5]
        kind, ls = "subset+DFLT", [[DFLT, "dflt"]] + [[t, "dflt"] for t in sub]
    elif r < 0.60:
        sub = [t for t in tags if rng.random() < 0.6] or tags[:1]
        kind, ls = "subset-noDFLT", [[t, "dflt"] for t in sub]
    elif r < 0.68:
        kind, ls = "single", [[rng.choice(tags), "dflt"]]
    elif r < 0.80:
        # grouped by language, not by script tag: the statements of one tag are not contiguous
        ls = [[DFLT, "dflt"]] + [[t, "dflt"] for t in tags]
        for l in rng.sample(LANGS, rng.choice([1, 2, 2, 3])):
            for t in tags:
                if rng.random() < 0.9:
                    ls.append([t, l])
        kind = "interleaved"
    elif r < 0.90:
        ls = [[DFLT, "dflt"]]
        for t in tags:
            if rng.random() < 0.8:
                ls.append([t, "dflt"])
            for l in rng.sample(LANGS, rng.choice([0, 1, 2])):
                ls.append([t, l])
        kind = "all+langs"
    else:
        # language-specific statements without the script's dflt
        ls = [] if rng.random() < 0.5 else [[DFLT, "dflt"]]
        for t in tags:
            ls.append([t, rng.choice(LANGS)])
            if rng.random() < 0.3:
                ls.append([t, "dflt"])
        kind = "langs-only"
    if rng.random() < 0.1 and ls:
        # a declared script the font has no glyphs for
        ls = ls + [["armn", "dflt"]]
    bad = False
    if (mode == "search" and rng.random() < 0.15) or rng.random() < 0.05:
        bad = True
        k = rng.choice(["dup", "dflt-late", "DFLT-after"])
        if k == "dup" and ls:
            ls = ls + [list(rng.choice(ls))]
        elif k == "dflt-late":
            ls = [[DFLT, "TRK"], [DFLT, "dflt"]] + [x for x in ls if x[0] != DFLT]
        else:
            ls = [x for x in ls if x[0] != DFLT] + [[DFLT, "dflt"]]
            if len(ls) == 1:
                ls = [["latn", "dflt"]] + ls
        kind = "malformed:" + k
    return kind, ls


def _user_features(rng, glyphs, scripts):
    """(text, kinds) - user feature blocks whose tags may or may not collide with the generated ones"""
    out, kinds = [], []
    have = set(glyphs)
    lat = [g for g in ("a", "b", "A", "V") if g in have]
    anyg = sorted(have - {"space"})
    r = rng.random()
    if r < 0.45:
        return "", ["nouser"]
    # substitutions stay inside one script: a GSUB rule that maps a glyph into a script of the other direction makes the
    # kern writer's `assert len(directions) == 1` fire (observed; outside C20)
    sub = [g for g, _ in BASES[scripts[0]][:2]]
    if rng.random() < 0.4:
        out.append("feature ss01 { sub %s by %s; } ss01;" % (sub[0], sub[1])); kinds.append("user-gsub")
    if rng.random() < 0.4 and anyg:
        out.append("feature cpsp { pos %s <5 0 10 0>; } cpsp;" % anyg[0]); kinds.append("user-gpos-unscripted")
    if rng.random() < 0.45 and anyg:
        t = rng.choice([t for s in scripts for t in OTTAGS[s]] + ["cyrl", DFLT])
        g = anyg[-1]
        body = ["script %s;" % t]
        k = rng.choice(["plain", "lang-incl", "lang-excl", "lang-only-excl", "pre", "twice"])
        if k == "plain":
            body += ["pos %s <1 0 2 0>;" % g]
        elif k == "lang-incl":
            body += ["pos %s <1 0 2 0>;" % g, "language TRK;", "pos %s <3 0 4 0>;" % anyg[0]]
        elif k == "lang-excl":
            body += ["pos %s <1 0 2 0>;" % g, "language TRK exclude_dflt;", "pos %s <3 0 4 0>;" % anyg[0], "language AZE;"]
        elif k == "lang-only-excl":
            body += ["language TRK exclude_dflt;", "pos %s <3 0 4 0>;" % anyg[0]]
        elif k == "pre":
            body = ["pos %s <7 0 7 0>;" % g] + body + ["pos %s <1 0 2 0>;" % anyg[0]]
        else:
            body += ["pos %s <1 0 2 0>;" % g, "script %s;" % t, "sub %s by %s;" % (sub[0], sub[1]),
                     "script %s;" % rng.choice(["grek", DFLT]), "pos %s <3 0 4 0>;" % anyg[0]]
        out.append("feature vpal { %s } vpal;" % " ".join(b for b in body if b)); kinds.append("user-gpos-" + k)
    r = rng.random()
    if r < 0.12 and len(lat) >= 2:
        out.append("feature kern { pos %s %s -7; } kern;" % (lat[0], lat[1])); kinds.append("user-kern-nomarker")
    elif r < 0.22:
        out.append("feature kern {\n# Automatic Code\n} kern;"); kinds.append("user-kern-marker")
    elif r < 0.30 and len(lat) >= 2:
        out.append("feature kern {\n pos %s %s -7;\n# Automatic Code\n} kern;" % (lat[0], lat[1])); kinds.append("user-kern-marker-after")
    elif r < 0.36:
        out.append("feature mark {\n# Automatic Code\n} mark;"); kinds.append("user-mark-marker")
    elif r < 0.40 and anyg:
        out.append("feature mark { pos %s <1 1 0 0>; } mark;" % anyg[0]); kinds.append("user-mark-nomarker")
    return "\n".join(out), kinds or ["nouser"]


def gen_font(rng, mode):
    nscripts = rng.choice([1, 1, 2, 2, 3, 4])
    scripts = rng.sample(sorted(BASES), nscripts)
    if rng.random() < 0.5 and "latn" not in scripts:
        scripts[0] = "latn"
    glyphs, cps, bases_of, marks_of = {}, {}, {}, {}
    for s in scripts:
        bs = BASES[s] if rng.random() < 0.7 else BASES[s][:2]
        bases_of[s] = [g for g, _ in bs]
        for g, u in bs:
            cps[g] = u
        ms = [m for m in MARKS[s] if rng.random() < 0.8]
        marks_of[s] = [g for g, _ in ms]
        for g, u in ms:
            cps[g] = u
    commons = [g for g, u in COMMON if rng.random() < 0.6]
    for g, u in COMMON:
        if g in commons:
            cps[g] = u
    names = list(cps)
    allmarks = sorted({m for s in scripts for m in marks_of[s]})
    # kerning
    kerning, groups = [], {}
    pk = rng.choice([0.0, 0.9, 0.9, 0.9, 0.9])
    for s in scripts:
        b = bases_of[s]
        if rng.random() < pk and len(b) >= 2:
            kerning.append([b[0], b[1], -rng.randrange(5, 80)])
            if rng.random() < 0.3:
                kerning.append([b[1], b[0], rng.randrange(5, 40)])
        if rng.random() < 0.3 * pk and commons:
            kerning.append([b[0], rng.choice(commons), -rng.randrange(5, 40)])
        if rng.random() < 0.3 * pk and marks_of[s]:
            kerning.append([b[0], marks_of[s][0], -rng.randrange(5, 40)])
    if len(scripts) >= 2 and rng.random() < 0.35 * pk:
        s1, s2 = rng.sample(scripts, 2)
        kerning.append([bases_of[s1][-1], bases_of[s2][0], -rng.randrange(5, 40)])
    if len(commons) >= 2 and rng.random() < 0.3 * pk:
        kerning.append([commons[0], commons[1], -rng.randrange(5, 40)])
    if rng.random() < 0.25 * pk and kerning:
        s = rng.choice(scripts)
        members = list(bases_of[s][:2]) + ([bases_of[scripts[-1]][0]] if rng.random() < 0.3 else [])
        members = list(dict.fromkeys(members))
        groups["public.kern1.grp"] = members
        other = bases_of[scripts[0]][0]
        kerning = [k for k in kerning if k[0] not in members]
        kerning.append(["public.kern1.grp", other, -rng.randrange(5, 60)])
    seen, kk = set(), []
    for l, r, v in kerning:
        if (l, r) not in seen:
            seen.add((l, r)); kk.append([l, r, v])
    kerning = kk
    # anchors
    anchors = {g: [] for g in names}
    pa = rng.choice([0.0, 0.8, 0.8, 0.8])
    for s in scripts:
        if rng.random() < pa and marks_of[s]:
            for g in bases_of[s]:
                if rng.random() < 0.8:
                    anchors[g].append(["top", 250, 500])
                if rng.random() < 0.3:
                    anchors[g].append(["bottom", 250, -10])
            for m in marks_of[s]:
                if not any(a[0] == "_top" or a[0] == "_bottom" for a in anchors[m]):
                    anchors[m].append(["_bottom", 0, -10] if m == "dotbelowcomb" else ["_top", 0, 480])
                if rng.random() < 0.4 and not any(a[0] == "top" for a in anchors[m]) and anchors[m][0][0] == "_top":
                    anchors[m].append(["top", 0, 700])
        if rng.random() < (0.5 if s in ("arab", "nko", "hebr") else 0.08):
            for g in bases_of[s]:
                anchors[g].append(["entry", 480, 0]); anchors[g].append(["exit", 20, 0])
    if commons and rng.random() < 0.1 * (pa > 0) and allmarks:
        anchors[commons[0]].append(["top", 100, 400])
    kind, ls = _langsys(rng, scripts, mode)
    utext, ukinds = _user_features(rng, names, scripts)
    fea = "".join("languagesystem %s %s;\n" % (s, l) for s, l in ls) + utext
    fd = {"glyphs": [{"name": g, "width": 0 if g in allmarks else 500, "unicodes": [cps[g]], "anchors": anchors[g]} for g in names],
          "kerning": kerning, "groups": groups, "features": fea}
    if rng.random() < 0.3:
        fd["glyphs"].append({"name": "a.alt", "width": 500, "unicodes": [], "anchors": [["top", 250, 500]] if pa else []})
    skip = []
    if rng.random() < 0.25:
        # a source glyph of a script the font does not otherwise cover, not exported; together with a kerned glyph whose
        # Script_Extensions include that script (combining acute: Latn Grek Cyrl ..; fatha/tatweel: Arab Syrc ..)
        other = [x for x in ("grek", "cyrl", "latn", "hebr", "arab", "thai") if x not in scripts]
        if "arab" in scripts and rng.random() < 0.7:
            skg = ("alaphsyr", 0x710)
        else:
            x = rng.choice(other); skg = BASES[x][0]
        if skg[0] not in cps:
            fd["glyphs"].append({"name": skg[0], "width": 500, "unicodes": [skg[1]], "anchors": []})
            skip.append(skg[0])
            fd["lib"] = {"public.skipExportGlyphs": skip}
            byname = {g["name"]: g for g in fd["glyphs"]}
            if "arab" in scripts:
                # tatweel joins like a letter: cursive + mark anchors when the Arabic letters have them
                ka = [a for a in byname[bases_of["arab"][0]]["anchors"] if a[0] in ("entry", "exit", "top")]
                fd["glyphs"].append({"name": "kashidaar", "width": 300, "unicodes": [0x640], "anchors": [list(a) for a in ka]})
                fd["kerning"].append([bases_of["arab"][0], "kashidaar", -11])
            for s_ in scripts:
                for m in marks_of[s_][:1]:
                    if [bases_of[s_][0], m] not in [k[:2] for k in fd["kerning"]]:
                        fd["kerning"].append([bases_of[s_][0], m, -13])
                    am = byname[m]["anchors"]
                    if am and am[0][0] == "_top" and not any(a[0] == "top" for a in am):
                        am.append(["top", 0, 700])         # mark-to-mark: acts wherever the mark is used
    ukinds = ukinds + (["skipExport"] if skip else [])
    return {"kind": "font", "fd": fd, "langsys": ls, "lskind": kind, "ukinds": ukinds, "scripts": scripts,
            "lib": rng.choice(["ufoLib2", "defcon"]), "fmt": rng.choice(["ttf", "ttf", "otf"])}


SYN_SCRIPTS = ["Latn", "Grek", "Cyrl", "Arab", "Hebr", "Deva", "Beng", "Khmr", "Mymr", "Nkoo", "Thai", "Hira", "Kana", "Syrc", "Adlm"]
SYN_TAGS = [DFLT, "latn", "grek", "cyrl", "arab", "hebr", "dev2", "deva", "bng2", "beng", "khmr", "mym2", "mymr", "nko ", "thai",
            "kana", "syrc", "adlm"]


def gen_register(rng, mode):
    k = rng.choice([0, 1, 1, 2, 2, 3, 4, 6])
    scripts = rng.sample(SYN_SCRIPTS, k)
    r = rng.random()
    if r < 0.35:
        scripts.append("Zyyy")
    elif r < 0.42:
        scripts.append("Zinh")
    rng.shuffle(scripts)
    nid = 0
    lookups = []
    shared = None
    for s in scripts:
        d = []
        for suffix in rng.choice([[""], [""], ["", "_marks"], ["_marks"]]):
            name = "kern_" + s + suffix
            if rng.random() < 0.12:
                name = "kern_X" + suffix          # same dict key under several scripts, different objects
            if shared is not None and rng.random() < 0.25:
                d.append(list(shared))            # the same lookup object under two scripts (cross-script bucket)
                continue
            d.append([name, nid]); nid += 1
            if rng.random() < 0.3:
                shared = [name, nid - 1]
        d = list({n: [n, i] for n, i in d}.values())
        if rng.random() < (0.03 if mode == "search" else 0.01):
            d = []          # an empty dict: `assert lookups` in addLookupReferences (upstream code removes empty dicts)
        lookups.append([s, d])
    langs = []
    for t in rng.sample(SYN_TAGS, rng.choice([0, 0, 1, 2, 4, 8])):
        langs.append([t, rng.choice([["dflt"], ["dflt", "TRK "], ["TRK "], ["TRK ", "dflt", "AZE "], ["AZE ", "TRK "], []])])
    return {"feature": rng.choice(["kern", "kern", "dist"]), "lookups": lookups, "langs": langs}


def gen_addrefs(rng):
    n = rng.choice([1, 1, 2, 3])
    return {"lookups": list(range(n)), "script": rng.choice([None, "", "latn", "DFLT", "dev2"]),
            "languages": rng.choice([None, [], ["dflt"], ["TRK "], ["dflt", "TRK "], ["TRK ", "dflt", "AZE "]]),
            "exclude": rng.random() < 0.4}


def corpus_cases():
    """the design's witness and its relatives; always run"""
    def fd(fea, glyphs, kerning):
        return {"glyphs": glyphs, "kerning": kerning, "groups": {}, "features": fea}
    lat = [{"name": "a", "width": 500, "unicodes": [0x61], "anchors": [["top", 250, 500]]},
           {"name": "b", "width": 500, "unicodes": [0x62], "anchors": [["top", 250, 500]]},
           {"name": "acutecomb", "width": 0, "unicodes": [0x301], "anchors": [["_top", 0, 500]]}]
    dev = [{"name": "kadeva", "width": 500, "unicodes": [0x915], "anchors": [["top", 250, 500]]},
           {"name": "gadeva", "width": 500, "unicodes": [0x917], "anchors": [["top", 250, 500]]},
           {"name": "anusvaradeva", "width": 0, "unicodes": [0x902], "anchors": [["_top", 0, 500]]}]
    out = []
    for ls in ([], [[DFLT, "dflt"]], [["latn", "dflt"]], [[DFLT, "dflt"], ["latn", "dflt"]], [["latn", "TRK"]]):
        out.append({"kind": "font", "fd": fd("".join("languagesystem %s %s;\n" % tuple(x) for x in ls), lat, [["a", "b", -20]]),
                    "langsys": ls, "lskind": "corpus", "ukinds": ["nouser"], "scripts": ["latn"], "lib": "ufoLib2", "fmt": "ttf"})
    for ls in ([], [["dev2", "dflt"]], [[DFLT, "dflt"], ["dev2", "dflt"], ["deva", "dflt"]]):
        out.append({"kind": "font", "fd": fd("".join("languagesystem %s %s;\n" % tuple(x) for x in ls), dev, [["kadeva", "gadeva", -20]]),
                    "langsys": ls, "lskind": "corpus", "ukinds": ["nouser"], "scripts": ["deva"], "lib": "ufoLib2", "fmt": "ttf"})
    return out


def gen(rng, n, mode):
    for c in corpus_cases():
        yield c
    for c in lib_C20.corpus_ds():
        yield c
    for c in lib_C20.corpus_xfont():
        yield c
    for c in lib_C20.corpus_ds_uneven():
        yield c
    for i in range(n):
        yield gen_font(rng, mode)
    for i in range(max(40, n // 12)):
        yield lib_C20.gen_ds(rng, mode, BASES, MARKS, OTTAGS)
    for i in range(max(60, n // 10)):
        yield lib_C20.gen_xfont(rng, mode)
    yield {"kind": "merge", "items": [lib_C20.gen_merge(rng, mode) for _ in range(max(300, n // 4))]}
    m = max(4, n // 60)
    for i in range(m):
        yield {"kind": "register", "items": [gen_register(rng, mode) for _ in range(150)]}
    yield {"kind": "addrefs", "items": [gen_addrefs(rng) for _ in range(200)]}
    # last, so that the cases of the earlier streams are the same as before for a given seed
    for i in range(max(50, n // 20)):
        yield lib_C20.gen_ds_uneven(rng, mode, BASES, MARKS, OTTAGS)


# ------------------------------------------------------------------------------------------------ observation

def _strip(t):
    return t.strip()


def _stmt_abstract(statements, named, ids, fresh):
    """abstract the statements of a feature block: script / language / lookup-registration points.
    `named`: lookup name -> (id, gpos) or None (empty lookup); `fresh()` gives a new id."""
    from fontTools.feaLib import ast
    out = []
    cur = None
    for st in statements:
        if isinstance(st, ast.Comment):
            continue
        if isinstance(st, ast.ScriptStatement):
            out.append(["s", _strip(st.script)]); cur = None
        elif isinstance(st, ast.LanguageStatement):
            out.append(["l", _strip(st.language), bool(st.include_default)]); cur = None
        elif isinstance(st, ast.LookupFlagStatement):
            cur = None
        elif isinstance(st, ast.LookupReferenceStatement):
            cur = None
            ref = named.get(st.lookup.name)
            if ref is not None:
                out.append(["k", ref[0], ref[1]])
        elif isinstance(st, ast.LookupBlock):
            cur = None
            ref = _define_lookup(st, named, fresh)
            if ref is not None:
                out.append(["k", ref[0], ref[1]])
        else:
            cls = type(st).__name__
            if "Pos" in cls or "Subst" in cls:
                if cls != cur:
                    out.append(["k", fresh(), "Pos" in cls]); cur = cls
    return out


def _define_lookup(block, named, fresh):
    from fontTools.feaLib import ast
    rules = [type(s).__name__ for s in block.statements
             if not isinstance(s, (ast.Comment, ast.LookupFlagStatement)) and ("Pos" in type(s).__name__ or "Subst" in type(s).__name__)]
    ref = (fresh(), "Pos" in rules[0]) if rules else None
    named[block.name] = ref
    return ref


def abstract_fea(text, glyph_names, base=0):
    """-> (langsys, blocks [[tag, stmts]], named lookups)"""
    from fontTools.feaLib import ast
    from fontTools.feaLib.parser import Parser
    doc = Parser(io.StringIO(text), glyphNames=glyph_names).parse()
    counter = [base]

    def fresh():
        counter[0] += 1
        return counter[0] - 1
    named, langsys, blocks = {}, [], []
    for st in doc.statements:
        if isinstance(st, ast.LanguageSystemStatement):
            langsys.append([_strip(st.script), _strip(st.language)])
        elif isinstance(st, ast.LookupBlock):
            _define_lookup(st, named, fresh)
        elif isinstance(st, ast.FeatureBlock):
            blocks.append([st.name, _stmt_abstract(st.statements, named, None, fresh)])
    return langsys, blocks, named


def script_info(scripts):
    from fontTools import unicodedata as ud
    from ufo2ft.constants import INDIC_SCRIPTS, USE_SCRIPTS
    dist = set(INDIC_SCRIPTS) | {"Khmr", "Mymr"} | set(USE_SCRIPTS)
    out = []
    for s in scripts:
        out.append([s, {"dir": "Auto" if s == "Zyyy" else ud.script_horizontal_direction(s, "LTR"), "dist": s in dist,
                        "tags": [_strip(t) for t in ud.ot_tags_from_script(s)]}])
    return out


def block_stmts(feature, ids):
    """abstract a FeatureBlock built by the kern writer: lookup references by object identity"""
    from fontTools.feaLib import ast
    out = []
    for st in feature.statements:
        if isinstance(st, ast.ScriptStatement):
            out.append(["s", _strip(st.script)])
        elif isinstance(st, ast.LanguageStatement):
            out.append(["l", _strip(st.language), bool(st.include_default)])
        elif isinstance(st, ast.LookupReferenceStatement):
            out.append(["k", ids[id(st.lookup)], True])
    return out


def glyph_scripts(fd):
    """glyph -> set of OpenType script tags, or None (= every script)"""
    from fontTools import unicodedata as ud
    out = {}
    for g in fd["glyphs"]:
        tags = set()
        star = not g.get("unicodes")
        for u in g.get("unicodes", []):
            scx = ud.script_extension(chr(u))
            if not scx or scx & {"Zyyy", "Zinh", "Zzzz"}:
                star = True
            for sc in scx:
                tags.update(_strip(t) for t in ud.ot_tags_from_script(sc))
        out[g["name"]] = None if star else tags
    return out


def font_scripts(fd, langsys):
    """OpenType tags of the scripts the font supports: code points of EXPORTED glyphs whose Script_Extensions is a single
    script, plus the scripts named by languagesystem statements."""
    from fontTools import unicodedata as ud
    skip = set((fd.get("lib") or {}).get("public.skipExportGlyphs", []))
    out = set()
    for g in fd["glyphs"]:
        if g["name"] in skip:
            continue
        for u in g.get("unicodes", []):
            scx = ud.script_extension(chr(u))
            if len(scx) == 1:
                out.update(_strip(t) for t in ud.ot_tags_from_script(next(iter(scx))))
    out.update(s for s, _ in langsys)
    return sorted(out)


def acts_of(tt, tag, gscripts):
    """script tags whose glyphs the lookups of feature `tag` cover (primary coverage); '*' = all"""
    t = tt["GPOS"].table
    lks = set()
    for fr in t.FeatureList.FeatureRecord:
        if fr.FeatureTag == tag:
            lks.update(fr.Feature.LookupListIndex)
    glyphs = set()
    for li in lks:
        lk = t.LookupList.Lookup[li]
        for st in lk.SubTable:
            typ = lk.LookupType
            if typ == 9:
                typ, st = st.ExtensionLookupType, st.ExtSubTable
            cov = {4: "BaseCoverage", 5: "LigatureCoverage", 6: "Mark2Coverage"}.get(typ, "Coverage")
            glyphs.update(getattr(st, cov).glyphs)
    acts = set()
    for g in glyphs:
        s = gscripts.get(g)
        if s is None:
            return ["*"]
        acts |= s
    return sorted(acts)


def run_font(case):
    import ufo2ft
    import gpos
    from ufo2ft.featureWriters import kernFeatureWriter as kfw
    import logging
    logging.getLogger("ufo2ft").setLevel(logging.CRITICAL)
    fd = case["fd"]
    font = build(fd, case["lib"])
    skipped = set((fd.get("lib") or {}).get("public.skipExportGlyphs", []))
    names = [g["name"] for g in fd["glyphs"] if g["name"] not in skipped]
    cap = {}
    orig = kfw.KernFeatureWriter._makeFeatureBlocks

    def wrapped(self, lookups):
        feats = orig(self, lookups)
        cap["todo"] = sorted(self.context.todo)
        cap["lookups"] = lookups
        cap["langs"] = dict(self.context.feaLanguagesByScript)
        cap["features"] = feats
        return feats
    kfw.KernFeatureWriter._makeFeatureBlocks = wrapped
    from ufo2ft.featureWriters import markFeatureWriter as mfw, cursFeatureWriter as cfw
    orig_m, orig_c = mfw.MarkFeatureWriter._makeFeatures, cfw.CursFeatureWriter._makeCursiveFeature
    gen_tags = []

    def wrapped_m(self):
        res = orig_m(self)
        gen_tags.extend(sorted(res[0]))
        return res

    def wrapped_c(self):
        res = orig_c(self)
        if res is not None:
            gen_tags.append(res.name)
        return res
    mfw.MarkFeatureWriter._makeFeatures = wrapped_m
    cfw.CursFeatureWriter._makeCursiveFeature = wrapped_c
    tmp = tempfile.mkdtemp(prefix="c20-")
    old_tmp = tempfile.tempdir
    tempfile.tempdir = tmp          # ufo2ft drops the feature file into a temp file when feaLib fails
    dbg = io.StringIO()
    err, tt = None, None
    try:
        if case["fmt"] == "ttf":
            tt = ufo2ft.compileTTF(font, debugFeatureFile=dbg)
        else:
            tt = ufo2ft.compileOTF(font, optimizeCFF=0, debugFeatureFile=dbg)
    except Exception as e:
        err = err_kind(e)
    finally:
        kfw.KernFeatureWriter._makeFeatureBlocks = orig
        mfw.MarkFeatureWriter._makeFeatures = orig_m
        cfw.CursFeatureWriter._makeCursiveFeature = orig_c
        tempfile.tempdir = old_tmp
        shutil.rmtree(tmp, ignore_errors=True)
    final_text = dbg.getvalue()
    # ---- observation
    if err is None:
        reach = []
        if "GPOS" in tt:
            for s, langs in gpos.script_features(tt).items():
                for l, fl in langs.items():
                    for tag, _ in fl:
                        reach.append([_strip(s), _strip(l), tag])
        reach.sort()
        obs = {"err": None, "reach": reach}
    else:
        obs = {"err": err}
    # ---- inputs of the model
    reqs = []
    u_ls, u_blocks, _ = abstract_fea(fd["features"] or "", names, base=1000)
    ids = {}
    klookups = []
    if "lookups" in cap:
        for script, d in cap["lookups"].items():
            row = []
            for name, lk in d.items():
                ids.setdefault(id(lk), len(ids))
                row.append([name, [ids[id(lk)], True]])
            klookups.append([script, row])
    kern_in = {"todo": cap.get("todo", []), "lookups": klookups, "info": script_info([s for s, _ in klookups])}
    gen = []
    f_ls, f_blocks = None, None
    if final_text:
        try:
            f_ls, f_blocks, _ = abstract_fea(final_text, names, base=2000)
        except Exception:
            f_ls = None
    user_tags = {b[0] for b in u_blocks}
    if f_blocks is not None:
        gscripts = glyph_scripts(fd)
        for tag in gen_tags:
            lks = [[s[1], s[2]] for t, stmts in f_blocks if t == tag for s in stmts if s[0] == "k"]
            acts = acts_of(tt, tag, gscripts) if (tt is not None and "GPOS" in tt) else ["*"]
            gen.append([tag, lks, acts])
    spec = {"langsys": u_ls, "kern": kern_in, "gen": gen, "user": u_blocks, "fontScripts": font_scripts(fd, u_ls)}
    tags = [case["fmt"], case["lib"], "ls:" + case["lskind"], "err:" + str(err), "nscripts:%d" % len(case["scripts"])]
    tags += ["u:" + k for k in case["ukinds"]]
    tags += ["gen:" + g[0] for g in gen] + ["kern:" + t for t in cap.get("todo", []) if t in cap.get("features", {})]
    if not cap.get("features"):
        tags.append("kern:none")
    infos = dict((s_, i_) for s_, i_ in kern_in["info"])
    if klookups:
        nd = [s_ for s_ in infos if not infos[s_]["dist"] and s_ != "Zyyy"]
        if "Zyyy" in infos:
            tags.append("reg:common-lookups")
        if nd and all(infos[s_]["dir"] == "RTL" for s_ in nd):
            tags.append("reg:DFLT-from-RTL")
        if any(infos[s_]["dir"] == "LTR" for s_ in nd):
            tags.append("reg:DFLT-from-LTR")
        if not nd and "Zyyy" not in infos:
            tags.append("reg:dist-only")
        if any(len(infos[s_]["tags"]) > 1 for s_ in infos):
            tags.append("reg:two-tags-per-script")
        if len({tuple(infos[s_]["tags"]) for s_ in infos}) < len(infos):
            tags.append("reg:two-scripts-one-tag")
        if any(len({id(x) for x in d.values()} & {id(x) for x in d2.values()}) for a_, d in cap["lookups"].items()
               for b_, d2 in cap["lookups"].items() if a_ < b_):
            tags.append("reg:cross-script-lookup")
    nontriv = bool(cap.get("features")) and bool(gen)
    if err is None:
        und = [k for k in obs["reach"] if k[2] in ("kern", "dist") and [k[0], k[1]] not in (u_ls or [[DFLT, "dflt"]])]
        tags.append("kern-under-undeclared" if und else "kern-all-declared")
    # (1) the real writer's blocks against the model of _registerLookups (+ getScriptLanguageSystems)
    for t, feat in (cap.get("features") or {}).items():
        reqs.append({"op": "register", "in": {"kern": t == "kern", "lookups": klookups, "langsys": u_ls, "langs": None,
                                              "info": kern_in["info"]},
                     "obs": {"err": None, "stmts": block_stmts(feat, ids)}, "tags": ["register-real", "register-real:" + t],
                     "nontrivial": len(klookups) >= 2})
    # (2) final feature file -> ScriptList (feaLib model)
    if f_ls is not None:
        reqs.append({"op": "build", "in": {"program": {"langsys": f_ls, "blocks": f_blocks}, "spec": spec}, "obs": obs,
                     "tags": tags + ["build"], "nontrivial": nontriv})
    # (3) whole pipeline, when the user's blocks do not share a tag with generated ones
    todo_gen = set(cap.get("todo", [])) | {g[0] for g in gen}
    if err is not None or not (user_tags & (todo_gen | {"kern", "dist"})):
        reqs.append({"op": "e2e", "in": spec, "obs": obs, "tags": tags + ["e2e"], "nontrivial": nontriv})
    else:
        reqs[-1]["tags"].append("e2e-skipped(user tag collides)")
    return reqs


def run_register(item):
    from fontTools.feaLib import ast
    from ufo2ft.featureWriters.kernFeatureWriter import KernFeatureWriter
    objs = {}
    lookups = {}
    for script, d in item["lookups"]:
        lookups[script] = {}
        for name, i in d:
            if i not in objs:
                objs[i] = ast.LookupBlock(name)
            lookups[script][name] = objs[i]
    ids = {id(o): i for i, o in objs.items()}
    feature = ast.FeatureBlock(item["feature"])
    langs = {t: list(l) for t, l in item["langs"]}
    try:
        KernFeatureWriter._registerLookups(feature, lookups, langs)
        obs = {"err": None, "stmts": block_stmts(feature, ids)}
    except Exception as e:
        obs = {"err": err_kind(e)}
    lk = [[s, [[n, [i, True]] for n, i in d]] for s, d in item["lookups"]]
    ntags = sum(1 for s in obs.get("stmts", []) if s[0] == "s")
    return {"op": "register", "in": {"kern": item["feature"] == "kern", "lookups": lk, "langsys": None,
                                     "langs": [[_strip(t), [_strip(x) for x in l]] for t, l in item["langs"]],
                                     "info": script_info([s for s, _ in item["lookups"]])},
            "obs": obs, "tags": ["register-syn", "register-syn:" + item["feature"], "register-syn:err:" + str(obs["err"]),
                                 "register-syn:empty" if not obs.get("stmts") else "register-syn:scripts>=1"],
            "nontrivial": ntags >= 2}


def run_addrefs(item):
    from fontTools.feaLib import ast
    from ufo2ft.featureWriters import ast as uast
    objs = [ast.LookupBlock("l%d" % i) for i in item["lookups"]]
    ids = {id(o): i for i, o in zip(item["lookups"], objs)}
    feature = ast.FeatureBlock("test")
    uast.addLookupReferences(feature, objs, item["script"], item["languages"], item["exclude"])
    return {"op": "addrefs", "in": {"lookups": [[i, True] for i in item["lookups"]], "script": item["script"] or "",
                                    "languages": [_strip(x) for x in item["languages"] or []], "exclude": item["exclude"]},
            "obs": block_stmts(feature, ids),
            "tags": ["addrefs", "addrefs:" + ("noscript" if not item["script"] else "exclude" if item["exclude"] else "include")],
            "nontrivial": bool(item["script"])}


def run(case):
    if case["kind"] == "font":
        return run_font(case)
    if case["kind"] == "ds":
        return lib_C20.run_ds(case, glyph_scripts)
    if case["kind"] == "xfont":
        return lib_C20.run_xfont(case, run_font, glyph_scripts)
    if case["kind"] == "merge":
        return [lib_C20.run_merge(it) for it in case["items"]]
    if case["kind"] == "register":
        return [run_register(it) for it in case["items"]]
    return [run_addrefs(it) for it in case["items"]]


def agree(req, rep):
    m, o = rep["model"], req["obs"]
    if req["op"] == "addrefs":
        return m == o
    if req["op"] in ("extrasubs", "classify"):
        return lib_C20.canon_map(m) == o
    if req["op"] == "varpairs":
        return sorted(map(list, m)) == sorted(map(list, o))
    if req["op"] in ("ds", "xkern"):
        return True          # predicate-only streams
    if req["op"] == "merge":
        if m.get("err") is not None or o.get("err") is not None:
            return m.get("err") == o.get("err")
        return lib_C20.canon_buckets(m["buckets"]) == lib_C20.canon_buckets(o["buckets"])
    if m.get("err") is not None or o.get("err") is not None:
        return m.get("err") == o.get("err")
    if req["op"] == "register":
        return m["stmts"] == o["stmts"]
    return m["reach"] == o["reach"]


def classify_failure(res):
    """a failing result is the known shape only if EVERY offending (script, language, kerning feature, missing feature)
    entry computed by the Lean spec on the observed table is of that shape; mixed or other failures -> None (VIOLATION)."""
    if res["req"]["op"] not in ("e2e", "build"):
        return None
    if res["req"]["obs"].get("err") is not None:
        return None
    fails = res["model"].get("fails") or []
    if not fails:
        return None
    kinds = {f[4] for f in fails}      # "A" | "B" | "other" | "lang": anything but A/B is never a known finding
    if kinds == {"A"}:
        return {"registered_by": "kern writer: explicit script statement", "languagesystem_for_script": "absent",
                "missing": "generated feature without script statements (mark/mkmk/abvm/blwm/curs)"}
    if kinds <= {"A", "B"}:
        return {"registered_by": "feaLib: 'script s;' ignored under a single 'languagesystem s dflt;' -> block lands under DFLT",
                "languagesystem_for_script": "absent (DFLT)",
                "missing": "generated feature without script statements (mark/mkmk/abvm/blwm/curs)"}
    return None


def shrink(case):
    if case["kind"] == "ds":
        fd = case["fd"]
        for i in range(len(case["rules"])):
            if len(case["rules"]) > 1:
                c = dict(case); c["rules"] = case["rules"][:i] + case["rules"][i + 1:]
                yield c
        for i in range(len(fd["kerning"])):
            c = dict(case); f = dict(fd); f["kerning"] = fd["kerning"][:i] + fd["kerning"][i + 1:]; c["fd"] = f
            yield c
        if len(case["masters"]) > 2:
            c = dict(case); c["masters"] = case["masters"][:2]; c["axes"] = case["axes"][:1]
            c["rules"] = [dict(r, conds=[["Weight", 600, 700]]) for r in case["rules"]]
            yield c
        for i in range(len(case["rules"])):
            ru = case["rules"][i]
            for j in range(len(ru["subs"])):
                if len(ru["subs"]) > 1:
                    c = dict(case)
                    c["rules"] = case["rules"][:i] + [dict(ru, subs=ru["subs"][:j] + ru["subs"][j + 1:])] + case["rules"][i + 1:]
                    yield c
        return
    if case["kind"] not in ("font", "xfont"):
        for it in case["items"]:
            yield {"kind": case["kind"], "items": [it]}
        return
    fd = case["fd"]
    for i in range(len(fd["glyphs"])):
        g = fd["glyphs"][i]["name"]
        c = dict(case); f = dict(fd)
        f["glyphs"] = fd["glyphs"][:i] + fd["glyphs"][i + 1:]
        f["kerning"] = [k for k in fd["kerning"] if g not in (k[0], k[1])]
        f["groups"] = {k: [m for m in v if m != g] for k, v in fd["groups"].items()}
        if g in (fd["features"] or ""):
            continue
        c["fd"] = f
        yield c
    for i in range(len(fd["kerning"])):
        c = dict(case); f = dict(fd); f["kerning"] = fd["kerning"][:i] + fd["kerning"][i + 1:]; c["fd"] = f
        yield c
    lines = (fd["features"] or "").split("\n")
    for i in range(len(lines)):
        if lines[i].startswith("languagesystem") or lines[i].startswith("feature") and lines[i].rstrip().endswith(";"):
            c = dict(case); f = dict(fd); f["features"] = "\n".join(lines[:i] + lines[i + 1:]); c["fd"] = f
            yield c


LEVEL_TEXT = ("Proved for all inputs (Lean, no size bound) about the model of feaLib's registration logic composed with the model of "
              "the kerning writer's _registerLookups/addLookupReferences/getScriptLanguageSystems: (1) a feature block without "
              "script statements whose tag no other block uses is registered, with its lookups, under every declared language "
              "system (DFLT/dflt when none is declared); (2) generated kern/dist registered under a script's dflt is registered "
              "with the same lookups under every language system declared for that script (no proviso); (3) when DFLT/dflt is "
              "among the default language systems, generated kerning lands only under declared language systems or under "
              "(s, dflt) for a script s the kerning block names; hence (4) C20 holds whenever DFLT dflt is declared (or nothing "
              "is) and every script the kerning writer names is declared; every failure of the model then has the known shape. "
              "The property AS STATED is proved FALSE of the model (decide) on the a/b/acutecomb witness without languagesystem "
              "(DFLT:[kern,mark], latn:[kern]) and on the single-languagesystem Khmer witness (feaLib ignores 'script khmr;'); "
              "both witnesses are replayed on the implementation in every run. Rejected languagesystem lists: model = declarative "
              "well-formedness (proved). Designspace builds (proved for all rule lists / glyph sets): the extraSubstitutions "
              "mapping built by _pre_compile_designspace contains x under g iff SOME rule replaces g by x (every rule, not only "
              "the last: C20_ds_extra_complete / C20_ds_extra); the loop of compile_variable_features (variable font, features "
              "compiled once) yields the same mapping, so on either path the writers receive a mapping satisfying the requirement "
              "(C20_ds_variable_same / C20_ds_extra_paths); after classifyGlyphs' extra_substitutions step every rule alternate "
              "of a member of a script's glyph set is in that set, nothing being lost (C20_ds_alternate_inherits / "
              "C20_ds_classify); these functions are compared with the code on every generated designspace. Cross-script kerning buckets "
              "(kernFeatureWriter.mergeScripts, modelled with its two nested loops; proved for all bucket lists): the merged "
              "buckets are pairwise disjoint - the model's fuel for `while merged`, the number of buckets, always suffices since a "
              "merging pass shortens the list - (C20_merge_disjoint) and every non-empty input bucket key is contained in one merged "
              "bucket (C20_merge_cover), so a script's pairs cannot be re-assigned to another bucket leaving its own lookup empty; "
              "no merged bucket holds a script that no input key has (C20_merge_sound), and the 'Shouldn't happen' AssertionError of the re-assignment loop is "
              "reached exactly when some bucket key is empty, never on non-empty keys of any number (C20_merge_never_asserts / C20_merge_asserts_iff); "
              "whenever it returns, the result has one entry per merged set (the merged keys are distinct: mergeSets_nodup) and the pairs of all result buckets are a permutation of the pairs of all input buckets (C20_merge_pairs); "
              "every non-empty key lies inside the ONE result bucket that holds all its pairs (C20_merge_lands), so mergeScripts meets the whole predicate the correspondence evaluates on the code's output whenever it returns (C20_merge_holds); "
              "the model (buckets and re-assigned pairs) is compared with the code on synthetic dicts in every run. Variable builds "
              "(KernFeatureWriter.getVariableKerningPairs, the collation loop and the glyph/class filter modelled; proved for all "
              "source lists): the pairs lookups are built from contain every kerning pair of every full (non-layer) source, default "
              "or not, whose sides exist, and only such pairs (C20_var_pairs), so a script kerned only in a non-default master "
              "keeps its kerning lookup and script registration; compared with the code on every variable build.")
LEVEL_NOTE = ("The unconditional property is false of the unchanged tree (known finding, two shapes, recognised by "
              "classify_failure from the Lean predicates shapeA/shapeB evaluated on the observed table; any other failing entry - "
              "a declared language system lacking a generated feature, DFLT lacking one while declared, a declared language "
              "losing kerning, a kerning script the font does not support - is a VIOLATION). feaLib's parser and table "
              "compilation are outside the model (the 'build' stream compares the model with the compiled ScriptList for every "
              "generated font); 'required' features, aalt/size, feature variations, contextual mark lookups and languagesystem "
              "statements placed after feature blocks are not modelled. Which scripts the kerning writer detects (script "
              "extensions, GSUB closure, bidi) is an input here (C05's subject); only 'registered script is one the exported "
              "glyphs or the languagesystems support' is checked, through the known-shape delimitation. "
              "Designspace stream: the CONVERSE direction of the property (a language system that is in the compiled GPOS through "
              "a generated mark/mkmk/abvm/blwm/curs feature exposes kern or dist too when kerning acts on glyphs of its script - "
              "Spec.holdsDs) is predicate-only: evaluated by the Lean driver on every master's observed ScriptList (agree = True, "
              "no model of the whole designspace pipeline; the kerning writer's script split is C05's model); any failure there "
              "is a VIOLATION. It counts only pairs whose two glyphs are specific to the script: kerning between common glyphs "
              "(kern_Default) is by design registered only under DFLT and under scripts that have lookups of their own, so a "
              "declared script without own kerning does not get it - not claimed either way here. The same predicate is evaluated "
              "on the variable font built by compileVariableTTF/CFF2 (both the compiled-once and the per-master fallback); before "
              "/repo f968433 the compiled-once path handed the writers no mapping (known_findings: fixed), which this stream "
              "reports as a VIOLATION at function level (writers' mapping) and on the ScriptList. Feature variations (rvrn) and "
              "several variable fonts per designspace (v5 splitting) are not generated. "
              "Cross-script stream: Spec.holdsX (a language system present through a generated mark/mkmk/abvm/blwm/curs feature "
              "exposes kern or dist when a same-direction kerning pair between script-specific glyphs involves a glyph of its script, "
              "also when the script is kerned ONLY against other scripts) is predicate-only: evaluated by the Lean driver on the "
              "observed ScriptList of each generated font (agree = True); the link between mergeScripts' buckets and the compiled "
              "ScriptList (splitKerning, lookup building, removal of empty lookups) is not modelled - the re-assignment half of "
              "mergeScripts is modelled and compared but only holdsMerge (disjoint, input keys and pairs inside one bucket, pairs a "
              "permutation) is evaluated on it, not proved of it. Of the dist-enabled scripts only Nkoo (RTL pool) is generated in this stream, class kerning is not "
              "(both are in the main font stream, with at most one cross-script pair). "
              "Uneven-kerning stream: only the pair universe of getVariableKerningPairs is modelled and proved (values, "
              "quantisation, VariableScalar collapsing, the dropping of all-zero class pairs and the path from pairs to "
              "script-split lookups are not); that a script kerned in SOME master exposes kern/dist in the variable font wherever a "
              "generated mark feature puts it in the ScriptList is predicate-only (Spec.holdsDs on the observed ScriptList, agree = "
              "True). Per-master builds are checked against each master's own pairs: a master without Greek kerning legitimately "
              "has no Greek kern. Sparse (layer) sources and vf-incompat builds with uneven kerning are not generated.")
