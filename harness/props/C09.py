"""C09 - interpolatable compilation keeps compatible masters compatible."""
import lib_C09 as L

ID = "C09"
PROOF_FILES = ["C09", "C09Inv", "C09Names", "C09Reach", "C09Sign", "C09Rel", "C09Two", "C09Inst", "C09Pipe", "C09Overflow"]
THEOREM = ("Ufo2ft.C09.C09_joint / C09_joint_step / C09_decompose / C09_skipExport / C09_flatten / C09_pipeline_otf / "
           "C09_cu2qu_partial / C09_sparse_partial / C09_placeholders / C09_notdef / C09_sign_witness "
           "(+ reverseContour_shape, decomposeGlyph_shape, flattenGlyphComps_shape: the operations act on shapes); pipeline level "
           "(Props/C09Pipe.lean): C09_sparse (holdsSparse of the model's whole pipeline, any Instantiator) / C09_twoByTwo (holdsTwoByTwo, "
           "TrueType pipeline without Instantiator) / C09_pipeline_inst_partial (alike + signStable sources stay alike WITH an Instantiator, "
           "plain configurations) / signStable2_sound, signStable2_complete, C09_signStable_witness / reaches_of_refp")
N = {"quick": 220, "thorough": 4000}
RULE = ("families of 2-4 sources: a random master (line/quadratic/cubic contours on a 1/8 grid, component graphs of depth<=3 with "
        "F2Dot14-exact matrices of both determinant signs) + dyadic perturbations that keep the structure; streams: a component whose "
        "2x2 differs in one master (another matrix of the same determinant sign, or ONE entry changed, or - stream 2x2differs:subquantum, "
        "~30% of the families - float noise BELOW half an F2Dot14 step (2^-16, 2^-17, 2^-15-2^-20) in one entry: 'noise' on an existing "
        "component of one master, 'limit' on a new pure composite 'subq' of a simple glyph whose 2x2 has an entry exactly ON the F2Dot14 "
        "limit (+2 or -2: scale, stretch, shear) in some sources and just beyond it in one or two others, any master incl. the first/default "
        "one, sparse sources getting either variant), a glyph that is mixed in one "
        "master only, a segment that collapses in one master only (coinciding points / retracted handles), a full master lacking a "
        "glyph, a dangling component reference, sparse layers at 1/4, 1/2, 3/4 or -1/2 of a one-axis designspace (default source "
        "anywhere in the source list; each sparse source either a layer of a master UFO or a stand-alone sparse UFO without layerName, "
        "biased to hold a composite whose bases it lacks), a sparse layer without designspace; through InterpolatableTTFCompiler.compile "
        "(= compileInterpolatableTTFs), compileInterpolatableTTFsFromDS and compileInterpolatableOTFsFromDS (optimizeCFF 0/1) x "
        "{flattenComponents, skipExportGlyphs, convertCubics, reverseDirection, a custom DecomposeTransformedComponents filter in "
        "every / some UFO lib, pre or post, with per-UFO include lists} x ufoLib2/defcon. Observed: the glyph sets the compiler hands "
        "to the outline compiler (every point, exactly; incl. '.notdef' and placeholders), the set check_for_nonmatching_components "
        "leaves in needs_decomposition, and the per-glyph structure of every compiled master (glyf flags + component names / CFF "
        "operators), and the glyph pen's overflow decision (a 2x2 entry > 2 or < -2 makes fontTools' TTGlyphPointPen decompose the glyph while "
        "compiling that master) evaluated on the glyph sets handed to the outline compiler (clause penJoint). fonts_to_quadratic is wrapped to record what goes in and out. Families that reproduce one of the four findings "
        "(harness/findings_C09.json) are generated only when the finding is listed in known_findings.json. "
        "non-trivial = some glyph was decomposed, flattened or pruned AND the family has a sparse master that received an "
        "interpolated composite or a placeholder, a 2x2 difference, a one-master mixed glyph, or a converted cubic.")
ASSUMED = ["cu2qu (fonts_to_quadratic, incl. its contour reversal) is external: its output is an input of the model; its contract "
           "'compatible in => compatible out' is measured on every family (info.cu2quContract), not proved",
           "fontMath/varLib interpolation is modelled on ONE axis as piecewise-linear interpolation through the masters that have "
           "the glyph (default master's glyph outside the outermost master of a side); generators keep at most two non-default "
           "sources per side so that double arithmetic is exact",
           "the iteration order of the Python SET of glyph names in every BaseIFilter.__call__ is an input of the model (recorded by "
           "wrapping the sort key getMaxComponentDepth; it matters only for structurally different masters); glyph sets are "
           "compared name-sorted",
           "InterpolatedLayer.__getitem__ (`_get(name) or _interpolate(name)`: a glyph without contours is falsy and gets "
           "re-interpolated) and the Instantiator's Variator cache are modelled as found",
           "fontTools' TTGlyphPointPen (handleOverflowingTransforms: decompose the glyph iff some component entry is > 2 or < -2, clamp "
           "+2, quantise to F2Dot14) is external: its decision rule is transcribed in Model/C09Overflow.lean (penDecomposes) and checked "
           "against the compiled glyf of every family through the 'compiled' clause (a composite in one master, contours in another), "
           "not proved about fontTools",
           "StubGlyph's '.notdef' drawing is an input", "double arithmetic is exact on the generators' dyadic grids (DESIGN section 3)"]


def gen(rng, n, mode):
    allow_sign = L.finding_listed(L.SIGN_FINDING)
    allow_stub = L.finding_listed(L.STUB_FINDING)
    allow_overflow = L.finding_listed(L.OVERFLOW_FINDING)
    allow_closing = L.finding_listed(L.CLOSING_FINDING)
    for i in range(n):
        yield L.gen_family(rng, mode, allow_sign=allow_sign, allow_stub=allow_stub, allow_overflow=allow_overflow,
                           allow_closing=allow_closing)


def _bysort(ms):
    return None if ms is None else [sorted(m, key=lambda g: g["name"]) for m in ms]


def run(case):
    inp, obs, needs = L.run_family(case)
    src = inp["masters"]
    names_src = [set(g["name"] for g in m) for m in src]
    tags = [case["path"], case["lib"], "flat:%s" % inp["flatten"], "skip:%s" % bool(inp["skip"]),
            "cc:%s" % inp["convertCubics"], "rev:%s" % inp["reverse"], "err:" + str(obs.get("err")),
            "sources:%d" % len(src)] + list(case["gentags"]) + (["optimizeCFF:%d" % case.get("optimizeCFF", 0)] if case["path"] == "otfds" else [])
    cm = [c for c in inp["custom"]]
    if any(c is not None for c in cm):
        tags.append("custom:" + ("all" if all(c is not None for c in cm) else "some") + (":pre" if [c for c in cm if c][0]["pre"] else ":post"))
    changed = False
    special = any(t.startswith("2x2differs") or t == "mixed-in-one-master" for t in case["gentags"])
    if obs.get("err") is None:
        fin = obs["final"]
        for m0, m1, ns in zip(src, fin, names_src):
            d0 = {g["name"]: g for g in m0}
            for g in m1:
                if g["name"] in d0 and (len(g["comps"]) != len(d0[g["name"]]["comps"]) or
                                        [c[0] for c in g["comps"]] != [c[0] for c in d0[g["name"]]["comps"]]):
                    changed = True
                if g["name"] not in ns and g["name"] != ".notdef":
                    if g["width"] == "65535" and not g["contours"] and not g["comps"]:
                        tags.append("placeholder"); special = True
                    else:
                        tags.append("ensured"); special = True
        if obs.get("pre") is not None and any(p[2] == "curve" for m in obs["pre"] for g in m for c in g["contours"] for p in c):
            tags.append("cubic-converted"); special = True
    tags = sorted(set(tags))
    reqs = [{"op": "family", "in": inp, "obs": obs, "tags": tags, "nontrivial": bool(changed and special)}]
    if needs is not None:
        before, names = needs
        reqs.append({"op": "needs", "in": {"masters": before}, "obs": names,
                     "tags": ["needs:" + ("nonempty" if names else "empty")], "nontrivial": bool(names)})
    return reqs


def agree(req, rep):
    m, o = rep["model"], req["obs"]
    # which pipeline-level theorems apply to this family (decidable hypotheses evaluated by the driver): shown in the evidence
    hyp = (rep.get("info") or {}).get("hyp") if isinstance(rep.get("info"), dict) else None
    if hyp and not any(t.startswith("thm:") for t in req.get("tags", [])):
        for k in ("C09_sparse", "C09_twoByTwo", "C09_pipeline_inst_partial"):
            req["tags"].append("thm:%s:%s" % (k, "applies" if hyp.get(k) else "hypotheses-not-met"))
        for k in ("signStable", "signsEqualNonzero", "alike", "cu2quOk", "cu2quAlike", "heightsBelow", "fullMastersFull", "notdefOk", "ordersCover", "orderTopo"):
            if not hyp.get(k):
                req["tags"].append("hyp-false:" + k)
    if req["op"] == "needs":
        return m == o
    if m.get("err") is not None or o.get("err") is not None:
        return (m.get("err") is not None) == (o.get("err") is not None)
    return _bysort(m["final"]) == _bysort(o["final"]) and _bysort(m["pre"]) == _bysort(o["pre"])


def shrink(case):
    import copy
    nm = len(case["masters"])
    names = [g["name"] for g in case["masters"][0]]
    used = {c[0] for m in case["masters"] for g in m for c in g["components"]} | \
           {c[0] for s in case["sources"] for g in s.get("glyphs", []) for c in g["components"]}
    # drop a sparse source
    for i, s in enumerate(case["sources"]):
        if s["layer"] is not None:
            c = copy.deepcopy(case); del c["sources"][i]; del c["custom"][i]
            yield c
    # drop an unreferenced glyph everywhere
    for n in reversed(names):
        if n in used:
            continue
        c = copy.deepcopy(case)
        c["masters"] = [[g for g in m if g["name"] != n] or m for m in c["masters"]]
        for s in c["sources"]:
            if "glyphs" in s:
                s["glyphs"] = [g for g in s["glyphs"] if g["name"] != n] or s["glyphs"]
        c["skip"] = [x for x in c["skip"] if x != n]
        yield c
    for key in ("flatten",):
        if case[key]:
            c = copy.deepcopy(case); c[key] = False
            yield c
    if case["skip"]:
        c = copy.deepcopy(case); c["skip"] = []
        yield c
    if any(x is not None for x in case["custom"]):
        c = copy.deepcopy(case); c["custom"] = [None] * len(c["custom"])
        yield c
    # drop the last full master when no source refers to it
    if nm > 2 and not any(s["font"] == nm - 1 and s["layer"] is not None for s in case["sources"]):
        c = copy.deepcopy(case)
        idx = [i for i, s in enumerate(c["sources"]) if s["font"] == nm - 1]
        if len(idx) == 1 and c["sources"][idx[0]]["loc"] != 0:
            del c["sources"][idx[0]]; del c["custom"][idx[0]]; del c["masters"][nm - 1]
            yield c
    # drop a contour (same index in every master)
    for gi, g in enumerate(case["masters"][0]):
        if len(g["contours"]) > 1 and all(len(m[gi]["contours"]) == len(g["contours"]) for m in case["masters"] if len(m) > gi and m[gi]["name"] == g["name"]):
            if all(len(m) > gi and m[gi]["name"] == g["name"] for m in case["masters"]) and not any(
                    x["name"] == g["name"] for s in case["sources"] for x in s.get("glyphs", [])):
                c = copy.deepcopy(case)
                for m in c["masters"]:
                    m[gi]["contours"] = m[gi]["contours"][:-1]
                yield c


def classify_failure(res):
    """the one known shape: compatible sources, and every glyph whose shape differs between the output masters reaches a
    component whose determinant sign is not the same in all masters, or changes along the interpolation between them at the
    location of a sparse source (a component flipped in one master only)."""
    r = res["req"]
    if r["op"] != "family" or r["obs"].get("err") is not None:
        return None
    info = res.get("info") or {}
    from fractions import Fraction as F
    # (a) plain path: a sparse layer without '.notdef' got the auto-generated box
    if info.get("srcCompatible") and set(info.get("failed", [])) <= {"compat", "compiled"} and info.get("failed") and \
            set(info.get("bad", [])) <= {".notdef"} and set(info.get("badCompiled", [])) <= {".notdef"} and not r["in"]["ds"] and \
            any(sp and not any(g["name"] == ".notdef" for g in m) for sp, m in zip(r["in"]["sparse"], r["in"]["masters"])) and \
            any(any(g["name"] == ".notdef" for g in m) for m in r["in"]["masters"]):
        return {"shape": "sparse layer without '.notdef' compiled without designspace gets the auto-generated '.notdef'"}
    if info.get("srcCompatible") and info.get("failed") == ["compiled"]:
        fin, comp = r["obs"]["final"], r["obs"]["compiled"]
        bc = info.get("badCompiled", [])
        # (b) a composite with a 2x2 entry beyond F2Dot14 is decomposed by TTGlyphPointPen; in a sparse master against a placeholder
        def overflowing(n, m):
            return any(g["name"] == n and g["comps"] and not g["contours"] and
                       any(abs(F(v)) > 2 for c in g["comps"] for v in c[1][:4]) for g in m)
        def has_placeholder_base(n, m):
            ph = {g["name"] for g in m if g["width"] == "65535" and not g["contours"] and not g["comps"]}
            return any(g["name"] == n and any(c[0] in ph for c in g["comps"]) for g in m)
        # (c) CFF: a closing line segment of zero length in some masters only (first point == last point, both on-curve)
        def closes_flat(n, m):
            return any(g["name"] == n and any(c and c[0][2] == "line" and c[-1][2] is not None and c[0][:2] == c[-1][:2]
                                              for c in g["contours"]) for g in m)
        if bc and r["in"]["path"] == "otf" and all(
                len({closes_flat(n, m) for m in fin if any(g["name"] == n for g in m)}) == 2 for n in bc):
            return {"shape": "closing line segment has zero length in some masters only (CFF path)"}
        if bc and r["in"]["path"] == "ttf" and all(
                all(overflowing(n, m) for m in fin if any(g["name"] == n for g in m)) and any(has_placeholder_base(n, m) for m in fin)
                for n in bc):
            return {"shape": "composite with a 2x2 entry beyond F2Dot14 is decomposed at compile time; in a sparse master its base is an empty placeholder"}
        return None
    if not info.get("srcCompatible") or not set(info.get("failed", [])) <= {"compat", "compiled"} or not info.get("failed"):
        return None
    src = r["in"]["masters"]
    locs = [F(x) for x in r["in"]["locs"]] if r["in"]["ds"] else [None] * len(src)

    def sign(t):
        d = F(t[0]) * F(t[3]) - F(t[1]) * F(t[2])
        return (d > 0) - (d < 0)
    flipped = set()       # glyph names with a component whose determinant sign is not constant over the family
    graph = {}
    for m in src:
        for g in m:
            graph.setdefault(g["name"], set()).update(c[0] for c in g["comps"])
    for n in graph:
        have = [(l, g) for m, l in zip(src, locs) for g in m if g["name"] == n]
        rows = [[sign(c[1]) for c in g["comps"]] for _, g in have]
        if any(row != rows[0] for row in rows):
            flipped.add(n); continue
        # sparse sources that lack the glyph get an interpolated instance: signs along the segments between masters
        for (la, ga) in have:
            for (lb, gb) in have:
                if la is None or la == lb or len(ga["comps"]) != len(gb["comps"]):
                    continue
                for t in [x for x, m in zip(locs, src) if not any(g["name"] == n for g in m) and min(la, lb) < x < max(la, lb)]:
                    s_ = (t - la) / (lb - la)
                    for ca, cb, s0 in zip(ga["comps"], gb["comps"], rows[0]):
                        mt = [F(ca[1][i]) + s_ * (F(cb[1][i]) - F(ca[1][i])) for i in range(4)]
                        if sign(mt) != s0:
                            flipped.add(n)

    def reach(n, seen=()):
        return n in flipped or any(reach(b, seen + (n,)) for b in graph.get(n, ()) if b not in seen)
    bad = info.get("bad", [])
    if flipped and bad and all(reach(b) for b in bad):
        return {"shape": "a component's determinant sign is not the same in all masters or changes between them"}
    return None


LEVEL_TEXT = ("Proved (Lean, all inputs): needs_decomposition is a set of NAMES (mixed in any master, or 2x2 differing between masters) and "
              "one interpolatable decompose step touches a glyph in all masters or in none; contour reversal, component decomposition "
              "(nested or not, any include set) and component flattening act on SHAPES - the point-type sequences / component names of the "
              "result depend only on those in the glyph set and on the SIGN of each component determinant - hence masters with equal shapes "
              "and equal determinant signs stay alike (and point-compatible) through skipExportGlyphs, uniform custom filters, joint "
              "decomposition, per-UFO reversal and joint flattening, i.e. through the whole CFF and TrueType pre-processors without "
              "Instantiator; a witness shows that the sign hypothesis cannot be dropped and that check_for_nonmatching_components does not "
              "provide it. PIPELINE LEVEL (Props/C09Pipe.lean + C09Inv/Names/Reach/Rel/Two/Inst/Sign): (1) C09_sparse - for the model's WHOLE "
              "interpolatable compilation (skip, custom filters interpolatable or one by one, joint decomposition, cu2qu/reversal, flattening, "
              "makeMissingRequiredGlyphs; TrueType or CFF; with or without Instantiator, whatever its Variator cache holds; any set-iteration "
              "orders) every master's final glyph set is '.notdef' + its layer's glyphs (minus skipped) + for a sparse source only composites "
              "tied to them by chains of component references of the sources + empty placeholders for referenced bases, nothing skipped "
              "survives: holdsSparse holds of the model output (the fuel-bounded `reaches` of the spec is shown complete by a pigeonhole "
              "argument); of the interpolation only 'keeps the first operand's name, component names among the first operand's, advance "
              "between the operands'' is used. (2) C09_twoByTwo - TrueType pipeline without Instantiator: sources agreeing on component lists "
              "come out with equal 2x2 on every remaining component (a name outside needs_decomposition has matching 2x2 and is nowhere mixed; "
              "a name inside is decomposed in every master; flattening and custom decomposition respect agreement on names + 2x2). (3) "
              "C09_pipeline_inst_partial - WITH an Instantiator: sources (full or sparse) that are alike and signStable (each component's "
              "determinant has the same non-zero sign in every two sources AND on the whole segment between the two matrices - decidable: "
              "mixDet >= 0 on the sign's side or mixDet^2 < 4 det det; proved sound AND complete) stay alike, hence point-compatible, through "
              "the CFF pre-processor and the TrueType pre-processor (cu2qu contract measured) in the plain configurations (no skipExportGlyphs, "
              "no custom filters, no flattenComponents: one decomposing run, starting from the sources) provided that run's depth-sorted "
              "iteration order is topological (orderTopo, decidable: no glyph is visited after one of its bases - ufo2ft's depth key, "
              "computed in the first glyph set that has the glyph, does not guarantee it; false in ~3% of the generated designspace "
              "families); a kernel-checked witness (mirror-x / mirror-y: zero matrix half-way) shows that 'equal non-zero signs' alone is "
              "not enough. (4) Props/C09Overflow.lean: C09_penJoint - under the hypotheses of C09_twoByTwo the decision of fontTools' glyph pen to "
              "decompose a glyph at compile time (some 2x2 entry beyond +-2, taken per master) is the same in every master, because it is a "
              "function of the 2x2 alone (penJoint_of_twoByTwo: equal 2x2 => equal decision, any glyph sets); C09_f2dot14_witness (kernel-"
              "checked): 2 and 2+2^-16 have the same floatToFixed(.,14) but only the second overflows, so comparing the 2x2 at F2Dot14 "
              "precision in check_for_nonmatching_components would NOT give jointness. The driver evaluates "
              "every (decidable) hypothesis on every generated family: see the tags thm:<name>:applies / hyp-false:<hypothesis> in the "
              "distribution. The executable model is compared point for point with the glyph sets of the real compilers; compatibility, "
              "jointness, equal 2x2, the pen's overflow decision and the sparse-master predicate are evaluated on the real output (glyph sets "
              "and compiled glyf/CFF).")
LEVEL_NOTE = ("Trusted: Lean kernel + standard axioms; correspondence harness. Partial: cu2qu's joint-conversion contract is a hypothesis "
              "of C09_cu2qu_partial / C09_pipeline_inst_partial (measured on every family: info.cu2quContract, hyp cu2quAlike) and 'cu2qu keeps "
              "keys, names, advances, components' a hypothesis of C09_sparse / C09_twoByTwo (measured: hyp cu2quOk); C09_twoByTwo and holdsJoint "
              "are not proved for builds with an Instantiator, and C09_pipeline_inst_partial neither beyond the first decomposing run nor for "
              "non-topological iteration orders: once a base has been modified before its user is visited, a master that has the base sees "
              "the modified glyph while a sparse master interpolates a stale (cached) or fresh Variator, so the views no longer agree glyph by "
              "glyph; and matrices composed by an earlier filter need not be sign-stable (signStable is not closed under composition). "
              "The pen's overflow rule (penDecomposes) is a transcription of fontTools code, observed only (predicate holdsPenJoint on the "
              "observed glyph sets + the compiled glyf structure); C09_penJoint is not proved for builds with an Instantiator. "
              "The model follows /repo fix 61a81a2 (the Instantiator reads the pre-processor's copies from the start). Four finding families are registered as proposals in harness/findings_C09.json.")
