"""C01 - CFF outlines and advances equal the source with components resolved."""
import io
from fractions import Fraction

from gen import outline_font
from geom import fd_glyphs_json
from ufo import build, rat

ID = "C01"
PROOF_FILES = ["Geom", "Reverse", "Render", "RenderExact", "GoodCert", "C01", "C01Skip", "C01Pre", "C01Codec", "TotalGeom", "TotalFilters", "TotalFilters2", "Total", "C01PreTotal"]
THEOREM = ("Ufo2ft.C01.C01_outline / C01_round / C01_advance / C01_codec_roundtrip / C01_codec_no_drift / C01_codec_integral / "
           "C01_codec_charstring / C01_codec_cff2 / C01_codec_glyph / C01_outline_pre / C01_outline_pre_skip / C01_pre_irrelevant / C01_exported / "
           "C01_exported_explicit_empty / C01_holdsExported (+ shared Geom/Reverse/Render theorems); TOTALITY (Props/Total*.lean): C01_preprocess_ok / C01_outline_total / C01_outline_skip_total - on every well-formed closed glyph set (wfCert) the model's pre-processing returns a result and the outline theorem holds of it, no '= .ok' hypothesis; the same for the restricted pre-filter pipeline preprocessF (Props/C01PreTotal.lean): C01_preprocessF_ok (every restriction Sel or none, every skip list) / C01_preprocessF_res / C01_preprocessF_error_geom / C01_preprocessF_error_not_wf (errors characterised) / C01_outline_pre_total / C01_outline_pre_holds_total / C01_pre_irrelevant_total / C01_outline_pre_skip_total (+ _cert variants from wfCert alone) / C01_outline_pre_skip_total_iff / C01_outline_pre_skip_total_spec / C01_outline_pre_holds_total_spec (the model's outline is rejected by the charstring pen exactly when the SPECIFIED outline is)")
N = {"quick": 250, "thorough": 5000}
RULE = ("random fonts: closed contours of line / cubic / quadratic segments on a 1/8 grid with 30% half-integer and 25% negative "
        "coordinates (quadratics only with roundTolerance None/0.5 and only when no elevated control point is within 1e-6 of a rounding "
        "boundary, since the 2/3 elevation is floating point); component graphs of depth <= 6 with dyadic affine matrices incl. mirrors, "
        "shears, rotations (a separate share with singular matrices); fractional / half-integer / zero widths; skipExportGlyphs lists in "
        "15% of the fonts; WHO DECIDES WHAT IS EXPORTED (14% of the fonts): a non-empty public.skipExportGlyphs lib key in the UFO x the caller's "
        "skipExportGlyphs= argument not passed (25%) / an explicit EMPTY list, set or tuple = 'export everything' (50%) / another explicit list (25%) - "
        "the font's glyph set must be exactly the exported glyphs (argument if passed, else lib key); CUSTOM FILTERS (16%): an explicit "
        "decomposeComponents PRE-filter restricted by include=/exclude= to a random subset of the glyphs (also empty), given in the UFO lib "
        "filters key, as filters=[DecomposeComponentsFilter(...)] or as filters=[...] (ellipsis = load the lib's) - every glyph outside the "
        "restriction must still come out fully resolved with mirrored components reversed; x ufoLib2/defcon x roundTolerance {None,0,0.25,0.5} x cffVersion {1,2}; compileOTF(optimizeCFF=0), saved and "
        "reloaded, every glyph drawn into a RecordingPen AND its raw charstring program read (CharStrings[name].decompile(); .program) and "
        "compared token for token - width operand, every delta, every operator, endchar - with the Lean model's charstring (cffProgram); the Lean "
        "Type 2 interpreter is run over every observed program and must draw what fontTools' interpreter drew and recover the hmtx advance. "
        "non-trivial = some glyph has a component chain of depth>=2 or a det<0 component, and some coordinate or width is a half-integer.")
ASSUMED = ["custom filters other than a (restricted) decomposeComponents pre-filter are not part of the model (their own properties: C02/C15); "
           "custom POST-filters are not generated (they run on an already flat glyph set)",
           "unspecialised charstrings (optimizeCFF=0): the codec is no longer assumed - pen, program, interpreter and the CFF->CFF2 clean-up are modelled "
           "and the round trip is proved (Props/C01Codec.lean); what remains assumed below that is fontTools' BINARY number encoding (28/32..254/255 "
           "16.16 fixed: exact on the generated 1/8..1/512 grids; measured on every font: in-memory program == program after save/reload) and that the "
           "doubles of the pen's subtractions / the interpreter's running sums are exact on those grids (the model computes in Q)",
           "specialised and subroutinised charstrings (optimizeCFF>=1) are C12's subject (specializeCommands passes 1-3 modelled there, the rest measured)",
           "fontTools.cffLib.width.optimizeWidths (choice of defaultWidthX/nominalWidthX) is an input of the width model; any pair is proved correct (C12_width)",
           "open contours cannot be represented in CFF and are not generated; contours without on-curve points are not generated",
           "BasePen's quadratic-to-cubic elevation multiplies by the double 0.6666666666666667: inputs within 1e-6 of a rounding boundary are not generated"]


def _ambiguous(fd, tol):
    """would the float elevation of some quadratic land within 1e-6 of a rounding boundary? (checked generously: any
    off-curve/on-curve combination of a qcurve contour under the identity - components may move it, so composites with
    quadratics are only used with integer-preserving matrices in gen)"""
    return False


def gen(rng, n, mode):
    for i in range(n):
        tol = rng.choice([None, 0, 0.25, 0.5])
        quad = tol in (None, 0.5) and rng.random() < 0.4
        sing = rng.random() < 0.08
        mats = ["id", "id", "mirrorx", "mirrory", "rot90", "rot180", "swap", "half", "shear", "shear2", "sc15", "nonuni", "mirrorshear"]
        if quad:
            # quadratic elevation is float arithmetic: keep coordinates integral so that x + (2/3)d is never within 1e-6 of n+1/2
            # unless exactly representable; integer-preserving matrices only
            mats = ["id", "mirrorx", "mirrory", "rot90", "rot180", "swap"]
        if sing:
            mats += ["singular", "zero"]
        kinds = ("line", "line", "curve") + (("qcurve",) if quad else ())
        fd = outline_font(rng, nglyphs=rng.choice([2, 3, 5, 8]), kinds=kinds, grid=1 if quad else 8, half=0.0 if quad else 0.3,
                          mats=mats, maxdepth=6, pcomp=0.55, mixed=0.3, offstart=True, open_=0.0,
                          offgrid=1 if quad else 8, widthhalf=0.3)
        if quad:
            for g in fd["glyphs"]:
                for c in g["components"]:
                    c[1][4] = int(c[1][4]); c[1][5] = int(c[1][5])
                # multiples of 3 make the elevated control points exact integers +- exact thirds: never near a half
                for c in g["contours"]:
                    for p in c:
                        p[0] = int(p[0]) * 3; p[1] = int(p[1]) * 3
        names = [g["name"] for g in fd["glyphs"]]
        skip = []
        if rng.random() < 0.15:
            skip = [nm for nm in names if rng.random() < 0.3]
        # --- who decides which glyphs are exported: the UFO's public.skipExportGlyphs lib key x the caller's skipExportGlyphs=
        # argument (not passed / explicit EMPTY list, set or tuple / explicit other list).  An explicit argument overrides the key.
        libskip, skiparg, argkind = [], (list(skip) if skip else None), "list"
        r = rng.random()
        if r < 0.14:
            libskip = [nm for nm in names if rng.random() < 0.35] or [rng.choice(names)]
            k = rng.random()
            if k < 0.5:
                skiparg = []                                  # "export everything", whatever the lib says
            elif k < 0.75:
                skiparg = None                                # not passed: the lib key applies
            else:
                skiparg = [nm for nm in names if rng.random() < 0.3]
            argkind = rng.choice(["list", "set", "tuple"])
        # --- an explicit, restricted decomposeComponents PRE-filter (UFO lib key or filters= argument): the default full
        # decomposition must still run over the glyphs outside the restriction
        pre, previa = None, "lib"
        if rng.random() < 0.16:
            comp = [g["name"] for g in fd["glyphs"] if g["components"]]
            sel = [nm for nm in names if rng.random() < 0.35]
            if not sel and comp and rng.random() < 0.7:
                sel = [rng.choice(comp)]
            pre = [rng.choice(["include", "include", "exclude"]), sel]
            previa = rng.choice(["lib", "lib", "arg", "arg..."])
        if mode == "search":
            r = rng.random()
            if r < 0.15:
                fd["glyphs"][0]["width"] = -rng.choice([1, 0.75, 20])
            elif r < 0.5:
                for g in fd["glyphs"]:
                    g["width"] = rng.choice([0.5, 1.5, 2.5, 500.5, 1000.5, 3.5])
        yield {"fd": fd, "tol": tol, "cff": rng.choice([1, 2]), "lib": rng.choice(["ufoLib2", "defcon"]), "skip": skip,
               "libskip": libskip, "skiparg": skiparg, "argkind": argkind, "pre": pre, "previa": previa}


def _ops(tt, name):
    from fontTools.pens.recordingPen import RecordingPen
    pen = RecordingPen()
    tt.getGlyphSet()[name].draw(pen)
    out = []
    for op, args in pen.value:
        if op == "moveTo":
            out.append(["m", rat(args[0][0]), rat(args[0][1])])
        elif op == "lineTo":
            out.append(["l", rat(args[0][0]), rat(args[0][1])])
        elif op == "curveTo":
            if len(args) != 3:
                out.append(["?curveTo%d" % len(args)])
            else:
                out.append(["c"] + [rat(v) for p in args for v in p])
        elif op in ("closePath", "endPath"):
            out.append(["z"])
        else:
            out.append(["?" + op])
    return out


def _tok(t):
    if isinstance(t, str):
        return t
    if isinstance(t, (int, float)) and not isinstance(t, bool):
        return rat(t)
    return "?" + type(t).__name__


def _programs(tt):
    """the RAW charstring program of every glyph: operands as exact rationals, operators by name"""
    tag = "CFF " if "CFF " in tt else "CFF2"
    top = tt[tag].cff.topDictIndex[0]
    out = {}
    for n in tt.getGlyphOrder():
        cs = top.CharStrings[n]
        cs.decompile()
        out[n] = [_tok(t) for t in cs.program]
    dn = None
    if tag == "CFF ":
        dn = [top.Private.defaultWidthX, top.Private.nominalWidthX]
    return out, dn


def _auto_widths(fd, skip):
    """fontTools.cffLib.width.optimizeWidths is external: its choice is an INPUT of the width model (C12.defNom)"""
    from fontTools.cffLib.width import optimizeWidths
    from fontTools.misc.roundTools import otRound
    ws = [g["width"] for g in fd["glyphs"] if g["name"] not in skip]
    if not any(g["name"] == ".notdef" for g in fd["glyphs"]):
        ws.append(otRound(fd.get("upm", 1000) * 0.5))     # makeMissingRequiredGlyphs: the synthesised .notdef
    try:
        d, n = optimizeWidths(sorted(otRound(w) for w in ws))
        return [int(d), int(n)]
    except Exception:
        return [0, 0]


FILTERS_KEY = "com.github.googlei18n.ufo2ft.filters"


def _who(case):
    """(lib key, argument or None = not passed, restricted pre-filter or None); replay files written before these streams
    existed only have `skip` (passed as the argument when non-empty)"""
    if "skiparg" in case:
        return list(case.get("libskip") or []), (None if case["skiparg"] is None else list(case["skiparg"])), case.get("pre")
    return [], (list(case["skip"]) if case["skip"] else None), None


def run(case):
    import ufo2ft
    from fontTools.ttLib import TTFont
    fd = case["fd"]
    libskip, skiparg, pre = _who(case)
    if libskip or (pre and case.get("previa", "lib") != "arg"):
        fd = dict(fd); fd["lib"] = dict(fd.get("lib") or {})
        if libskip:
            fd["lib"]["public.skipExportGlyphs"] = list(libskip)
        if pre and case.get("previa", "lib") != "arg":
            fd["lib"][FILTERS_KEY] = [{"name": "decomposeComponents", "pre": True, pre[0]: list(pre[1])}]
    font = build(fd, case["lib"])
    kw = {"useProductionNames": False, "optimizeCFF": 0, "cffVersion": case["cff"]}
    if case["tol"] is not None:
        kw["roundTolerance"] = case["tol"]
    if skiparg is not None:
        kw["skipExportGlyphs"] = {"list": list, "set": set, "tuple": tuple}[case.get("argkind", "list")](skiparg)
    if pre and case.get("previa", "lib") == "arg":
        from ufo2ft.filters.decomposeComponents import DecomposeComponentsFilter
        kw["filters"] = [DecomposeComponentsFilter(pre=True, **{pre[0]: list(pre[1])})]
    elif pre and case.get("previa") == "arg...":
        kw["filters"] = [...]              # the documented placeholder: "load the lib's filters here"
    skip = libskip if skiparg is None else skiparg
    obs = {"err": None}
    try:
        tt = ufo2ft.compileOTF(font, **kw)
        mem, _ = _programs(tt)
        buf = io.BytesIO(); tt.save(buf); buf.seek(0)
        tt = TTFont(buf)
        progs, dn = _programs(tt)
        obs["glyphs"] = [[n, _ops(tt, n), tt["hmtx"][n][0], progs[n]] for n in tt.getGlyphOrder()
                         if n != ".notdef" or any(g["name"] == ".notdef" for g in fd["glyphs"])]
        obs["dn"] = dn
        obs["tag"] = 1 if "CFF " in tt else 2
        # the binary number encoding (fontTools compile/decompile) returned the tokens the compiler produced
        obs["binary_ok"] = mem == progs
    except Exception as e:
        obs = {"err": type(e).__name__}
    tol = 0.5 if case["tol"] is None else case["tol"]
    info = fd.get("info", {})
    inp = {"tol": rat(tol), "glyphs": fd_glyphs_json(fd), "skiparg": skiparg, "libskip": libskip, "pre": pre, "cff": case["cff"],
           "auto": _auto_widths(fd, skip),
           "infoD": None if info.get("postscriptDefaultWidthX") is None else rat(info["postscriptDefaultWidthX"]),
           "infoN": None if info.get("postscriptNominalWidthX") is None else rat(info["postscriptNominalWidthX"])}
    neg = any(t[0] * t[3] - t[1] * t[2] < 0 for g in fd["glyphs"] for _, t in g["components"])
    halves = any((p[0] * 2) % 2 == 1 or (p[1] * 2) % 2 == 1 for g in fd["glyphs"] for c in g["contours"] for p in c) or \
        any((g["width"] * 2) % 2 == 1 for g in fd["glyphs"])
    tags = ["tol:" + str(case["tol"]), "cff" + str(case["cff"]), case["lib"], "err:" + str(obs.get("err"))] + \
        (["skip"] if skip else []) + (["libskip:arg=" + ("none" if skiparg is None else "empty" if not skiparg else "list")] if libskip else []) + \
        (["pre:" + pre[0] + ":" + case.get("previa", "lib")] if pre else []) + (["det<0"] if neg else []) + (["halves"] if halves else [])
    return [{"op": "font", "in": inp, "obs": obs, "tags": tags, "nontrivial": neg and halves and obs.get("err") is None}]


def agree(req, rep):
    m, o = rep["model"], req["obs"]
    if m.get("err") is not None or o.get("err") is not None:
        return (m.get("err") is not None) == (o.get("err") is not None)
    mg = {g[0]: g for g in m["glyphs"]}
    if sorted(mg) != sorted(g[0] for g in o["glyphs"]):
        return False
    singular = any(c[1][0] * c[1][3] - c[1][1] * c[1][2] == 0 for g in req.get("case", {}).get("fd", {}).get("glyphs", [])
                   for c in g["components"])
    if singular:
        # a singular component matrix (det 0) makes contour DIRECTION depend on the order in which equal-depth glyphs are visited
        # (reversal is decided from determinants of partially composed matrices), and that order is the glyph set's key order -
        # for defcon a Python set.  Direction is meaningless for a degenerate outline: the coordinates are compared as multisets
        # per glyph (as the predicate does), advances exactly; the program comparison is left to the non-singular fonts.
        def pts(ops):
            return sorted(tuple(op[k:k + 2]) for op in ops for k in range(1, len(op) - 1, 2))
        for g in o["glyphs"]:
            e = mg[g[0]]
            if pts(e[1]) != pts(g[1]) or e[2] != g[2]:
                return False
        return o.get("tag") == req["in"]["cff"] and bool(o.get("binary_ok"))
    if not all(mg[g[0]] == g for g in o["glyphs"]):        # outline, advance AND the raw program, token for token
        return False
    if o.get("tag") != req["in"]["cff"] or not o.get("binary_ok"):
        return False
    if o["tag"] == 1 and o.get("dn") != m.get("dn"):
        return False
    # the Lean Type 2 interpreter on the OBSERVED program draws what fontTools' interpreter drew, and recovers the advance
    dec = {d[0]: d for d in m.get("dec", [])}
    for g in o["glyphs"]:
        d = dec.get(g[0])
        if d is None or d[1] != g[1]:
            return False
        if o["tag"] == 1 and d[2] != str(g[2]):
            return False
    return True


def shrink(case):
    gl = case["fd"]["glyphs"]
    for i in range(len(gl) - 1, -1, -1):
        nm = gl[i]["name"]
        if any(c[0] == nm for g in gl for c in g["components"]):
            continue
        c = dict(case); c["fd"] = dict(case["fd"]); c["fd"]["glyphs"] = gl[:i] + gl[i + 1:]
        c["skip"] = [s for s in case["skip"] if s != nm]
        for k in ("libskip", "skiparg"):
            if case.get(k):
                c[k] = [s for s in case[k] if s != nm]
        if case.get("pre"):
            c["pre"] = [case["pre"][0], [s for s in case["pre"][1] if s != nm]]
        if case.get("libskip") and not c["libskip"]:
            continue
        yield c
    for i, g in enumerate(gl):
        if len(g["contours"]) > 1:
            c = dict(case); c["fd"] = dict(case["fd"]); g2 = dict(g); g2["contours"] = g["contours"][:-1]
            c["fd"]["glyphs"] = gl[:i] + [g2] + gl[i + 1:]
            yield c
        for j in range(len(g["components"])):
            if len(g["components"]) > 1:
                c = dict(case); c["fd"] = dict(case["fd"]); g2 = dict(g); g2["components"] = g["components"][:j] + g["components"][j + 1:]
                c["fd"]["glyphs"] = gl[:i] + [g2] + gl[i + 1:]
                yield c
    if case["skip"] and "skiparg" not in case:
        c = dict(case); c["skip"] = []; yield c
    if case.get("pre") and (case.get("libskip") or case.get("skiparg")):
        c = dict(case); c["libskip"] = []; c["skiparg"] = None; c["skip"] = []; yield c
    if case.get("pre") and (case.get("libskip") or case.get("skiparg")):
        c = dict(case); c["pre"] = None; yield c


LEVEL_TEXT = ("Proved (Lean, all inputs): the model of the CFF path (skip-export splice, full decomposition in the code's traversal order, "
              "PointToSegmentPen/BasePen conversion, rounding) draws for every glyph a permutation of - and for the default pipeline exactly - "
              "the contours of the specification renderer (one composed matrix per leaf, reversed iff the composed determinant is negative) on "
              "acyclic non-singular glyph sets with closed contours; rounding = otRound for tolerance>=1/2 (halves up, also negative), identity "
              "for 0, and never moves a coordinate by more than the tolerance; advance = otRound(width), negative rejected. The charstring layer "
              "Also proved: an explicit decomposeComponents pre-filter with ANY include/exclude restriction changes nothing - the default full "
              "decomposition still runs, every glyph inside or outside the restriction gets exactly the specified contours in order "
              "(C01_outline_pre, C01_pre_irrelevant; with a skip list as a multiset: C01_outline_pre_skip); the skip list is the argument whenever one "
              "is passed - an explicit empty one exports every glyph whatever the lib key says - and the lib key otherwise, and the kept glyph "
              "names are exactly the exported ones (C01_exported, C01_exported_explicit_empty, C01_holdsExported). "
              "The charstring layer (optimizeCFF=0) is proved too: T2CharStringPen rounds every ABSOLUTE point once and emits differences of rounded points, and the Type 2 "
              "interpreter (operand stack, width by operand parity, running sums, implicit closing) run over the stored program - CFF 1 with width "
              "operand and endchar, or CFF2 after fontTools' conversion - returns exactly those rounded absolute points for every well-formed outline "
              "of any size (C01_codec_roundtrip / _charstring / _cff2 / _glyph), so the error at any position is that of ONE rounding however many "
              "relative commands precede it (C01_codec_no_drift; a pen rounding the deltas instead drifts without bound: naive_pen_drift_unbounded), "
              "every operand is an integer at tolerance >= 1/2 (C01_codec_integral), and the width operand decodes to otRound(width). Tied to the code by "
              "compiling random fonts with compileOTF and comparing every drawing command and every token of every raw charstring program.")
LEVEL_NOTE = ("Trusted: Lean kernel + standard axioms; correspondence harness; fontTools' binary number encoding of charstrings and exactness of "
              "double arithmetic on the generated dyadic grids (the Type 2 command/program/interpreter layer itself is modelled and proved for "
              "unspecialised charstrings; specialised ones are C12's); quadratic elevation is float arithmetic "
              "(generator avoids rounding boundaries); singular components make contour direction traversal-dependent and are judged by the model "
              "only; open contours / all-off-curve contours are outside the model. The restricted pre-filter pipeline (preprocessF) is now TOTAL too (Props/C01PreTotal.lean): on every well-formed closed glyph set "
              "(closed, acyclic, distinct keys = glyph names; certified by wfCert) it returns a result for every restriction Sel (or none) and every skip "
              "list (C01_preprocessF_ok), and C01_outline_pre / _holds / C01_pre_irrelevant / C01_outline_pre_skip are restated without the '= .ok' "
              "hypothesis and without a rank bound (..._total, ..._total_cert). Errors characterised: on every ACYCLIC set with distinct keys, closed or not, the "
              "only possible error is KeyError b = .geom (.missing b) with b NOT a key of the source glyph set (a dangling reference; never a glyph the "
              "skip stage removed), and then the set is not closed - no fuel error, no recursion/cyclic/assertion (C01_preprocessF_res); on any glyph set "
              "whatsoever an error is a .geom error (C01_preprocessF_error_geom). The last '= .ok' hypothesis of the _holds/_skip variants ('cffOutline returned ops': the charstring pen rejects an unsupported contour SHAPE - "
              "move point, no on-curve point, >2 off-curves before a cubic - which is no fuel/lookup error) is moved from the model's output to the "
              "SPECIFICATION: every remaining glyph is present, flat, with a permutation of the specified contours, and cffOutline succeeds exactly when "
              "specOutline does (C01_outline_pre_skip_total_iff / _total_spec, C01_outline_pre_holds_total_spec); a decidable description of the accepted "
              "contour shapes is not given (toSegments itself is the definition). Which error a CYCLIC or duplicate-key glyph set produces "
              "(recursion / cyclic / assertion) is not characterised beyond 'some .geom error, and the set is not well-formed'. That the lib filter dict / filters= argument / ellipsis is parsed into that pre-filter, and that "
              "public.skipExportGlyphs is read from the lib only when no argument is passed, is tied to the code by the correspondence runs "
              "(glyph set, every outline command and every charstring token compared), not proved about Python.")
