"""C05 - generated kerning applies the UFO kerning value to every pair, once."""
import io
import unicodedata as pyud

from ufo import build, rat

ID = "C05"
PROOF_FILES = ["C05Order", "C05Quant", "C05Groups", "C05Ufo", "C05Merge", "C05Split", "C05Part", "C05Reg", "C05Together", "C05",
               "C05ApplyLookup", "C05ApplyMap", "C05ApplyProg", "C05ApplyBuckets", "C05ApplyParts", "C05ApplyCells", "C05ApplyRules",
               "C05ApplyDet", "C05ApplyNames", "C05Apply", "C05ApplyEx"]
THEOREM = ("Ufo2ft.C05.C05_end_to_end_lang (applyKernLang d (program ...) tag lang g1 g2 = quantize (ufoKern ...) for every language declared for "
           "the tag) / namesOK_of_wf (distinct buckets get distinct lookup names: proved, no longer a hypothesis) / "
           "Ufo2ft.C05.C05_end_to_end (applyKern (program ...) tag g1 g2 = quantize (ufoKern ...): the GPOS application semantics on the emitted "
           "program gives the rounded UFO value, as placement too in right-to-left scripts), C05_marks_never_in_base_lookup; stages: "
           "Ufo2ft.C05.C05_precedence / C05_ufo_value / C05_ufo_some / C05_ufo_none (first match of the sorted rules = rounded UFO value), "
           "sortPairs_sorted, firstMatch_minimal, quantize_near, mergeFix_apart / mergedSets_unique / mergeScripts_perm, "
           "split_count / split_where / split_sound, partition_sound / partition_disjoint / partition_complete, splitKerning_together, "
           "C05_register / C05_dflt")
N = {"quick": 300, "thorough": 6000}
RULE = ("random kerning fonts: repertoire drawn from Latin, Cyrillic, Greek, Arabic, Hebrew, Devanagari, kana, digits, Arabic-Indic digits, "
        "punctuation, combining marks and unencoded alternates reached through generated GSUB rules; random disjoint public.kern1/kern2 "
        "partitions (a small malformed stream with overlapping groups); kerning keys at all four precedence levels with exception chains, "
        "zero / negative / half-integer values, references to missing glyphs and groups; with/without GDEF mark classes and languagesystem "
        "statements; quantization in {1,2,5,10}; ignoreMarks on/off. (a) structural: the writer's emitted lookups, rules and script/language "
        "registrations (read from the feature-file AST) vs the Lean model; (b) semantic: the compiled GPOS evaluated by an independent PairPos "
        "interpreter for EVERY ordered glyph pair under every script tag vs UFO kerning semantics (lookupKerningValue re-stated in Lean). "
        "non-trivial = at least two scripts of different direction or an exception chain of depth>=2 is present, and some pair is non-zero. "
        "Second stream (op agree2, max(40, n/4) more fonts): single-direction fonts - only left-to-right scripts, or only right-to-left "
        "ones, plus digits / punctuation / a combining mark / alternates, same group and kerning generators - compiled with BOTH shipped "
        "writers (kernFeatureWriter and kernFeatureWriter2); for every script tag of the font (a tag missing from the ScriptList falls back "
        "to DFLT, as in a shaper) the adjustment applied to every ordered glyph pair of one script run must be the same in the two fonts; "
        "non-trivial there = both fonts kern something. "
        "Third request per font of stream 1 (op apply): the Lean GPOS application semantics `applyKern` (Spec/C05Apply.lean: feaLib's PairPos "
        "layout - glyph pairs and enum pairs first-definition-wins in format 1, class pairs in format-2 subtables with ClassDefBuilder.canAdd "
        "breaks, a format-2 subtable matches once the first glyph is covered -, lookups in emission order, adjustments add, rule-less "
        "lookups are not built, unregistered tags fall back to DFLT) evaluated on the MODEL's program for every script tag (those of the "
        "compiled ScriptList, those the writer registered, DFLT, and one tag registered nowhere) and every ordered glyph pair, against the "
        "table the independent interpreter gpos.pair_adjust reads from the COMPILED font: any difference is a correspondence failure. The "
        "driver also evaluates the decidable hypothesis bundle `e2eHyp` of C05_end_to_end for every (script, tag, g1, g2) and reports how "
        "many triples it covers (evidence: main_theorem_hypotheses; info.e2e_met) - and, redundantly, that the conclusion holds on them. "
        "Fourth stream (tag reuse, max(40, n/5) more fonts, ops kern + apply as in stream 1): ONE KernFeatureWriter instance first compiles "
        "another generated font and then the font under test (a caller passing one featureWriters=[...] list to several compiles). The "
        "font under test mostly has Arabic letters plus glyphs of multi-script code points (Script_Extensions with several scripts and "
        "no Zyyy/Zinh: tatweel U+0640, U+061F, U+060C, U+061B, harakat, Arabic-Indic digits) kerned against each other; the first font "
        "mostly has no right-to-left letters (60 %) or no script-specific glyph at all (15 %) and shares the second font's neutral / "
        "multi-script glyphs. The same UFO-semantics predicate and model comparison are applied to the SECOND font, and additionally the "
        "glyph classification (ctx.glyphScripts) and emitted program of the reused instance must equal those of a fresh instance "
        "(correspondence). Tags reuse:* show the distribution (first font ltr-only / no-script-glyphs / has-rtl-letters; number of shared "
        "multi-script glyphs; an RTL pair of two shared multi-script glyphs present).")
ASSUMED = ["Unicode script / script-extension / bidi data and the GSUB closure are inputs (the model takes the implementation's classification; "
           "the property predicate uses an independent one computed from the stdlib unicodedata and the generated GSUB rules)",
           "feaLib compiles the emitted statements as written (specific pairs before class pairs; first definition wins) - since op apply: "
           "tied on every generated font (the Lean application semantics on the model's program == the interpreter on the compiled font)",
           "C05_end_to_end: lookup flags (IgnoreMarks / mark filtering set) only decide which glyphs BETWEEN two glyphs are skipped; for an "
           "adjacent pair they do not change which rule applies (C05_marks_never_in_base_lookup: no mark glyph is ever in a rule of an "
           "IgnoreMarks lookup); C05_end_to_end_lang covers every language declared for the tag (langs input = the writer's "
           "feaLanguagesByScript), over a Lean LangSys-selection semantics (own LangSys, else the script's default, else DFLT; LangSys "
           "records created by other features without kerning are inputs `Declared`) tied to the compiled font per (tag, language)",
           "C05_end_to_end hypotheses (decidable, evaluated by the driver): wfKern, ctxOK (Common is the one 'Auto' script; all scripts of "
           "a glyph have one direction), both glyphs of the script or neutral, the script's feature is written (featOn), distinct lookup "
           "names follow from script names of the ISO-15924 shape Xxxx (scriptsOK; namesOK_of_wf over the character-list lookupName), and cellClean = the pair is outside the three known bidi-cell shapes (stated on the determining cell only)",
           "kernFeatureWriter2 (the second shipped writer) is not modelled: it is compared end-to-end with writer 1 on single-direction fonts "
           "(equality of the applied adjustments, evaluated by the Lean driver)",
           "history independence of a writer instance (what it emits for a font does not depend on the fonts it compiled before) is not a "
           "Lean theorem - the model is a pure function of one font's context, which the harness reads from the running writer -: it is "
           "observed by stream reuse (predicate on the second font's compiled GPOS + equality with a fresh instance), one preceding font only",
           "wfKern (valid UFO 3 groups, distinct group names and kerning keys, no glyph named like a kerning group) for the UFO-value theorem; "
           "glyph pairs both in the glyph set"]

POOL = {
    "latn": [("A", 0x41), ("V", 0x56), ("T", 0x54), ("o", 0x6F), ("a", 0x61), ("e", 0x65)],
    "cyrl": [("Ve-cy", 0x412), ("a-cy", 0x430), ("Te-cy", 0x422)],
    "grek": [("Alpha", 0x391), ("alpha", 0x3B1)],
    "arab": [("alef-ar", 0x627), ("beh-ar", 0x628), ("lam-ar", 0x644), ("reh-ar", 0x631)],
    "hebr": [("bet-hb", 0x5D1), ("alef-hb", 0x5D0)],
    "deva": [("ka-deva", 0x915), ("ga-deva", 0x917)],
    "kana": [("a-hira", 0x3042), ("ka-kata", 0x30AB)],
    "digit": [("zero", 0x30), ("one", 0x31)],
    "ardigit": [("zero-ar", 0x660)],
    "punct": [("period", 0x2E), ("hyphen", 0x2D), ("comma", 0x2C), ("space", 0x20), ("parenleft", 0x28)],
    # cedillacomb / lowlinecomb: Script_Extensions == {Zinh} exactly (inherited, no script of their own)
    "mark": [("acutecomb", 0x301), ("fatha-ar", 0x64E), ("cedillacomb", 0x327), ("lowlinecomb", 0x332)],
}
# code points whose Script_Extensions hold SEVERAL scripts and neither Zyyy nor Zinh (Script property Common): how the writer
# classifies them depends on the font's known scripts (knownScriptsPerCodepoint = scx & (knownScripts | DFLT_SCRIPTS)); used by the
# "reuse" stream only (stream 1 / agree2 draw from the families above exactly as before)
MULTI = [("tatweel-ar", 0x640), ("question-ar", 0x61F), ("comma-ar", 0x60C), ("semicolon-ar", 0x61B)]
SHARED_FAMS = ("digit", "ardigit", "punct", "mark")
MARKNAMES = ("acutecomb", "fatha-ar", "cedillacomb", "lowlinecomb")
LANGSYS = {"latn": "latn", "cyrl": "cyrl", "grek": "grek", "arab": "arab", "hebr": "hebr", "deva": "dev2", "kana": "kana"}


def gen1(rng, n, mode, single=False):
    for i in range(n):
        if single:
            rtl = rng.random() < 0.5
            fams = rng.sample(RTL_FAMS, rng.choice([1, 2])) if rtl else rng.sample(LTR_FAMS, rng.choice([1, 2, 2, 3]))
            # Arabic-Indic digits carry the (right-to-left) Arabic script: they would make a left-to-right font bidirectional
            fams += [f for f in (["digit", "ardigit", "punct", "mark"] if rtl else ["digit", "punct", "mark"]) if rng.random() < 0.55]
        else:
            fams = rng.sample(["latn", "cyrl", "grek", "arab", "hebr", "deva", "kana"], rng.choice([1, 1, 2, 2, 3]))
            fams += [f for f in ["digit", "ardigit", "punct", "mark"] if rng.random() < 0.55]
        glyphs = []
        for f in fams:
            pool = POOL[f]
            if single and f == "mark":
                # a combining mark of the font's own direction only (fatha-ar has right-to-left script extensions)
                pool = [m for m in pool if (m[0] == "fatha-ar") == rtl or m[0] in ("cedillacomb", "lowlinecomb")]
            for nm, cp in rng.sample(pool, rng.randrange(1, len(pool) + 1)):
                glyphs.append([nm, cp])
        alts = []
        for nm, cp in list(glyphs):
            if rng.random() < 0.2:
                alts.append([nm + ".alt", nm])
        names = [g[0] for g in glyphs] + [a[0] for a in alts]
        # groups
        groups = []
        for side, pfx in ((1, "public.kern1."), (2, "public.kern2.")):
            avail = [x for x in names if rng.random() < 0.7]
            rng.shuffle(avail)
            k = 0
            while avail and k < 5:
                size = rng.choice([1, 2, 2, 3, 4])
                members, avail = avail[:size], avail[size:]
                if rng.random() < 0.15:
                    members = members + ["missing.glyph"]
                groups.append([pfx + "g%d" % k, members])
                k += 1
            if (mode == "search" and rng.random() < 0.2) or rng.random() < 0.03:
                if groups and names:
                    groups.append([pfx + "overlap", [rng.choice(names), rng.choice(names)]])
        g1 = [g[0] for g in groups if g[0].startswith("public.kern1.")]
        g2 = [g[0] for g in groups if g[0].startswith("public.kern2.")]
        kerning = []
        seen = set()
        vals = [0, -10, -20, 15, 7, 12.5, -12.5, 2.5, -7.5, 33, -50, 100.5]
        for _ in range(rng.choice([1, 3, 6, 10, 16])):
            s1 = rng.choice(names + g1 + g1 + ["missing.glyph"]) if g1 else rng.choice(names)
            s2 = rng.choice(names + g2 + g2 + ["public.kern2.nothere"]) if g2 else rng.choice(names)
            if (s1, s2) in seen:
                continue
            seen.add((s1, s2))
            kerning.append([s1, s2, rng.choice(vals)])
        # exception chains: for some class-class pair add glyph-level exceptions
        for s1, s2, v in list(kerning):
            if s1.startswith("public.kern1.") and s2.startswith("public.kern2.") and rng.random() < 0.5:
                m1 = [m for g in groups if g[0] == s1 for m in g[1] if m in names]
                m2 = [m for g in groups if g[0] == s2 for m in g[1] if m in names]
                if m1 and m2:
                    for cand in ((rng.choice(m1), s2), (s1, rng.choice(m2)), (rng.choice(m1), rng.choice(m2))):
                        if cand not in seen and rng.random() < 0.6:
                            seen.add(cand); kerning.append([cand[0], cand[1], rng.choice(vals)])
        langsys = []
        r = rng.random()
        if r < 0.5:
            langsys = [["DFLT", "dflt"]] + [[LANGSYS[f], "dflt"] for f in fams if f in LANGSYS and rng.random() < 0.8]
            if rng.random() < 0.3 and any(l[0] == "latn" for l in langsys):
                langsys.append(["latn", "TRK "])
            # a script with two OpenType tags, each with its own non-default languages
            if any(l[0] == "dev2" for l in langsys) and rng.random() < 0.6:
                langsys += [x for x in (["dev2", "MAR "], ["deva", "dflt"], ["deva", "NEP "]) if rng.random() < 0.8]
            if any(l[0] == "arab" for l in langsys) and rng.random() < 0.3:
                langsys.append(["arab", "URD "])
        marks = [g[0] for g in glyphs if g[0] in MARKNAMES]
        yield {"glyphs": glyphs, "alts": alts, "groups": groups, "kerning": kerning, "langsys": langsys,
               "gdef": bool(marks) and rng.random() < 0.7, "marks": marks, "q": rng.choice([1, 1, 2, 5, 10]),
               "ignoreMarks": rng.random() < 0.8, "lib": rng.choice(["ufoLib2", "defcon"]), "markWidth": rng.choice([0, 0, 200])}


LTR_FAMS = ["latn", "cyrl", "grek", "deva", "kana"]
RTL_FAMS = ["arab", "hebr"]


def gen_chain(rng):
    """several scripts tied into one bucket only through a CHAIN of mixed-script classes ((s1,s2), (s2,s3), (s3,s4) ...) given in
    random order: mergeScripts needs more than one sweep to find the fixed point"""
    fams = rng.sample(["latn", "cyrl", "grek", "deva", "kana"], rng.choice([3, 4, 4, 5]))
    glyphs = [list(g) for f in fams for g in rng.sample(POOL[f], min(2, len(POOL[f])))]
    glyphs += [list(g) for g in rng.sample(POOL["punct"], 2)]
    mine_ = {f: [g[0] for g in glyphs if g in [list(x) for x in POOL[f]]] for f in fams}
    # link k = {first glyph of script k, second glyph of script k+1}: no glyph is in two classes (valid UFO groups)
    links = [[mine_[fams[k]][0], mine_[fams[k + 1]][1]] for k in range(len(fams) - 1)]
    rng.shuffle(links)
    groups = [["public.kern1.c%d" % k, l] for k, l in enumerate(links)]
    punct = [g[0] for g in glyphs if g in [list(x) for x in POOL["punct"]]]
    vals = [-10, -20, 15, 7, 12.5, -7.5, 33, -50]
    kerning = [[g[0], rng.choice(punct), rng.choice(vals)] for g in groups]
    # every script also has kerning of its own (so that it is registered whatever happens to the mixed classes)
    for f in fams:
        mine = [g[0] for g in glyphs if g in [list(x) for x in POOL[f]]]
        kerning.append([mine[0], mine[-1], rng.choice(vals)])
    own = [g[0] for g in glyphs]
    for _ in range(rng.choice([2, 4, 6])):
        a, b = rng.choice(own), rng.choice(own)
        if not any(k[0] == a and k[1] == b for k in kerning):
            kerning.append([a, b, rng.choice(vals)])
    rng.shuffle(kerning)
    return {"glyphs": glyphs, "alts": [], "groups": groups, "kerning": kerning, "langsys": [], "gdef": False, "marks": [],
            "q": rng.choice([1, 1, 5]), "ignoreMarks": True, "lib": rng.choice(["ufoLib2", "defcon"]), "markWidth": 0}


def gen_reuse(rng, mode):
    """stream "reuse": ONE KernFeatureWriter instance compiles a first font and then the font under test (as a caller does who
    passes one featureWriters=[...] list to the compiles of a family).  The property is about the second font alone: whatever
    the writer instance did before, the second font's kerning must satisfy it - and (correspondence) the emitted program must be
    the one a fresh writer emits.  Second font: a stream-1 font, mostly with Arabic letters plus glyphs of multi-script code points
    (MULTI, harakat, Arabic-Indic digits) kerned against each other; first font: another stream-1 font, mostly WITHOUT right-to-left
    letters (or with no script-specific glyph at all), that shares the second font's neutral / multi-script glyphs."""
    second = next(gen1(rng, 1, mode))
    if rng.random() < 0.75:
        have = {g[0] for g in second["glyphs"]}
        if not have & {g[0] for g in POOL["arab"]}:
            second["glyphs"] += [list(g) for g in rng.sample(POOL["arab"], rng.choice([1, 2]))]
        second["glyphs"] += [list(g) for g in rng.sample(MULTI, rng.choice([2, 2, 3, 4]))]
        have = {g[0] for g in second["glyphs"]}
        multi = [g[0] for g in MULTI if g[0] in have] + [x for x in ("fatha-ar",) if x in have]
        seen = {(k[0], k[1]) for k in second["kerning"]}
        for _ in range(rng.choice([1, 2, 3, 4])):
            k = (rng.choice(multi), rng.choice(multi + [g[0] for g in POOL["arab"] if g[0] in have]))
            if rng.random() < 0.3:
                k = (k[1], k[0])
            if k not in seen:
                seen.add(k); second["kerning"].append([k[0], k[1], rng.choice([-30, 22, -10, 15, 40, -50])])
    first = next(gen1(rng, 1, mode))
    r = rng.random()
    if r < 0.6:       # no right-to-left letters in the first font
        drop = {g[0] for f in RTL_FAMS for g in POOL[f]}
    elif r < 0.75:    # no script-specific glyph at all: the first font has no known scripts
        drop = {g[0] for f in LANGSYS for g in POOL[f]}
        first["langsys"] = []
    else:
        drop = set()
    first["glyphs"] = [g for g in first["glyphs"] if g[0] not in drop]
    first["alts"] = [a for a in first["alts"] if a[1] not in drop]
    fam_shared = {g[0] for f in SHARED_FAMS for g in POOL[f]} | {g[0] for g in MULTI}
    have = {g[0] for g in first["glyphs"]}
    for g in second["glyphs"]:
        if g[0] in fam_shared and g[0] not in have and rng.random() < 0.85:
            first["glyphs"].append(list(g)); have.add(g[0])
    if not first["glyphs"]:
        first["glyphs"] = [list(POOL["punct"][0])]
    first["marks"] = [g[0] for g in first["glyphs"] if g[0] in MARKNAMES]
    first["gdef"] = first["gdef"] and bool(first["marks"])
    if len(first["glyphs"]) >= 2 and rng.random() < 0.7:
        a, b = rng.sample([g[0] for g in first["glyphs"]], 2)
        if not any(k[0] == a and k[1] == b for k in first["kerning"]):
            first["kerning"].append([a, b, -25])
    second["stream"] = "reuse"
    second["first"] = first
    return second


def gen(rng, n, mode):
    for _ in range(max(20, n // 6)):
        yield gen_chain(rng)
    yield from _gen(rng, n, mode)
    # last, so that the streams above see exactly the random numbers they saw before this stream existed
    for _ in range(max(40, n // 5)):
        yield gen_reuse(rng, mode)


def _gen(rng, n, mode):
    """stream 1 (unchanged): `n` mixed-script fonts for the model/UFO-semantics check; then stream 2: single-direction fonts
    (only left-to-right scripts, or only right-to-left ones, plus neutral glyphs) compiled with both shipped kern writers."""
    yield from gen1(rng, n, mode)
    for case in gen1(rng, max(40, n // 4), mode, single=True):
        case["stream"] = "agree2"
        yield case


def _fea(case):
    t = "".join("languagesystem %s %s;\n" % (s, l) for s, l in case["langsys"])
    if case["alts"]:
        t += "feature ss01 {\n" + "".join("  sub %s by %s;\n" % (b, a) for a, b in case["alts"]) + "} ss01;\n"
    if case.get("langsys") and case.get("cpsp", True):
        # a hand-written positioning feature: every declared language system then has its own LangSys record in GPOS, so a
        # generated feature missing from one of them is really missing for that language
        t += "feature cpsp {\n  pos %s <3 0 6 0>;\n} cpsp;\n" % case["glyphs"][0][0]
    if case["gdef"]:
        bases = [g[0] for g in case["glyphs"] if g[0] not in case["marks"]] + [a[0] for a in case["alts"]]
        t += "table GDEF {\n  GlyphClassDef [%s], , [%s], ;\n} GDEF;\n" % (" ".join(bases), " ".join(case["marks"]))
    return t


def _program(feaFile):
    from fontTools.feaLib import ast
    lookups, feats = [], {}
    for st in feaFile.statements:
        if isinstance(st, ast.LookupBlock) and st.name.startswith("kern_"):
            rules, flag = [], False
            for s in st.statements:
                if isinstance(s, ast.LookupFlagStatement):
                    flag = True
                elif isinstance(s, ast.PairPosStatement):
                    def side(g):
                        if isinstance(g, ast.GlyphName):
                            return [str(g.glyph)], False
                        return sorted(str(x) for x in g.glyphSet()), True
                    a, ac = side(s.glyphs1); b, bc = side(s.glyphs2)
                    vr = s.valuerecord1
                    rules.append([a, b, ac, bc, bool(s.enumerated), rat(vr.xAdvance), vr.xPlacement is not None])
            lookups.append([st.name, flag, rules])
        elif isinstance(st, ast.FeatureBlock) and st.name in ("kern", "dist"):
            regs, cur = [], None
            for s in st.statements:
                if isinstance(s, ast.ScriptStatement):
                    cur = [s.script, [], []]; regs.append(cur)
                elif isinstance(s, ast.LanguageStatement):
                    cur[1].append(s.language)
                elif isinstance(s, ast.LookupReferenceStatement):
                    cur[2].append(str(s.lookup.name))
            feats[st.name] = regs
    return {"lookups": lookups, "kern": feats.get("kern", []), "dist": feats.get("dist", [])}


def _font_desc(case):
    return {"glyphs": [{"name": nm, "width": (case["markWidth"] if nm in case["marks"] else 500), "unicodes": [cp],
                        "contours": [[[0, 0, "line"], [100, 0, "line"], [50, 80, "line"]]]} for nm, cp in case["glyphs"]] +
            [{"name": a, "width": 510, "unicodes": [], "contours": [[[0, 0, "line"], [90, 0, "line"], [50, 70, "line"]]]} for a, _ in case["alts"]],
            "groups": {g[0]: g[1] for g in case["groups"]}, "kerning": case["kerning"], "features": _fea(case)}


def _indep(case):
    """independent classification from Unicode data: names, glyph -> script extensions, glyph -> bidi, script -> direction"""
    from fontTools import unicodedata as ftud
    names = [g[0] for g in case["glyphs"]] + [a[0] for a in case["alts"]]
    base = {a: b for a, b in case["alts"]}
    cps = {nm: cp for nm, cp in case["glyphs"]}
    iscripts, ibidi, scripts, prop = [], [], set(), {}
    for nm in names:
        cp = cps.get(nm, cps.get(base.get(nm)))
        se = sorted({("Hrkt" if s in ("Hira", "Kana") else s) for s in ftud.script_extension(chr(cp))})
        iscripts.append([nm, se]); scripts.update(se)
        b = pyud.bidirectional(chr(cp))
        ibidi.append([nm, "R" if b in ("R", "AL") else ("L" if b in ("L", "EN", "AN") else "")])
        prop[nm] = ftud.script(chr(cp))
    idir = [[s, "RTL" if ftud.script_horizontal_direction(s, "LTR") == "RTL" else "LTR"] for s in sorted(scripts)]
    tagScript = sorted([t, s] for s in scripts if s not in ("Zyyy", "Zinh") for t in ftud.ot_tags_from_script(s))
    return names, iscripts, ibidi, idir, tagScript, prop


def run_agree2(case):
    """stream 2: the same single-direction font through both shipped kern writers; what a shaper applies to every glyph pair
    of one script run (both glyphs in the script or neutral) under every script tag of the font must be the same.
    Shaper semantics: a script tag missing from the GPOS ScriptList falls back to DFLT."""
    import ufo2ft
    from fontTools.ttLib import TTFont
    from ufo2ft.featureWriters.kernFeatureWriter import KernFeatureWriter as W1
    from ufo2ft.featureWriters.kernFeatureWriter2 import KernFeatureWriter as W2
    import gpos
    names, iscripts, ibidi, idir, tagScript, prop = _indep(case)
    sc = dict((g, set(s)) for g, s in iscripts)

    def inscript(s, g):
        return bool(sc[g] & {"Zyyy", "Zinh"}) or s in sc[g]

    obs = {"err": None}
    tables = []
    for W in (W1, W2):
        font = build(_font_desc(case), case["lib"])
        applied = []
        try:
            tt = ufo2ft.compileTTF(font, useProductionNames=False,
                                   featureWriters=[W(quantization=case["q"], ignoreMarks=case["ignoreMarks"])])
            buf = io.BytesIO(); tt.save(buf); buf.seek(0)
            tt = TTFont(buf)
        except Exception as e:
            obs["err"] = "%s:%s" % (W.__module__.rsplit(".", 1)[-1], type(e).__name__)
            tables.append([]); continue
        if "GPOS" in tt:
            sf = gpos.script_features(tt)
            order = tt.getGlyphOrder()
            obs.setdefault("kernTags", []).append(sorted(t for t in sf if any(f in ("kern", "dist") for l in sf[t].values() for f, _ in l)))
            for tag, s in tagScript:
                lk = gpos.lookups_for(tt, tag if tag in sf else "DFLT", "dflt", {"kern", "dist"})
                if lk is None:
                    continue
                ent = []
                for g1 in names:
                    for g2 in names:
                        if g1 in order and g2 in order and inscript(s, g1) and inscript(s, g2):
                            a = gpos.pair_adjust(tt, lk, g1, g2)
                            if a[0] or a[1] or a[2] or a[3]:
                                ent.append([g1, g2, rat(a[0]), rat(a[1])] if not (a[2] or a[3]) else [g1, g2, "999999", "999999"])
                if ent:
                    applied.append([tag, ent])
        tables.append(applied)
    obs["applied1"], obs["applied2"] = tables
    dirs = {d for _, d in idir}
    inp = {"glyphs": names, "groups": case["groups"], "kerning": [[a, b, rat(v)] for a, b, v in case["kerning"]], "q": rat(case["q"]),
           "ignoreMarks": case["ignoreMarks"], "marks": case["marks"] if case["gdef"] else [],
           "indep": {"scripts": iscripts, "bidi": ibidi, "dir": idir, "scriptProperty": sorted(prop.items())}, "tagScript": tagScript}
    tags = ["agree2", "agree2:" + ("RTL" if "RTL" in dirs else "LTR"), "err:" + str(obs["err"])] + (["agree2:bidir"] if len(dirs) > 1 else [])
    return [{"op": "agree2", "in": inp, "obs": obs, "tags": tags, "nontrivial": bool(tables[0]) and bool(tables[1])}]


def run(case):
    if case.get("stream") == "agree2":
        return run_agree2(case)
    import ufo2ft
    from fontTools import unicodedata as ftud
    from fontTools.ttLib import TTFont
    from ufo2ft.featureWriters import kernFeatureWriter as kfw
    import gpos
    fd = {"glyphs": [{"name": nm, "width": (case["markWidth"] if nm in case["marks"] else 500), "unicodes": [cp],
                      "contours": [[[0, 0, "line"], [100, 0, "line"], [50, 80, "line"]]]} for nm, cp in case["glyphs"]] +
          [{"name": a, "width": 510, "unicodes": [], "contours": [[[0, 0, "line"], [90, 0, "line"], [50, 70, "line"]]]} for a, _ in case["alts"]],
          "groups": {g[0]: g[1] for g in case["groups"]}, "kerning": case["kerning"], "features": _fea(case)}
    font = build(fd, case["lib"])
    rec = {}

    class Rec(kfw.KernFeatureWriter):
        def _write(self):
            ctx = self.context
            scripts = set(s for v in ctx.glyphScripts.values() for s in v) | {"Zyyy", "Zinh"}
            rec["ctx"] = {
                "glyphs": list(ctx.glyphSet.keys()),
                "marks": None if ctx.gdefClasses.mark is None else sorted(ctx.gdefClasses.mark),
                "glyphScripts": sorted([g, sorted(s)] for g, s in ctx.glyphScripts.items()),
                "bidi": {"R": sorted(ctx.bidiGlyphs.get("R", [])), "L": sorted(ctx.bidiGlyphs.get("L", []))},
                "scriptDir": sorted([s, kfw.script_direction(s)] for s in scripts),
                "distScripts": sorted(s for s in scripts if s in kfw.DIST_ENABLED_SCRIPTS),
                "otTags": sorted([s, list(ftud.ot_tags_from_script(s))] for s in scripts),
                "langs": sorted([t, list(l)] for t, l in ctx.feaLanguagesByScript.items()),
                "todo": sorted(ctx.todo),
                "spacing": bool(self._filterSpacingMarks(set(ctx.gdefClasses.mark or []) & set(ctx.glyphSet.keys())))}
            r = super()._write()
            rec["program"] = _program(ctx.feaFile)
            return r

    obs = {"err": None}
    writer = Rec(quantization=case["q"], ignoreMarks=case["ignoreMarks"])
    fresh = None
    if case.get("first"):
        # what a FRESH writer instance emits for this font (correspondence: the reused writer must emit the same program)
        try:
            ufo2ft.compileTTF(build(fd, case["lib"]), useProductionNames=False,
                              featureWriters=[Rec(quantization=case["q"], ignoreMarks=case["ignoreMarks"])])
            fresh = [rec.get("ctx", {}).get("glyphScripts", []), rec.get("program", {"lookups": [], "kern": [], "dist": []})]
        except Exception as e:
            fresh = ["err", type(e).__name__]
        rec.clear()
        # the same writer instance compiles the first font ... (an error there is the first font's business)
        try:
            ufo2ft.compileTTF(build(_font_desc(case["first"]), case["first"]["lib"]), useProductionNames=False, featureWriters=[writer])
        except Exception:
            pass
        rec.clear()
    try:
        tt = ufo2ft.compileTTF(font, useProductionNames=False, featureWriters=[writer])
        buf = io.BytesIO(); tt.save(buf); buf.seek(0)
        tt = TTFont(buf)
    except Exception as e:
        obs = {"err": type(e).__name__}
    names = [g[0] for g in case["glyphs"]] + [a[0] for a in case["alts"]]
    if "ctx" not in rec:
        # the writer had nothing to do (no usable kerning): the model must produce an empty program
        from fontTools import unicodedata as ftud2
        rec["ctx"] = {"glyphs": names, "marks": None, "glyphScripts": [], "bidi": {"R": [], "L": []}, "scriptDir": [], "distScripts": [],
                      "otTags": [], "langs": [], "todo": ["dist", "kern"], "spacing": False}
        rec["program"] = {"lookups": [], "kern": [], "dist": []}
        rec["skipped"] = True
    if "program" not in rec:
        rec["program"] = {"lookups": [], "kern": [], "dist": []}
    # independent classification
    base = {a: b for a, b in case["alts"]}
    cps = {nm: cp for nm, cp in case["glyphs"]}
    iscripts, ibidi, scripts = [], [], set()
    for nm in names:
        cp = cps.get(nm, cps.get(base.get(nm)))
        se = sorted({("Hrkt" if s in ("Hira", "Kana") else s) for s in ftud.script_extension(chr(cp))})
        iscripts.append([nm, se]); scripts.update(se)
        b = pyud.bidirectional(chr(cp))
        ibidi.append([nm, "R" if b in ("R", "AL") else ("L" if b in ("L", "EN", "AN") else "")])
    idir = [[s, "RTL" if ftud.script_horizontal_direction(s, "LTR") == "RTL" else "LTR"] for s in sorted(scripts)]
    tagScript = sorted([t, s] for s in scripts if s not in ("Zyyy", "Zinh") for t in ftud.ot_tags_from_script(s))
    applied = []
    if obs["err"] is None and "GPOS" in tt:
        sf = gpos.script_features(tt)
        order = tt.getGlyphOrder()
        extra = []
        for tag in sorted(sf):
            if tag == "DFLT":
                continue
            for lang in ["dflt"] + sorted(l for l in sf[tag] if l != "dflt"):
                lk = gpos.lookups_for(tt, tag, lang, {"kern", "dist"}) or []
                ent = []
                for g1 in names:
                    for g2 in names:
                        if g1 in order and g2 in order:
                            a = gpos.pair_adjust(tt, lk, g1, g2)
                            if a[0] or a[1] or a[2] or a[3]:
                                ent.append([g1, g2, rat(a[0]), rat(a[1])] if not (a[2] or a[3]) else [g1, g2, "999999", "999999"])
                key = tag if lang == "dflt" else "%s/%s" % (tag, lang)
                applied.append([key, ent])
                if lang != "dflt":
                    extra += [[key, s_] for t_, s_ in tagScript if t_ == tag]
        tagScript = sorted(tagScript + extra)
    inp = dict(rec["ctx"])
    inp.update({"groups": case["groups"], "kerning": [[a, b, rat(v)] for a, b, v in case["kerning"]], "q": rat(case["q"]),
                "ignoreMarks": case["ignoreMarks"],
                "indep": {"scripts": iscripts, "bidi": ibidi, "dir": idir}, "tagScript": tagScript})
    obs["program"] = rec["program"]; obs["applied"] = applied
    if fresh is not None:
        obs["fresh"] = fresh
        obs["reusedGlyphScripts"] = rec["ctx"]["glyphScripts"]
    dirs = {d for _, d in idir}
    depth2 = any(a.startswith("public.kern1.") and b.startswith("public.kern2.") for a, b, _ in case["kerning"]) and \
        any(not a.startswith("public.") or not b.startswith("public.") for a, b, _ in case["kerning"])
    tags = [case["lib"], "q:%s" % case["q"], "ignoreMarks:%s" % case["ignoreMarks"], "langsys:%s" % bool(case["langsys"]),
            "gdef:%s" % case["gdef"], "err:" + str(obs.get("err")), "scripts:%d" % len([s for s in scripts if s not in ("Zyyy", "Zinh")])] + \
        (["bidir"] if len(dirs) > 1 else []) + (["skipped"] if rec.get("skipped") else []) + (["alts"] if case["alts"] else [])
    if case.get("first"):
        fnames = {g[0] for g in case["first"]["glyphs"]}
        sc_ = dict(iscripts)
        multi = [g for g in names if g in fnames and len(sc_[g]) > 1 and not set(sc_[g]) & {"Zyyy", "Zinh"}]
        f_rtl = any(g[0] in fnames for f in RTL_FAMS for g in POOL[f])
        f_any = any(g[0] in fnames for f in LANGSYS for g in POOL[f])
        both = any(k[0] in multi and k[1] in multi and k[2] for k in case["kerning"])
        tags += ["reuse", "reuse:first-font-" + ("has-rtl-letters" if f_rtl else ("ltr-only" if f_any else "no-script-glyphs")),
                 "reuse:shared-multiscript-glyphs:%d" % min(len(multi), 3)] + \
            (["reuse:rtl-pair-of-shared-multiscript-glyphs"] if both and "RTL" in dirs else [])
    reqs = [{"op": "kern", "in": inp, "obs": obs, "tags": tags,
             "nontrivial": (len(dirs) > 1 or depth2) and any(e for _, e in applied)}]
    if obs["err"] is None:
        reqs.append(_apply_request(tt, names, inp, rec["program"], tags, (len(dirs) > 1 or depth2)))
    return reqs


def _apply_request(tt, names, inp, program, tags, rich):
    """op "apply": the adjustment table of the COMPILED font (independent interpreter gpos.pair_adjust) for every (script tag,
    language) - the tags of the compiled ScriptList, the tags the writer registered, DFLT and one tag that is registered nowhere (a
    shaper falls back to DFLT); per tag the default language system, every LangSys record of the compiled font, and one language
    that is declared nowhere ("ZZZ ": a shaper falls back to the script's default language system) - and every ordered pair of the
    font's glyphs, against `applyKernLang` evaluated in Lean on the MODEL's program.  Keys: "tag" or "tag/lang"."""
    import gpos
    sf = gpos.script_features(tt) if "GPOS" in tt else {}
    order = set(tt.getGlyphOrder())
    gl = [g for g in names if g in order]
    atags = sorted(set(sf) | {r[0] for r in program["kern"]} | {r[0] for r in program["dist"]} | {"DFLT", "zzzz"})
    table, keys = [], []
    for tag in atags:
        langs = ["dflt"] + sorted(l for l in sf.get(tag, {}) if l != "dflt") + ["ZZZ "]
        for lang in langs:
            lk = gpos.lookups_for(tt, tag if tag in sf else "DFLT", lang, {"kern", "dist"}) if sf else None
            ent = []
            if lk:
                for g1 in gl:
                    for g2 in gl:
                        a = gpos.pair_adjust(tt, lk, g1, g2)
                        if a[0] or a[1] or a[2] or a[3]:
                            ent.append([g1, g2, rat(a[0]), rat(a[1])] if not (a[2] or a[3]) else [g1, g2, "999999", "999999"])
            key = tag if lang == "dflt" else "%s/%s" % (tag, lang)
            keys.append(key)
            table.append([key, ent])
    ainp = dict(inp)
    ainp["applyTags"] = keys

    def nokern(feats):
        return not any(f in ("kern", "dist") for f, _ in feats)
    # script tags / LangSys records that are in the ScriptList only because another (hand-written) positioning feature is
    # registered there
    ainp["otherTags"] = sorted(t for t in sf if all(nokern(feats) for feats in sf[t].values()))
    ainp["otherLangSys"] = sorted([t, l] for t in sf for l, feats in sf[t].items() if nokern(feats))
    ainp["applyGlyphs"] = gl
    nlang = sum(1 for k in keys if "/" in k and not k.endswith("/ZZZ "))
    return {"op": "apply", "in": ainp, "obs": {"table": table, "err": None},
            "tags": ["apply"] + [t for t in tags if t in ("bidir", "alts")] + (["apply:unregistered-tag-falls-back"] if sf else []) +
                    (["apply:own-language-systems"] if nlang else []),
            "nontrivial": rich and any(e for _, e in table)}


def agree(req, rep):
    m, o = rep["model"], req["obs"]
    if req["op"] == "agree2":
        # nothing of the Lean model is compared here; the driver only evaluates the Bool "the two applied tables are equal"
        return o.get("err") is None and m == {"entries": sum(len(e) for _, e in o["applied1"])}
    if o.get("err") is not None:
        return False
    if req["op"] == "apply":
        # the Lean application semantics on the model's program == the independent interpreter on the compiled font
        # (the second conjunct can never fail: C05_end_to_end is a theorem; it only guards the driver's own evaluation of it)
        return m == o["table"] and not ((rep.get("info") or {}).get("e2e_bad"))
    p = o["program"]
    if "fresh" in o and o["fresh"] != [o["reusedGlyphScripts"], p]:
        # stream "reuse": the writer instance that compiled another font before must classify the glyphs and emit the program
        # exactly as a fresh instance does
        return False
    return m["lookups"] == p["lookups"] and m["kern"] == p["kern"] and m["dist"] == p["dist"]


def shrink(case):
    for i in range(len(case["kerning"])):
        c = dict(case); c["kerning"] = case["kerning"][:i] + case["kerning"][i + 1:]; yield c
    for i in range(len(case["groups"])):
        c = dict(case); c["groups"] = case["groups"][:i] + case["groups"][i + 1:]; yield c
    for i in range(len(case["glyphs"])):
        nm = case["glyphs"][i][0]
        c = dict(case); c["glyphs"] = case["glyphs"][:i] + case["glyphs"][i + 1:]
        c["alts"] = [a for a in case["alts"] if a[1] != nm]
        c["marks"] = [m for m in case["marks"] if m != nm]
        yield c
    if case["alts"]:
        c = dict(case); c["alts"] = []; yield c
    if case["langsys"]:
        c = dict(case); c["langsys"] = []; yield c
    f = case.get("first")
    if f:
        for key in ("kerning", "groups", "alts", "langsys"):
            if f[key]:
                c = dict(case); c["first"] = dict(f); c["first"][key] = []; yield c
        for i in range(len(f["glyphs"])):
            if len(f["glyphs"]) > 1:
                nm = f["glyphs"][i][0]
                c = dict(case); ff = dict(f); c["first"] = ff
                ff["glyphs"] = f["glyphs"][:i] + f["glyphs"][i + 1:]
                ff["alts"] = [a for a in f["alts"] if a[1] != nm]
                ff["marks"] = [m for m in f["marks"] if m != nm]
                ff["gdef"] = f["gdef"] and bool(ff["marks"])
                yield c


def classify_failure(res):
    """known shapes (DESIGN section C05):
    A "ambiguous-cell": the pair's UFO value comes from a rule involving a class whose glyphs carry both an R and an L bidi type -
      the writer drops such a class cell whole, so a pair of that cell whose own glyphs are NOT of opposite directions gets 0;
    C "cell-L-no-placement": in an RTL script a pair WITHOUT a bidi-L glyph gets the right advance but no x-placement because the class
      cell of its rule also contains a bidi-L glyph (the LTR exemption for numbers is decided per rule);
    B "neutral-rtl-placement": both glyphs are script-neutral, the script is right-to-left, the advance is right but the
      x-placement is missing (the shared Common lookup is built with left-to-right value records);
    D "declared-script-without-own-kerning": see below."""
    r = res["req"]
    bad = res.get("info") or []
    if not bad or r["obs"].get("err") is not None:
        return None
    if r["op"] == "agree2":
        return _classify_agree2(r, bad)
    inp = r["in"]
    bidi = dict(inp["indep"]["bidi"])
    iscripts = dict((g, s) for g, s in inp["indep"]["scripts"])
    idir = dict(inp["indep"]["dir"])
    groups = {g[0]: [m for m in g[1] if m in inp["glyphs"]] for g in inp["groups"]}
    kern = {(a, b): v for a, b, v in inp["kerning"]}
    applied = {tag: {(e[0], e[1]): e for e in ent} for tag, ent in r["obs"]["applied"]}
    from fractions import Fraction

    def grp(pfx, g):
        c = [n for n, ms in groups.items() if n.startswith(pfx) and g in ms]
        return c[-1] if c else None

    def neutral(g):
        return any(s in ("Zyyy", "Zinh") for s in iscripts.get(g, ["Zyyy"]))

    shapes = set()
    registered = {reg[0].strip() for f in ("kern", "dist") for reg in r["obs"]["program"].get(f, [])}
    for tag, s, g1, g2 in bad:
        if tag.split("/")[0].strip() not in registered and applied.get(tag, {}).get((g1, g2)) is None and neutral(g1) and neutral(g2):
            # D: the script has a language system in GPOS (declared by a languagesystem statement and used by another feature) but
            #    no kerning lookups of its own: the writer registers kern/dist only for scripts that have lookups, so pairs of
            #    script-neutral glyphs (Common lookup) are not kerned in runs of that script
            shapes.add("declared-script-without-own-kerning")
            continue
        G1, G2 = grp("public.kern1.", g1), grp("public.kern2.", g2)
        det = None
        for k in ((g1, g2), (g1, G2), (G1, g2), (G1, G2)):
            if None not in k and k in kern:
                det = k; break
        e = applied.get(tag, {}).get((g1, g2))
        import math
        q = Fraction(inp["q"])

        def qz(v):
            return q * math.floor(Fraction(v) / q + Fraction(1, 2))

        def ambiguous(k):
            cell = set(groups.get(k[0], [k[0]])) | set(groups.get(k[1], [k[1]]))
            return {"R", "L"} <= {bidi.get(x, "") for x in cell}

        if e is not None:
            if det is None:
                return None
            # B: right advance, missing placement, neutral pair, RTL script
            if idir.get(s) == "RTL" and neutral(g1) and neutral(g2) and Fraction(e[2]) == qz(kern[det]) and Fraction(e[3]) == 0:
                shapes.add("neutral-rtl-placement")
                continue
            # C: right advance, missing placement in an RTL script because the rule's class cell contains a bidi-L glyph (digit):
            #    the writer decides "numbers are shaped LTR" per rule, not per glyph pair
            cellC = set(groups.get(det[0], [det[0]])) | set(groups.get(det[1], [det[1]]))
            if idir.get(s) == "RTL" and Fraction(e[2]) == qz(kern[det]) and Fraction(e[3]) == 0 and \
                    any(bidi.get(x, "") == "L" for x in cellC):
                shapes.add("cell-L-no-placement")
                continue
            if ambiguous(det):
                # A': the determining (most specific) rule was dropped as ambiguous and a LESS specific rule of the chain applied
                cands = [k for k in ((g1, g2), (g1, G2), (G1, g2), (G1, G2)) if None not in k and k in kern]
                later = cands[cands.index(det) + 1:]
                if any(Fraction(e[2]) == qz(kern[k]) for k in later):
                    shapes.add("ambiguous-cell")
                    continue
            return None
        if det is None:
            return None
        cell = set(groups.get(det[0], [det[0]])) | set(groups.get(det[1], [det[1]]))
        types = {bidi.get(x, "") for x in cell}
        if not ({"R", "L"} <= types):
            return None
        shapes.add("ambiguous-cell")
    return {"shapes": sorted(shapes)}


def _classify_agree2(r, bad):
    """the two writers may differ only in a right-to-left script, on a glyph pair whose UFO value comes from an exception chain
    in which some rule's cell (the glyphs of its two sides) contains a glyph of bidi type L (a digit) or a glyph whose Unicode
    Script property is Common/Inherited while its script extensions are right-to-left (Arabic harakat, Arabic-Indic digits ...):
    writer 1 decides direction per class cell from Script_Extensions and the bidi sets (the three known shapes), writer 2 from
    the Script property and per-cell bidi sets; every other disagreement is a violation."""
    inp = r["in"]
    bidi = dict(inp["indep"]["bidi"])
    prop = dict(inp["indep"]["scriptProperty"])
    iscripts = dict((g, s) for g, s in inp["indep"]["scripts"])
    idir = dict(inp["indep"]["dir"])
    t2s = {}
    for t, s in inp["tagScript"]:
        t2s.setdefault(t, []).append(s)
    groups = {g[0]: [m for m in g[1] if m in inp["glyphs"]] for g in inp["groups"]}
    kern = {(a, b) for a, b, v in inp["kerning"]}

    def grps(pfx, g):
        # all of them: with overlapping (invalid) groups the two writers need not keep the same one
        return [n for n, ms in groups.items() if n.startswith(pfx) and g in ms]

    def odd(x):
        neutral_prop = prop.get(x) in ("Zyyy", "Zinh")
        rtl_ext = any(idir.get(s) == "RTL" for s in iscripts.get(x, []))
        return bidi.get(x, "") == "L" or (neutral_prop and rtl_ext)

    def neutral(g):
        return any(s in ("Zyyy", "Zinh") for s in iscripts.get(g, ["Zyyy"]))

    shapes = set()
    kt = r["obs"].get("kernTags") or []
    for tag, g1, g2 in bad:
        if len(kt) == 2 and (tag in kt[0]) != (tag in kt[1]) and neutral(g1) and neutral(g2):
            # finding D seen from here: only one of the writers registers kerning under a declared script that has no kerning
            # lookups of its own
            shapes.add("declared-script-without-own-kerning")
            continue
        shapes.add("writers-differ-rtl-cell-with-bidiL-or-neutral-property-glyph")
        if not all(idir.get(s) == "RTL" for s in t2s.get(tag, [])) or not t2s.get(tag):
            return None
        cands = [(a, b) for a in [g1] + grps("public.kern1.", g1) for b in [g2] + grps("public.kern2.", g2) if (a, b) in kern]
        if not cands:
            return None
        cells = [set(groups.get(k[0], [k[0]])) | set(groups.get(k[1], [k[1]])) for k in cands]
        if not any(odd(x) for c in cells for x in c):
            return None
    return {"shapes": sorted(shapes)}


LEVEL_TEXT = ("Proved (Lean, all inputs): END-TO-END C05_end_to_end - for well-formed kerning, a Unicode context as fontTools supplies it, two "
              "glyphs of one script (or neutral), a tag of that script whose feature is written, ISO-15924-shaped script names, and the pair outside "
              "the three known bidi-cell shapes (cellClean, on the determining cell only): applyKern(program(inputs), tag, g1, g2) = "
              "(quantize(ufoKern g1 g2), the same as x-placement iff the script is right-to-left), where applyKern is a GPOS application "
              "semantics (feaLib PairPos layout, first matching subtable, lookups add, DFLT fallback) tied to the compiled font on every run; "
              "C05_end_to_end_lang: the same equation for every language the feature file declares for the tag (applyKernLang: LangSys of "
              "(tag, language), else the script's default language system, else DFLT); lookupName (over character lists, same strings) is "
              "injective on bucket keys of ISO-shaped script names, so distinct buckets get distinct lookup names (namesOK_of_wf); "
              "the composition goes through: first match of the sorted pairs = UFO value; at most one part / one direction cell of a pair "
              "contains a glyph pair; all cells containing it are in one bucket = one lookup; the rules of a lookup are the bidi-filtered "
              "sorted cells of its bucket; class rules of a lookup fit one format-2 subtable; the lookup is emitted once and referenced "
              "under the tag (or under DFLT for neutral pairs); every other emitted lookup contributes zero. Stages: KerningPair.__lt__ is a strict weak order and pairs.sort() yields a sorted permutation; the first "
              "matching rule of the sorted list is a most specific matching rule; for well-formed kerning data (wfKern) it carries exactly "
              "quantize(ufoKern) - glyph-glyph, glyph-group, group-glyph, group-group, zero group-group entries aside - and no rule matches "
              "iff no entry (or a zero group-group entry) determines the pair; quantize is the nearest multiple of a positive step, halves up; "
              "mergeScripts: the fuel is sufficient, merged script sets are pairwise disjoint, every bucket key lies in exactly one of them, "
              "buckets sharing a script land together, the multiset of pairs is kept; _splitBaseAndMarkPairs keeps every matching rule exactly "
              "once with value and specificity, base list iff neither glyph is a mark; partitionByScript cells match subsets, never two "
              "opposite directions, cover every compatible glyph pair and are disjoint for single-direction glyphs (counterexample without that "
              "hypothesis proved); split pairs of an exception and of the class pair it excepts that match the same glyph pair land in the "
              "same splitKerning bucket (same lookup); "
              "_registerLookups: each script tag gets Common + Inherited + own lookups, DFLT gets Common + all LTR (else RTL), each once. "
              "The full executable model of the kern writer is tied to the code structurally on every run, the UFO-semantics predicate is "
              "evaluated on the compiled GPOS for every glyph pair, and the two shipped writers are compared on single-direction fonts. "
              "Observed only (no theorem): a writer instance that compiled another font before emits, for the font under test, the program "
              "of a fresh instance, and the compiled GPOS of that second font satisfies the same UFO-semantics predicate (stream reuse).")
LEVEL_NOTE = ("Trusted: Lean kernel + standard axioms; correspondence harness incl. the independent GPOS interpreter; Unicode data as input; "
              "the end-to-end theorem is stated over the Lean GPOS application semantics (Spec/C05Apply.lean), which is itself tied to the "
              "compiled font by op apply (trusted: that tie is differential); lookup flags are assumed irrelevant for adjacent pairs; the "
              "three bidi-cell shapes are excluded by the hypothesis cellClean and stay known findings; writer 2 is compared end-to-end only and differs from writer 1 in right-to-left "
              "fonts with digits or Arabic marks (known finding). State carried by a writer instance from one compile to the next (stream reuse) is "
              "covered by observation only: the Lean model has no notion of a writer instance outliving a font; the predicate (holds, evaluated "
              "by the Lean driver against the independent Unicode classification) is applied to the second font compiled by a reused "
              "instance, and its classification + program are compared with a fresh instance's; sequences longer than two fonts and reuse "
              "of kernFeatureWriter2 instances are not generated.")
