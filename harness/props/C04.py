"""C04 - compiled fonts are serialisable and their derived fields are consistent."""
import io
import itertools

from gen import outline_font
from ufo import build, err_kind, rat

ID = "C04"
THEOREM = "Ufo2ft.C04.C04_numLong / C04_decode / C04_header / C04_hmtx / C04_vmtx / C04_fontBox / C04_charRange / C04_vorg / C04_toInt / C04_roundBox_none / C04_roundBox_point / C04_hmtx_point / C04_cffWidths / C04_cffWidths_hmtx"
N = {"quick": 300, "thorough": 5000}
RULE = ("exhaustive: every advance sequence of length 1..5 (quick) / 1..6 (thorough) over {0,5,7} as a real font through "
        "Outline{TTF,OTF}Compiler (numberOfHMetrics); random: line-segment fonts with empty glyphs, translated components, "
        "half-integer/fractional coordinates and widths, vertical metrics on/off, vertical origins, TTF and OTF with "
        "roundTolerance in {None,0,0.25,0.5}, BMP/supplementary/no code points. Every derived field is read from the in-memory "
        "font returned by the outline compiler (fontTools recalculates most of them at save time, which would mask ufo2ft's "
        "own arithmetic) and from the saved-and-reloaded font; glyph bounds are measured independently by drawing the compiled "
        "glyphs. non-trivial = has at least one empty glyph and one boxed glyph and (a repeated trailing advance or vertical metrics). "
        "CFF width stream (tag cffw, n/3 OTF fonts of 2..12 glyphs): a dominant advance (0 in half of the fonts: mark-only fonts) "
        "shared by 0/50/60/75/90/100 % of the glyphs, the others near it (+-1, +-0.5, +0.25, +107/108, +1131/1132 = the operand-size "
        "boundaries) or unrelated; in 45 % fontinfo sets postscriptDefaultWidthX / postscriptNominalWidthX to every combination of "
        "unset / 0 / rounds-to-0 / non-zero / equal to a glyph's advance, otherwise fontTools' optimizeWidths chooses the pair, so all "
        "four zero/non-zero combinations of (defaultWidthX, nominalWidthX) occur in every quick run. For every OTF font (all streams) "
        "the two Private-dict width operators as written (absent vs present) and the raw width operand of every charstring (own "
        "T2WidthExtractor run, nothing decoded by fontTools) are observed in memory and after save/reload; non-trivial there = at least "
        "two distinct advances. "
        "Degenerate-outline stream (tag degen, max(30, n/4) extra fonts of the random stream, 70 % TTF): 1..3 glyphs that no composite "
        "references get an outline whose box has zero width and/or zero height: a one-point open ('move') contour, a closed contour of "
        "1..4 coincident points, (TTF) 2..4 distinct fractional points that round to one integer point, a horizontal or a vertical "
        "2-point segment; the point lies off both axes (60 %), on the y axis (x = 0) or on the x axis (y = 0), coordinates from "
        "{+-1, +-30, 500, 1100, -250, random in -600..1400}, often outside every other glyph's box, advance 0/600/1200 or random; "
        "the lsb/tsb rows, the header extrema (which must include such a glyph: span 0) and the font box are checked like for every "
        "other glyph. The all-zero box (0,0,0,0) of a point AT the origin is not generated: it is the compilers' own sentinel for "
        "'no outline' (EMPTY_BOUNDING_BOX), where lsb = 0 = xMin anyway. non-trivial there = a degenerate glyph plus at least one other glyph.")
ASSUMED = ["glyph outline bounds as computed by fontTools (calcBounds/recalcBounds) enter the model as input (measured independently with BoundsPen)",
           "the pair (defaultWidthX, nominalWidthX) when fontinfo sets neither is fontTools.cffLib.width.optimizeWidths' choice: an input of the model "
           "(recomputed by the harness from the rounded advances of the glyph set); the theorem holds for ANY pair",
           "how a CFF reader obtains an advance (absent Private operator = 0; no operand -> defaultWidthX, else nominalWidthX + operand) is the "
           "CFF specification's rule, written down as Spec.readCffWidth",
           "byte-level save/load/save idempotence is a law of fontTools' table compilers: measured on every generated font, not proved"]


def gen(rng, n, mode):
    maxlen = 5 if n <= 1000 else 6
    seqs = [list(t) for k in range(1, maxlen + 1) for t in itertools.product([0, 5, 7], repeat=k)]
    for i in range(0, len(seqs), 40):
        yield {"kind": "adv", "seqs": seqs[i:i + 40], "otf": (i // 40) % 2 == 1}
    ndegen = max(30, n // 4)
    for i in range(n + ndegen):
        degen = i >= n     # degenerate-outline stream (tag degen), see _degenerate
        fd = outline_font(rng, kinds=("line",), grid=8 if rng.random() < 0.5 else 1, half=0.3, mats=("id",), maxdepth=2,
                          pcomp=0.35, mixed=0.2, widthhalf=0.3)
        # advances: force runs of equal trailing advances often
        if rng.random() < 0.6:
            w = rng.choice([0, 500, 500.5])
            for g in fd["glyphs"][-rng.randrange(1, 4):]:
                g["width"] = w
        if rng.random() < 0.3:
            for g in fd["glyphs"]:
                g["width"] = 600
        if mode == "search" and rng.random() < 0.2:
            fd["glyphs"][0]["width"] = -rng.choice([1, 0.5, 0.75, 300])
        elif rng.random() < 0.03:
            fd["glyphs"][0]["width"] = -rng.choice([1, 0.75, 300])
        # a composite all of whose bases are empty gets a (0,0,0,0) box in 'glyf' that fontTools' own head
        # recalculation counts and ufo2ft's does not: not generated (bases always keep their contours)
        used = {c[0] for g in fd["glyphs"] for c in g["components"]}
        for g in fd["glyphs"]:
            if g["name"] in used and not g["contours"] and not g["components"]:
                g["contours"] = [[[0, 0, "line"], [100, 0, "line"], [50, 80, "line"]]]
        for g in fd["glyphs"]:
            if rng.random() < 0.25 and g["name"] not in used:
                g["contours"] = [] if not g["components"] else g["contours"]
            g["height"] = rng.choice([0, 1000, 1000.5, 880, rng.randrange(0, 1500)])
            g["vorg"] = rng.choice([None, None, 880, 880, 800, 700.5, 0, 0.25, -120, rng.randrange(500, 1000)])
            for _ in range(rng.choice([0, 1, 1, 2])):
                g["unicodes"].append(rng.choice([0x20, 0x41, 0x61, 0x3042, 0xFFFF, 0xFFFE, 0x10000, 0x1F600, 0x10FFFF, rng.randrange(0x21, 0x3000)]))
        seen = set()
        for g in fd["glyphs"]:
            g["unicodes"] = [u for u in dict.fromkeys(g["unicodes"]) if not (u in seen or seen.add(u))]
        otf = rng.random() < (0.3 if degen else 0.5)
        case = {"kind": "font", "fd": fd, "otf": otf, "tol": rng.choice([None, None, 0, 0.25, 0.5]) if otf else None,
                "vertical": rng.random() < 0.5, "lib": rng.choice(["ufoLib2", "defcon"]), "post3": otf and rng.random() < 0.3,
                "notdef": rng.random() < 0.3}
        if degen:
            _degenerate(rng, fd, used, otf)
            case["degen"] = True
        yield case
    # CFF width stream: OTF fonts whose advance distribution / fontinfo decides the pair
    # (defaultWidthX, nominalWidthX); every combination of zero / non-zero for the two Private operators
    for i in range(max(20, n // 3)):
        fd = outline_font(rng, nglyphs=rng.choice([2, 3, 4, 6, 9, 12]), kinds=("line",), grid=1, half=0.0, mats=("id",),
                          maxdepth=1, pcomp=0.2, mixed=0.0, widthhalf=0.0)
        gl = fd["glyphs"]
        common = rng.choice([0, 0, 0, 500, 600, rng.randrange(1, 1000)])   # the dominant advance (mark-only fonts: 0)
        r = rng.random()
        share = 1.0 if r < 0.1 else (0.0 if r < 0.2 else rng.choice([0.5, 0.6, 0.75, 0.9]))
        for g in gl:
            if rng.random() < share:
                g["width"] = common
            else:
                g["width"] = rng.choice([common + rng.choice([1, -1, 0.5, -0.5, 0.25, 107, 108, 1131, 1132]),
                                         rng.choice([250, 520, 533, 600, 640]), rng.randrange(0, 1400)])
                if g["width"] < 0:
                    g["width"] = -g["width"]
        if mode == "search" and rng.random() < 0.1:
            gl[0]["width"] = -rng.choice([1, 0.75, 300])
        psw = None
        if rng.random() < 0.45:
            ws = [g["width"] for g in gl]
            psw = [rng.choice([None, 0, 0, 0.25, -0.5, 200, common, rng.choice(ws), rng.randrange(0, 1000)]),
                   rng.choice([None, 0, 0, 0.25, -0.5, 533, common, rng.choice(ws), -rng.randrange(1, 300), rng.randrange(1, 1000)])]
        yield {"kind": "font", "fd": fd, "otf": True, "tol": rng.choice([None, None, 0.25]), "vertical": rng.random() < 0.2,
               "lib": rng.choice(["ufoLib2", "defcon"]), "post3": False, "notdef": rng.random() < 0.3, "psw": psw, "cffw": True}


def _degenerate(rng, fd, used, otf):
    """give 1..3 glyphs (not used as component bases) an outline whose box has zero width and/or zero height:
    a single point (one-point 'move' contour = stray anchor of old sources; closed contour collapsed onto one point;
    TTF only: points that differ before rounding and round to one integer point), a horizontal or a vertical segment.
    The point/segment sits on the x axis, on the y axis or off both, but never gives the all-zero box (0,0,0,0):
    that value is the compilers' sentinel for "no outline" (EMPTY_BOUNDING_BOX) and is not generated (see RULE)."""
    cands = [g for g in fd["glyphs"] if g["name"] not in used] or fd["glyphs"][-1:]
    for g in rng.sample(cands, min(len(cands), rng.choice([1, 1, 2, 3]))):
        nz = lambda: rng.choice([1, -1, 30, -30, 500, 1100, -250, rng.randrange(-600, 1400) or 7])
        x, y = rng.choice([(nz(), nz()), (nz(), nz()), (nz(), nz()), (0, nz()), (nz(), 0)])
        k = rng.choice(["point", "point", "collapsed", "collapsed", "rounds", "hseg", "vseg"])
        if k == "rounds" and otf:
            k = "collapsed"
        if k == "point":
            c = [[x, y, "move"]]
        elif k == "collapsed":
            c = [[x, y, "line"] for _ in range(rng.choice([1, 2, 3, 4]))]
        elif k == "rounds":     # otRound(v + d) == v for integer v and d in [-0.5, 0.5)
            c = [[x + dx, y + dy, "line"] for dx, dy in rng.sample([(0, 0), (0.25, 0), (-0.5, 0.25), (-0.25, -0.5), (0.25, 0.25)],
                                                                 rng.choice([2, 3, 4]))]
        elif k == "hseg":
            x2 = x + rng.choice([1, 100, -300])
            if y == 0 and min(x, x2) == 0 == max(x, x2):
                x2 = 5
            c = [[x, y, "line"], [x2, y, "line"]]
        else:
            c = [[x, y, "line"], [x, y + rng.choice([1, 100, -300]), "line"]]
        g["contours"] = [c]
        g["components"] = []
        g["degen"] = k
        if rng.random() < 0.5:
            g["width"] = rng.choice([0, 600, 1200])


def _header(t, v):
    if v:
        return {"advanceMax": t.advanceHeightMax, "minFirst": t.minTopSideBearing, "minSecond": t.minBottomSideBearing,
                "maxExtent": t.yMaxExtent, "numLong": t.numberOfVMetrics}
    return {"advanceMax": t.advanceWidthMax, "minFirst": t.minLeftSideBearing, "minSecond": t.minRightSideBearing,
            "maxExtent": t.xMaxExtent, "numLong": t.numberOfHMetrics}


def _observe(tt, vertical, otf, roundtrip, post3):
    order = tt.getGlyphOrder()
    o = {"err": None, "roundtrip": roundtrip}
    o["hmtx"] = [list(tt["hmtx"][g]) for g in order]
    o["hhea"] = _header(tt["hhea"], False)
    h = tt["head"]
    o["bbox"] = [h.xMin, h.yMin, h.xMax, h.yMax]
    o["charRange"] = [tt["OS/2"].usFirstCharIndex, tt["OS/2"].usLastCharIndex]
    p = tt["post"]
    o["extraNames"] = None if p.formatType == 3.0 else list(p.extraNames)
    o["numGlyphs"] = tt["maxp"].numGlyphs
    o["vmtx"] = [list(tt["vmtx"][g]) for g in order] if vertical else None
    o["vhea"] = _header(tt["vhea"], True) if vertical else None
    if vertical and otf:
        v = tt["VORG"]
        o["vorg"] = {"default": v.defaultVertOriginY, "records": [[g, v.VOriginRecords[g]] for g in order if g in v.VOriginRecords]}
        if set(v.VOriginRecords) - set(order):
            o["vorg"]["records"].append(["?unknown", 0])
    else:
        o["vorg"] = None
    o["cff"] = _cff(tt, order, inmemory=tt.reader is None) if otf else None
    return o


class _Absent:
    def __repr__(self):
        return "absent"


_ABSENT = _Absent()


def _cff(tt, order, inmemory):
    """what the 'CFF ' table stores about advances: the two Private operators as written (None = absent)
    and the raw width operand of every charstring (None = omitted); own extraction, nothing decoded"""
    from fontTools.misc.psCharStrings import T2WidthExtractor
    top = tt["CFF "].cff.topDictIndex[0]
    priv = top.Private
    cs_out = []
    for g in order:
        cs = top.CharStrings[g]
        ex = T2WidthExtractor(getattr(cs.private, "Subrs", []), cs.globalSubrs, 0, _ABSENT, cs.private)
        ex.execute(cs)
        cs_out.append(None if ex.width is _ABSENT else ex.width)
    d, n = priv.rawDict.get("defaultWidthX"), priv.rawDict.get("nominalWidthX")
    if inmemory:
        # setupTable_CFF pre-fills rawDict with the CFF defaults (both 0): on the font not yet saved an
        # operator holding its default IS the absent operator (fontTools does not write defaults)
        d, n = (None if d == 0 else d), (None if n == 0 else n)
    return {"d": d, "n": n, "cs": cs_out}


def _dn(gs, psw):
    """the pair getDefaultAndNominalWidths must return, computed independently: fontinfo values (fallbacks
    200 / 0) through otRound as soon as one of them is set, else fontTools' optimiser on the rounded advances"""
    from fontTools.cffLib.width import optimizeWidths
    from fontTools.misc.roundTools import otRound
    if psw is None or (psw[0] is None and psw[1] is None):
        return [int(v) for v in optimizeWidths([otRound(g.width) for g in gs.values()])]
    return [otRound(200 if psw[0] is None else psw[0]), otRound(0 if psw[1] is None else psw[1])]


def _bounds(tt, otf):
    from fontTools.pens.boundsPen import BoundsPen, ControlBoundsPen
    gs = tt.getGlyphSet()
    res = {}
    for g in tt.getGlyphOrder():
        pen = (BoundsPen if otf else ControlBoundsPen)(gs)
        gs[g].draw(pen)
        res[g] = pen.bounds
    return res


def _compile(font, otf, tol, post3):
    from ufo2ft.outlineCompiler import OutlineOTFCompiler, OutlineTTFCompiler
    from ufo2ft.preProcessor import OTFPreProcessor, TTFPreProcessor
    if otf:
        gs = OTFPreProcessor(font).process()
        kw = {} if tol is None else {"roundTolerance": tol}
        comp = OutlineOTFCompiler(font, glyphSet=gs, optimizeCFF=False, **kw)
    else:
        gs = TTFPreProcessor(font).process()
        comp = OutlineTTFCompiler(font, glyphSet=gs)
    tt = comp.compile()
    if post3:
        from ufo2ft.postProcessor import PostProcessor
        PostProcessor.set_post_table_format(tt, 3.0)
    return tt, gs


def _one(fd, otf, tol, vertical, lib, post3, tags, nontrivial, psw=None):
    from fontTools.ttLib import TTFont
    font = build(fd, lib)
    font.info.openTypeOS2TypoAscender = 800
    font.info.ascender = 750
    font.info.descender = -250
    if vertical:
        font.info.openTypeVheaVertTypoAscender = 500
        font.info.openTypeVheaVertTypoDescender = -500
        font.info.openTypeVheaVertTypoLineGap = 0
    if psw is not None:
        font.info.postscriptDefaultWidthX = psw[0]
        font.info.postscriptNominalWidthX = psw[1]
    for g in fd["glyphs"]:
        if "height" in g:
            font[g["name"]].height = g["height"]
        if g.get("vorg") is not None:
            font[g["name"]].verticalOrigin = g["vorg"]
    err = None
    try:
        tt, gs = _compile(font, otf, tol, post3)
        o1 = _observe(tt, vertical, otf, True, post3)
        buf = io.BytesIO(); tt.save(buf); b1 = buf.getvalue()
        tt2 = TTFont(io.BytesIO(b1))
        buf2 = io.BytesIO(); tt2.save(buf2); b2 = buf2.getvalue()
        tt3 = TTFont(io.BytesIO(b1))
        o2 = _observe(tt3, vertical, otf, b1 == b2, post3)
        bounds = _bounds(tt3, otf)
        order = tt3.getGlyphOrder()
    except Exception as e:
        err = err_kind(e)
    if err is not None:
        # input for the model: glyph order does not matter for the error
        glyphs = [{"name": g["name"], "width": rat(g["width"]), "height": rat(g.get("height", 0)),
                   "vorg": None if g.get("vorg") is None else rat(g["vorg"]), "raw": None} for g in fd["glyphs"]]
        inp = {"otf": otf, "tol": rat(0.5 if tol is None else tol), "typoAsc": 800, "vertical": vertical, "cps": [], "glyphs": glyphs, "reloaded": False, "setOrder": [], "dn": None}
        return [{"op": "font", "in": inp, "obs": {"err": err}, "tags": tags + ["err:" + err], "nontrivial": True}]
    src = {g["name"]: g for g in fd["glyphs"]}
    glyphs = []
    for name in order:
        g = src.get(name)
        if g is None:  # synthesised .notdef: its metrics come from the glyph set
            sg = gs[name]
            g = {"width": sg.width, "height": getattr(sg, "height", 0) or 0, "vorg": getattr(sg, "verticalOrigin", None)}
        b = bounds[name]
        glyphs.append({"name": name, "width": rat(g["width"]), "height": rat(g.get("height", 0)),
                       "vorg": None if g.get("vorg") is None else rat(g["vorg"]),
                       "raw": None if b is None else [rat(v) for v in b]})
    cps = sorted(u for g in fd["glyphs"] for u in g["unicodes"])
    inp = {"otf": otf, "tol": rat(0.5 if tol is None else tol), "typoAsc": 800, "vertical": vertical, "cps": cps, "glyphs": glyphs, "setOrder": list(gs.keys()),
           "dn": _dn(gs, psw) if otf else None}
    return [{"op": "font", "in": dict(inp, reloaded=False), "obs": o1, "tags": tags + ["in-memory"], "nontrivial": nontrivial},
            {"op": "font", "in": dict(inp, reloaded=True), "obs": o2, "tags": tags + ["reloaded"], "nontrivial": nontrivial}]


def run(case):
    if case["kind"] == "adv":
        out = []
        for seq in case["seqs"]:
            fd = {"glyphs": [{"name": ".notdef" if i == 0 else "g%02d" % i, "width": w, "unicodes": [], "contours": [], "components": []}
                             for i, w in enumerate(seq)]}
            out += _one(fd, case["otf"], None, False, "ufoLib2", False, ["adv-exhaustive"], len(seq) > 1)[:1]
        return out
    fd = case["fd"]
    if case["notdef"] and not any(g["name"] == ".notdef" for g in fd["glyphs"]):
        fd["glyphs"][0]["name"] = ".notdef"
        for g in fd["glyphs"]:
            g["components"] = [c if c[0] != fd["glyphs"][0].get("_old") else c for c in g["components"]]
    names = {g["name"] for g in fd["glyphs"]}
    for g in fd["glyphs"]:
        g["components"] = [c for c in g["components"] if c[0] in names]
    # no composite may consist of empty bases only (see gen): drop references to empty glyphs until stable
    while True:
        emptyset = {g["name"] for g in fd["glyphs"] if not g["contours"] and not g["components"]}
        hit = False
        for g in fd["glyphs"]:
            keep = [c for c in g["components"] if c[0] not in emptyset]
            if len(keep) != len(g["components"]):
                g["components"] = keep; hit = True
        if not hit:
            break
    empty = sum(1 for g in fd["glyphs"] if not g["contours"] and not g["components"])
    nontrivial = 0 < empty < len(fd["glyphs"]) and (case["vertical"] or any(
        a["width"] == b["width"] for a, b in zip(fd["glyphs"], fd["glyphs"][1:])))
    tags = ["otf" if case["otf"] else "ttf", "tol:" + str(case["tol"]), "vertical" if case["vertical"] else "horizontal",
            case["lib"], "post3" if case["post3"] else "post2"]
    if case.get("degen"):
        tags = ["degen"] + sorted({"degen:" + g["degen"] for g in fd["glyphs"] if g.get("degen")}) + tags
        nontrivial = any(g.get("degen") for g in fd["glyphs"]) and len(fd["glyphs"]) > 1
    psw = case.get("psw")
    if case.get("cffw"):
        ws = {g["width"] for g in fd["glyphs"]}
        tags = ["cffw", "psw:" + ("auto" if psw is None or psw == [None, None] else
                                   "%s/%s" % tuple("none" if v is None else ("0" if round(v) == 0 else "nz") for v in psw)),
                "vertical" if case["vertical"] else "horizontal", case["lib"]]
        nontrivial = len(ws) > 1
    return _one(fd, case["otf"], case["tol"], case["vertical"], case["lib"], case["post3"], tags, nontrivial, psw)


def agree(req, rep):
    m, o = rep["model"], req["obs"]
    if m.get("err") is not None or o.get("err") is not None:
        return m.get("err") == o.get("err")
    keys = ["hmtx", "hhea", "vmtx", "vhea", "bbox", "charRange", "vorg", "numGlyphs", "cff"]
    if o["extraNames"] is not None:
        keys.append("extraNames")
    return all(m[k] == o[k] for k in keys) and o["roundtrip"]


def shrink(case):
    if case["kind"] == "adv":
        for s in case["seqs"]:
            yield {"kind": "adv", "seqs": [s], "otf": case["otf"]}
        return
    gl = case["fd"]["glyphs"]
    for i in range(len(gl)):
        c = dict(case); c["fd"] = dict(case["fd"]); c["fd"]["glyphs"] = gl[:i] + gl[i + 1:]
        yield c
    for i, g in enumerate(gl):
        if len(g["contours"]) > 1:
            c = dict(case); c["fd"] = dict(case["fd"]); g2 = dict(g); g2["contours"] = g["contours"][:1]
            c["fd"]["glyphs"] = gl[:i] + [g2] + gl[i + 1:]
            yield c


LEVEL_TEXT = ("Proved for all inputs (Lean): the pre-computed long-metric count is in range, minimal, and a table written with it decodes "
              "back to the same advances; advanceMax / min bearings / max extent are the max/min over the right glyph subsets; hmtx/vmtx rows; "
              "the font box is the min/max of the glyph boxes; CFF box rounding encloses or rounds within tolerance; a glyph box is dropped "
              "(treated as 'no outline') exactly when all four rounded extrema are 0, so a one-point outline off the origin keeps its zero-size "
              "box and its bearings (C04_roundBox_none / _point / C04_hmtx_point); OS/2 char range; "
              "post extra names; VORG default is a most frequent origin with exactly the differing glyphs as records; the advances stored in the 'CFF ' "
              "table (Private defaultWidthX/nominalWidthX as written by setupTable_CFF + the width operand getCharStringForGlyph puts in each "
              "charstring) read back as the rounded source advances = the hmtx advances, for every default/nominal pair. Tied to the code by "
              "exhaustive advance sequences + random fonts observed both in memory and after save/reload.")
LEVEL_NOTE = ("Trusted: Lean kernel + standard axioms; correspondence harness; glyph outline bounds are fontTools' (input to the model, "
              "measured independently with BoundsPen); byte idempotence of save/load/save is measured, not proved; only line segments and "
              "translated components are generated here (curve extrema are fontTools' business); degenerate outlines (single point, collapsed contour, "
              "points merging by rounding, axis-parallel segment) are generated in a stream of their own, a point exactly at the origin is not "
              "(its all-zero box is indistinguishable from the empty-glyph sentinel in both compilers). CFF widths: modelled and proved (not predicate-only); "
              "the optimiser's pair is an input; on the not-yet-saved font ufo2ft pre-fills Private.rawDict with the CFF defaults, so there an "
              "operator holding 0 is counted as absent (after reload absence is observed literally); only optimizeCFF=False charstrings are "
              "observed here (what specialisation/subroutinisation do to the operand is C12's subject, which models the same two code sites).")
