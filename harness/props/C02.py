"""C02 - TrueType outlines render the source shape; composites stay valid."""
import io
import math

from gen import outline_font
from geom import fd_glyphs_json
from ufo import build, rat

ID = "C02"
PROOF_FILES = ["Geom", "Reverse", "Render", "Flatten", "GoodCert", "C02", "C02Skip", "C02Drop", "C02Flags", "TotalGeom", "TotalFilters", "TotalFilters2", "Total"]
THEOREM = ("Ufo2ft.C02.C02_mixed / C02_render / C02_render_skip / C02_mixed_skip / C02_flatten / C02_points_perm / depth facts (+ shared geometry theorems); "
           "dropImpliedOnCurves: C02_drop_render / C02_drop_idempotent / C02_drop_round / C02_drop_round_bound / C02_drop_spec / "
           "C02_drop_joint_compatible / C02_drop_joint_subset / C02_drop_joint_maximal / C02_drop_joint_instance / C02_drop_joint_spec; "
           "glyf flag post-processing (Props/C02Flags.lean): C02_flags_simple_spec / C02_flags_simple_bits / C02_flags_simple_oncurve / C02_flags_simple_coords / "
           "C02_flags_simple_absent / C02_flags_simple_value / C02_flags_simple_idempotent / C02_flags_spec_oncurve / C02_flags_slip_witness / C02_flags_step_mask / C02_flags_composite_refs_partial / C02_flags_auto_mask / C02_flags_loop_rest / C02_flags_step_first / C02_flags_composite_spec (the model meets holdsCompositeFlags for ALL inputs: whole loop + autoUseMyMetrics fallback); TOTALITY (Props/Total*.lean): C02_preprocess_ok / C02_mixed_total / C02_render_total / C02_render_skip_total - the pre-processing chain returns a result on every well-formed closed glyph set (wfCert)")
N = {"quick": 160, "thorough": 3000}
RULE = ("random fonts (line / quadratic contours incl. contours starting off-curve, open contours; component graphs depth<=4 with "
        "F2Dot14-exact matrices incl. mirrors/shears, half-integer offsets; mixed glyphs; shared bases/diamonds) x {convertCubics, "
        "reverseDirection, flattenComponents} (a quarter of them with a skipExportGlyphs list naming helper glyphs made of helper glyphs; integral matrices and offsets there) through compileTTF, saved, reloaded: every glyf point (coordinates, on/off flag, contour "
        "ends), every component record and maxp's component statistics are compared with the Lean model; glyphs with cubic segments "
        "(simple glyphs only) are measured: the deviation of the un-rounded quadratic spline produced by the pre-processor from the source "
        "cubic is sampled (256 points per segment) and must stay within cubicConversionError*unitsPerEm. non-trivial = a mixed glyph or a "
        "composite of depth>=2 exists and some contour starts off-curve or some component is mirrored. "
        "dropImpliedOnCurves=True (n/3 more fonts): contours built from off-curve points on the 1/8 grid (45% integers, 35% halves) with, between two "
        "consecutive off-curve points, an on-curve point exactly at the midpoint / at the midpoint only after rounding / just off it (1/8..2) / free / "
        "two on-curve points / none (already implied); 15% of the contours have every on-curve point implied (an all-off-curve contour is left); any start "
        "point (also a dropped first or last point); degenerate [off, on] pairs; inside component graphs with transforms, mixed glyphs decomposed; "
        "through compileTTF(dropImpliedOnCurves=True) x {convertCubics, reverseDirection}: every glyf point compared with the model, and judged by "
        "the declarative predicate (sub-list of the rounded source points; expanded outline = expanded source outline within 1/2; nothing impliable left); "
        "non-trivial = a point was dropped.  Joint (n/12 more designspaces): 2-3 point-compatible masters of 1-3 glyphs, the same slots in every master, "
        "a slot that is a midpoint in one master is off the midpoint in another with probability 0.35; the default master is any of them; 8% (search: 25%) "
        "with one master's flags changed (incompatible); through compileVariableTTF(dropImpliedOnCurves=True, convertCubics=False) - every third designspace instead with the default options (convertCubics=True: "
        "fonts_to_quadratic), the masters then being the implementation's own compileInterpolatableTTFsFromDS output (unrounded, undropped) -: the variable font's "
        "default glyf entry per glyph compared with the model (`vfDefault`) and judged by `holdsJoint` (the default master's outline within rounding; the "
        "point set left fits EVERY master); every gvar tuple must address exactly the points left + 4; nothing impliable in ALL masters (the code's own two-armed test on the masters' unrounded "
        "coordinates, among the points left) may be left; and the variable font is instantiated (fontTools.varLib.instancer) at every non-default master's location: the "
        "instance must be that master's own points - those the default entry's flags pick - rounded, within 1 unit (compared exactly with the model `vfMaster` when "
        "optimizeGvar=False, half of the designspaces).  Single fonts are also judged on the source coordinates: none of the source points still there passes the test.  "
        "State (n/4 more fonts, tag `state`): what a default (inplace=False) compile must not depend on - 55% carry cu2qu's curve-type lib key "
        "(com.github.googlei18n.cu2qu.curve_type in font.lib or in the default layer's lib; quadratic 3/5, cubic, an unknown value), the others (and 40% of those) a "
        "HISTORY of 1-3 earlier not-in-place compiles on the SAME font object before the observed compileTTF: of an empty layer (2/7), of a sparse layer, of the default layer with the "
        "same / with other options (reversal flipped, flatten), compileOTF, a bare TTFPreProcessor run; line/quadratic fonts with component graphs and mixed glyphs (5/6) or cubic "
        "fonts (1/6); the source handed to the predicate is the authored data, never re-read from the font object; non-trivial = a key or a history is present and the options call "
        "for a reversal or a re-anchoring (or a cubic conversion).  "
        "Glyph-lib flags (n/8 more fonts, tag `glyphlib`): line/quadratic fonts with component graphs and mixed glyphs whose glyphs carry public.truetype.overlap "
        "(explicit False 45% (search 60%) / True 30% / absent; at least one outline glyph with False in 4 of 5 fonts) and whose components carry identifiers with "
        "public.objectLibs entries (roundOffsetToGrid / useMyMetrics, either value, or none) x {convertCubics, reverseDirection, flattenComponents}: the keys only "
        "steer glyf FLAG bits written after the outlines are built (OVERLAP_SIMPLE shares the first point's flag byte with the on-curve bit), so every point with "
        "its on/off flag, every component record and maxp are compared with the model (which never sees a lib) and judged by the same predicates; non-trivial = an "
        "outline glyph carries the key with the value False.  Each of these fonts gives a second request (op `flags`, tag `glyphlib-flags`): the compiled glyf entries' "
        "flag bytes with coordinates and contour ends, and the component records with their flag words (masked 0x1E14: the bits the glyf compiler does not compute), "
        "are compared with the model's setSimpleFlags / setCompositeFlags applied to the MODEL's pen output (flag byte = on-curve bit, component flags = ROUND_XY_TO_GRID) "
        "under the lib values, identifiers, objectLibs entries and the compiled hmtx advances, and judged by holdsSimpleFlags / holdsCompositeFlags; in half of the "
        "composites a component is given the glyph's own advance (70% of those also identity and no x shift: eligible for autoUseMyMetrics); 20% compile with "
        "autoUseMyMetrics=False; flattenComponents gives count mismatches; non-trivial = some first point has OVERLAP_SIMPLE or some component's flag word is not the pen's.")
ASSUMED = ["cu2qu (curve_to_quadratic) is external: its error bound is measured on the pre-processor's un-rounded output, not proved",
           "glyf binary encoding/decoding and maxp.recalc are fontTools'",
           "dropImpliedOnCurves: fontTools' dropImpliedOnCurvePoints / _is_mid_point are modelled from their source (fontTools 4.55) and tied through the "
           "compiled fonts only; `math.isclose` (rel_tol 1e-9) is modelled as equality of rationals (the generated coordinates are dyadic, where the two "
           "coincide); only quadratic glyphs (flags 0/1) - glyf-v1 cubic off-curve flags (allQuadratic=False) are not modelled",
           "dropImpliedOnCurves in the variable path: masters are taken as the modelled pre-processing of each source (convertCubics=False; reversal "
           "optional); cubic masters (fonts_to_quadratic) with the option are not tied; of the variable font the default master's glyf entry, the gvar tuples' point counts and the "
           "instances at the masters' own locations are observed (gvar deltas in between the masters are varLib's interpolation, C10/C13)",
           "state stream: the model is of inplace=False compiles - it has no lib-key or object-history input at all (that IS the claim: neither may matter); the in-place "
           "mode (inplace=True, where CubicToQuadraticFilter honours and writes the curve-type key and the source is modified on purpose) is not generated and not modelled",
           "glyph-lib stream: InstructionCompiler._set_simple_flags / _set_composite_flags / autoUseMyMetrics are modelled (Model/C02Flags.lean) on the flag bytes / words the "
           "model's pen output has (quadratic glyphs: 0/1; components: 0x4) and compared with the compiled font; hmtx advances are an input taken from the compiled font; lib values "
           "are booleans (Python truthiness of other values is not modelled); an objectLibs entry without either key, a glyph missing from the UFO (.notdef) and "
           "TrueType instructions (public.truetype.instructions, hash check) are not generated; for composites the model meets holdsCompositeFlags on all inputs (C02_flags_composite_spec: references, flag masks, OVERLAP_COMPOUND value, count-mismatch clause; "
           "loop and autoUseMyMetrics fallback), and the predicate is also evaluated on every compiled composite; the per-component ROUND_XY_TO_GRID / USE_MY_METRICS VALUES have no declarative "
           "clause (model/font comparison only); glyf-v1 (allQuadratic=False, cubic bit) is not generated - the simple-glyph theorems hold for any flag bytes, including the cubic bit"]

def _gen_base(rng, n, mode):
    for i in range(n):
        cubic = (i % 4 == 3)
        mats = ["id", "id", "mirrorx", "mirrory", "rot90", "rot180", "swap", "half", "shear", "shear2", "sc15", "nonuni", "mirrorshear"]
        if cubic:
            fd = outline_font(rng, nglyphs=rng.choice([1, 2, 3]), kinds=("line", "curve", "curve", "qcurve"), grid=8, half=0.2, mats=["id"],
                              maxdepth=1, pcomp=0.0, mixed=0.0, offstart=False, lim=500)
            upm = rng.choice([1000, 1000, 2048, 250, 500])
            fd["upm"] = upm
            err = rng.choice([None, None, 0.002, 0.0002, 0.0005, 0.01])
        flatten = rng.random() < 0.4
        if flatten:
            # composed 2x2 entries must stay inside F2Dot14's [-2, 2): otherwise TTGlyphPointPen decomposes the glyph
            mats = ["id", "id", "mirrorx", "mirrory", "rot90", "rot180", "swap", "half"]
        skip = []
        if cubic:
            pass
        elif i % 4 == 1:
            # skip-export stream: helper glyphs made of helper glyphs, referenced by exported composites; integral matrices and
            # offsets so that the observed component records can be interpreted exactly (Spec.holdsCompositeSkip)
            fd = outline_font(rng, nglyphs=rng.choice([3, 5, 8, 12]), kinds=("line", "line", "qcurve"), grid=8, half=0.3,
                              mats=["id", "id", "mirrorx", "mirrory", "rot90", "rot180", "swap"],
                              maxdepth=4, pcomp=0.7, mixed=0.25, offstart=True, open_=0.0, offgrid=8)
            for g in fd["glyphs"]:
                for c in g["components"]:
                    c[1][4] = int(c[1][4] // 1); c[1][5] = int(c[1][5] // 1)
            names = [g["name"] for g in fd["glyphs"]]
            skip = [nm for nm in names[:-1] if rng.random() < 0.4] or names[:1]
            err = None
        else:
            fd = outline_font(rng, nglyphs=rng.choice([2, 3, 5, 8]), kinds=("line", "line", "qcurve"), grid=8, half=0.3, mats=mats,
                              maxdepth=4, pcomp=0.6, mixed=0.35, offstart=True, open_=0.1, offgrid=8)
            err = None
        yield {"fd": fd, "skip": skip, "cubic": cubic, "err": err, "convertCubics": True if cubic else rng.random() < 0.7,
               "reverseDirection": rng.random() < 0.75, "flatten": flatten, "lib": rng.choice(["ufoLib2", "defcon"]),
               "allQuadratic": True}


# ---------------------------------------------------------------- dropImpliedOnCurves=True

def _q(rng, lim=300):
    """an off-curve coordinate: integers, halves, quarters and eighths (all exact doubles, and so are their midpoints)"""
    k = rng.randrange(-lim, lim + 1)
    r = rng.random()
    if r < 0.45:
        return k
    if r < 0.8:
        return k + 0.5
    return k + rng.choice([0.25, 0.75, 0.125, 0.375])


def _slot_kinds(rng, nslots, mode):
    """what stands between two consecutive off-curve points: an on-curve point exactly at their midpoint ("mid"), one that
    is the midpoint only after rounding ("rmid"), one just off the midpoint ("off"), a free on-curve point ("free"), two
    on-curve points ("line"), or nothing ("impl": the point is already implied in the source)"""
    w = {"mid": 5, "rmid": 2, "off": 2, "free": 2, "line": 1, "impl": 1}
    if mode == "search":
        w = {"mid": 4, "rmid": 4, "off": 4, "free": 1, "line": 1, "impl": 1}
    pool = [k for k, v in w.items() for _ in range(v)]
    kinds = [rng.choice(pool) for _ in range(nslots)]
    if rng.random() < 0.15:
        kinds = ["mid"] * nslots          # every on-curve point is implied: an all-off-curve contour is left
    if all(k == "impl" for k in kinds):
        kinds[0] = "free"                 # a source contour without on-curve points is not generated
    return kinds


def _fill_slot(rng, kind, a, b):
    """the on-curve point(s) between off-curve points a and b"""
    mx, my = (a[0] + b[0]) / 2, (a[1] + b[1]) / 2
    if kind == "mid":
        return [[mx, my, "qcurve"]]
    if kind == "rmid":
        # rounded(a) + rounded(b) == 2 * rounded(p) but p is not the midpoint: only possible when the rounded sum is even
        from fontTools.misc.roundTools import otRound
        sx, sy = otRound(a[0]) + otRound(b[0]), otRound(a[1]) + otRound(b[1])
        px = sx // 2 + rng.choice([-0.25, 0.25, 0.375, -0.5, 0.125]) if sx % 2 == 0 else mx
        py = sy // 2 + rng.choice([-0.25, 0.25, 0.375, -0.5, 0.125]) if sy % 2 == 0 else my
        return [[px, py, "qcurve"]]
    if kind == "off":
        d = rng.choice([0.125, 0.25, 0.5, 1, -0.125, -0.5, -1, 2])
        return [[mx + d, my, "qcurve"]] if rng.random() < 0.5 else [[mx, my + d, "qcurve"]]
    if kind == "free":
        return [[_q(rng), _q(rng), "qcurve"]]
    if kind == "line":
        return [[_q(rng), _q(rng), "qcurve"], [_q(rng), _q(rng), "line"]]
    return []


def drop_contour(rng, mode="normal", recipe=None):
    """a closed quadratic contour: off-curve points with `slots` between them; returns (points, recipe)"""
    if recipe is None:
        n = rng.choice([1, 2, 2, 3, 3, 4, 5, 6])
        recipe = {"kinds": _slot_kinds(rng, n, mode), "rot": rng.randrange(0, 3 * n)}
    n = len(recipe["kinds"])
    offs = [[_q(rng), _q(rng)] for _ in range(n)]
    pts = []
    for i in range(n):
        pts.append([offs[i][0], offs[i][1], None])
        pts.extend(_fill_slot(rng, recipe["kinds"][i], offs[i], offs[(i + 1) % n]))
    # with one off-curve point the slot closes on the point itself: [off, on-at-the-same-place] is a legal, degenerate case
    r = recipe["rot"] % len(pts)
    pts = pts[r:] + pts[:r]
    # a point that follows an off-curve point must be "qcurve", one that follows an on-curve point "line"
    for i, p in enumerate(pts):
        if p[2] is not None:
            p[2] = "qcurve" if pts[i - 1][2] is None else "line"
    return pts, recipe


def _gen_drop(rng, n, mode):
    mats = ["id", "id", "mirrorx", "mirrory", "rot90", "rot180", "swap", "half", "shear", "sc15"]
    for i in range(n):
        fd = outline_font(rng, nglyphs=rng.choice([1, 2, 3, 5]), kinds=("line", "qcurve"), grid=8, half=0.3, mats=mats,
                          maxdepth=3, pcomp=0.4, mixed=0.4, offstart=True, open_=0.0, offgrid=4)
        for g in fd["glyphs"]:
            g["contours"] = [drop_contour(rng, mode)[0] if rng.random() < 0.85 else c for c in g["contours"]]
        yield {"fd": fd, "skip": [], "cubic": False, "err": None, "convertCubics": rng.random() < 0.6,
               "reverseDirection": rng.random() < 0.7, "flatten": False, "lib": rng.choice(["ufoLib2", "defcon"]),
               "allQuadratic": True, "drop": True}


def _gen_joint(rng, n, mode):
    for i in range(n):
        nm = rng.choice([2, 2, 3])
        names = rng.sample(["A", "B", "C", "x", "y"], rng.choice([1, 2, 3]))
        glyphs = {}
        for nm_ in names:
            recs = [drop_contour(rng, mode)[1] for _ in range(rng.choice([1, 1, 2]))]
            # the same recipe in every master: same flags; where a slot is "mid" a master may put the point off the midpoint
            ms = []
            for k in range(nm):
                cs = []
                for rec in recs:
                    r2 = dict(rec)
                    if k > 0 or rng.random() < 0.3:
                        r2["kinds"] = [("off" if kd in ("mid", "rmid") and rng.random() < 0.35 else kd) for kd in rec["kinds"]]
                    cs.append(drop_contour(rng, mode, r2)[0])
                ms.append(cs)
            glyphs[nm_] = ms
        bad = None
        if rng.random() < (0.25 if mode == "search" else 0.08):
            # malformed: one master of one glyph gets another flag pattern (an off-curve point turned on-curve)
            bn = rng.choice(names); bk = rng.randrange(nm)
            for c in glyphs[bn][bk]:
                offs = [p for p in c if p[2] is None]
                if offs:
                    offs[0][2] = "line"; bad = [bn, bk]
                    for j, p in enumerate(c):
                        if p[2] is not None:
                            p[2] = "qcurve" if c[j - 1][2] is None else "line"
                    break
        yield {"joint": True, "names": names, "masters": [[glyphs[g][k] for g in names] for k in range(nm)],
               "dflt": rng.randrange(nm), "reverseDirection": rng.random() < 0.6, "lib": rng.choice(["ufoLib2", "defcon"]),
               "bad": bad, "direct": i % 3 == 2 and bad is None, "optimizeGvar": rng.random() < 0.5}   # incompatible masters are rejected up-front by fonts_to_quadratic


CURVE_TYPE_KEY = "com.github.googlei18n.cu2qu.curve_type"      # fontTools.cu2qu.ufo.CURVE_TYPE_LIB_KEY
HIST_OPS = ("empty", "empty", "ttf", "ttf-other", "otf", "sparse", "pre")


def _gen_hist(rng, n, mode):
    """state the compile must not depend on: (a) lib keys that only an in-place run may read/write (cu2qu's curve-type key, in
    font.lib or in the default layer's lib, values quadratic / cubic / junk), (b) a HISTORY of earlier not-in-place compiles on
    the SAME font object (an empty layer, a sparse layer, the default layer with the same or other options, compileOTF, a bare
    TTFPreProcessor run) before the observed compileTTF.  The source handed to the predicate is the authored data."""
    mats = ["id", "id", "mirrorx", "mirrory", "rot90", "rot180", "swap", "half", "shear"]
    for i in range(n):
        cubic = (i % 6 == 5)
        if cubic:
            fd = outline_font(rng, nglyphs=rng.choice([1, 2]), kinds=("line", "curve", "curve", "qcurve"), grid=8, half=0.2, mats=["id"],
                              maxdepth=1, pcomp=0.0, mixed=0.0, offstart=False, lim=500)
        else:
            fd = outline_font(rng, nglyphs=rng.choice([1, 2, 3, 5]), kinds=("line", "line", "qcurve"), grid=8, half=0.3, mats=mats,
                              maxdepth=3, pcomp=0.5, mixed=0.35, offstart=True, open_=0.0, offgrid=8)
        r = rng.random()
        libkey = None
        if r < (0.7 if mode == "search" else 0.55):
            libkey = [rng.choice(["font", "font", "layer"]), rng.choice(["quadratic", "quadratic", "quadratic", "cubic", "mixed"])]
        hist = []
        if libkey is None or rng.random() < 0.4:
            hist = [rng.choice(HIST_OPS) for _ in range(rng.choice([1, 1, 2, 3]))]
        # layers the history may compile: one without glyphs, one sparse (a contour-only copy of some source glyphs)
        simple = [g for g in fd["glyphs"] if g["contours"] and not g["components"]]
        fd["layers"] = {"sketches": [], "bg": [dict(g, unicodes=[]) for g in simple[:2]]}
        yield {"fd": fd, "skip": [], "cubic": cubic, "err": None, "convertCubics": True if cubic else rng.random() < 0.8,
               "reverseDirection": rng.random() < 0.8, "flatten": False, "lib": rng.choice(["ufoLib2", "defcon"]),
               "allQuadratic": True, "libkey": libkey, "hist": hist}


OVERLAP_KEY = "public.truetype.overlap"
OBJECT_LIBS_KEY = "public.objectLibs"
ROUND_KEY = "public.truetype.roundOffsetToGrid"
METRICS_KEY = "public.truetype.useMyMetrics"


def _gen_glyphlib(rng, n, mode):
    """per-glyph / per-component TrueType lib keys that the instruction compiler turns into glyf FLAG bits after the outlines
    are built (InstructionCompiler._set_simple_flags / _set_composite_flags: OVERLAP_SIMPLE lives in the first POINT's flag
    byte next to the on-curve bit, OVERLAP_COMPOUND / ROUND_XY_TO_GRID / USE_MY_METRICS in the component records): whatever
    their values - also an explicit False, which writers rarely emit - the outline and the references must be what they are
    without the keys.  The keys are not part of the model's input (fd_glyphs_json drops every lib)."""
    mats = ["id", "id", "mirrorx", "mirrory", "rot90", "rot180", "swap", "half", "shear"]
    for i in range(n):
        flatten = rng.random() < 0.25
        fd = outline_font(rng, nglyphs=rng.choice([1, 2, 3, 5]), kinds=("line", "line", "qcurve"), grid=8, half=0.3,
                          mats=mats[:8] if flatten else mats, maxdepth=3, pcomp=0.45, mixed=0.3, offstart=(i % 3 == 0),
                          open_=0.0, offgrid=8)
        pf = 0.6 if mode == "search" else 0.45
        clib = {}
        for g in fd["glyphs"]:
            r = rng.random()
            if r < pf:
                g["lib"] = {OVERLAP_KEY: False}
            elif r < pf + 0.3:
                g["lib"] = {OVERLAP_KEY: True}
            if g["components"] and rng.random() < 0.6:
                # None = no identifier; {} = identifier without keys; else the two component keys with either value
                clib[g["name"]] = [rng.choice([None, {}, {ROUND_KEY: False}, {ROUND_KEY: True}, {METRICS_KEY: True}, {METRICS_KEY: False},
                                               {ROUND_KEY: False, METRICS_KEY: True}]) for _ in g["components"]]
        if not any(g["contours"] and g.get("lib", {}).get(OVERLAP_KEY) is False for g in fd["glyphs"]) and rng.random() < 0.8:
            cands = [g for g in fd["glyphs"] if g["contours"]]
            if cands:
                rng.choice(cands)["lib"] = {OVERLAP_KEY: False}
        case = {"fd": fd, "skip": [], "cubic": False, "err": None, "convertCubics": rng.random() < 0.7,
                "reverseDirection": rng.random() < 0.75, "flatten": flatten, "lib": rng.choice(["ufoLib2", "defcon"]),
                "allQuadratic": True, "glyphlib": True, "clib": clib}
        # autoUseMyMetrics: make a component eligible (same advance, identity, no horizontal shift) in some composites
        byname = {g["name"]: g for g in fd["glyphs"]}
        for g in fd["glyphs"]:
            if g["components"] and not g["contours"] and rng.random() < 0.5:
                c = rng.choice(g["components"])
                if c[0] in byname:
                    g["width"] = byname[c[0]]["width"]
                    if rng.random() < 0.7:
                        c[1][0:5] = [1, 0, 0, 1, 0]
        case["autoUMM"] = rng.random() < 0.8
        yield case


def gen(rng, n, mode):
    yield from _gen_base(rng, n, mode)
    # the same generator state as before for the streams above; the new streams come after them
    yield from _gen_drop(rng, max(8, n // 3), mode)
    yield from _gen_joint(rng, max(4, n // 12), mode)
    yield from _gen_hist(rng, max(12, n // 4), mode)
    yield from _gen_glyphlib(rng, max(10, n // 8), mode)


def _bez3(p0, p1, p2, p3, t):
    u = 1 - t
    return (u * u * u * p0[0] + 3 * u * u * t * p1[0] + 3 * u * t * t * p2[0] + t * t * t * p3[0],
            u * u * u * p0[1] + 3 * u * u * t * p1[1] + 3 * u * t * t * p2[1] + t * t * t * p3[1])


def _bez2(p0, p1, p2, t):
    u = 1 - t
    return (u * u * p0[0] + 2 * u * t * p1[0] + t * t * p2[0], u * u * p0[1] + 2 * u * t * p1[1] + t * t * p2[1])


def _sample(glyph, glyphset, per=256):
    """dense samples of the outline, curves only (list of polylines, one per curved segment)"""
    from fontTools.pens.recordingPen import RecordingPen
    pen = RecordingPen()
    glyph.draw(pen)
    out, cur, start = [], None, None
    for op, a in pen.value:
        if op == "moveTo":
            cur = start = a[0]
        elif op == "lineTo":
            out.append(("l", [cur, a[0]])); cur = a[0]
        elif op == "curveTo":
            out.append(("c", [_bez3(cur, a[0], a[1], a[2], k / per) for k in range(per + 1)])); cur = a[2]
        elif op == "qCurveTo":
            from fontTools.pens.basePen import decomposeQuadraticSegment
            if a[-1] is None:
                continue
            for c1, p2 in decomposeQuadraticSegment(a):
                out.append(("q", [_bez2(cur, c1, p2, k / per) for k in range(per + 1)])); cur = p2
        elif op in ("closePath", "endPath"):
            if op == "closePath" and cur != start and cur is not None:
                out.append(("l", [cur, start]))
    return out


def _dist_pt_seg(p, a, b):
    dx, dy = b[0] - a[0], b[1] - a[1]
    L = dx * dx + dy * dy
    t = 0 if L == 0 else max(0, min(1, ((p[0] - a[0]) * dx + (p[1] - a[1]) * dy) / L))
    return math.hypot(p[0] - a[0] - t * dx, p[1] - a[1] - t * dy)


def _maxdev(src_polys, dst_polys):
    """one-sided Hausdorff distance: samples of the source CURVES to the destination outline"""
    segs = [(pl[k], pl[k + 1]) for _, pl in dst_polys for k in range(len(pl) - 1)]
    worst = 0.0
    for kind, pl in src_polys:
        if kind != "c":
            continue
        for p in pl[::4]:
            # coarse prefilter on bounding distance
            d = min(_dist_pt_seg(p, a, b) for a, b in segs if abs(a[0] - p[0]) < 40 or abs(b[0] - p[0]) < 40 or True)
            worst = max(worst, d)
    return worst


def _glyf_contours(tt, name):
    glyf = tt["glyf"]
    g = glyf[name]
    cs, start = [], 0
    if g.numberOfContours > 0:
        coords, ends, flags = g.getCoordinates(glyf)
        for e in ends:
            cs.append([[coords[k][0], coords[k][1], bool(flags[k] & 1)] for k in range(start, e + 1)])
            start = e + 1
    return cs


def _run_joint(case):
    """a variable font through compileVariableTTF(ds, dropImpliedOnCurves=True): masters are compiled unrounded and
    undropped, varLib prunes jointly; observed: the default master's glyf entry and the gvar tuples' point counts"""
    import ufo2ft
    from fontTools.designspaceLib import AxisDescriptor, DesignSpaceDocument, SourceDescriptor
    from fontTools.ttLib import TTFont
    names, masters, dflt = case["names"], case["masters"], case["dflt"]
    nm = len(masters)
    locs = [400 + 100 * k for k in range(nm)]
    ds = DesignSpaceDocument()
    ax = AxisDescriptor()
    ax.name, ax.tag, ax.minimum, ax.default, ax.maximum = "Weight", "wght", locs[0], locs[dflt], locs[-1]
    ds.addAxis(ax)
    for k in range(nm):
        fd = {"upm": 1000, "info": {"familyName": "C02 Joint", "styleName": "M%d" % k}, "lib": {},
              "glyphs": [{"name": n, "width": 500, "unicodes": [], "contours": masters[k][gi], "components": [], "anchors": []}
                         for gi, n in enumerate(names)]}
        src = SourceDescriptor()
        src.font = build(fd, case["lib"])
        src.name, src.familyName, src.styleName, src.location = "master%d" % k, "C02 Joint", "M%d" % k, {"Weight": locs[k]}
        ds.addSource(src)
    out = []
    direct = bool(case.get("direct"))
    # "direct" sub-stream: the default options (convertCubics=True: fonts_to_quadratic re-draws every glyph through segment
    # pens); the masters the joint drop starts from are then taken from the implementation itself, compiled by
    # compileInterpolatableTTFsFromDS (unrounded floats, nothing dropped) from an identical designspace
    kw = {"useProductionNames": False, "reverseDirection": case["reverseDirection"], "optimizeGvar": bool(case.get("optimizeGvar", True))}
    if not direct:
        kw["convertCubics"] = False
    dmasters = None
    try:
        if direct:
            ds2 = DesignSpaceDocument()
            ds2.addAxis(ax)
            for k, s0 in enumerate(ds.sources):
                s2 = SourceDescriptor()
                fd = {"upm": 1000, "info": {"familyName": "C02 Joint", "styleName": "M%d" % k}, "lib": {},
                      "glyphs": [{"name": n, "width": 500, "unicodes": [], "contours": masters[k][gi], "components": [], "anchors": []}
                                 for gi, n in enumerate(names)]}
                s2.font = build(fd, case["lib"])
                s2.name, s2.familyName, s2.styleName, s2.location = s0.name, s0.familyName, s0.styleName, dict(s0.location)
                ds2.addSource(s2)
            mds = ufo2ft.compileInterpolatableTTFsFromDS(ds2, **{k_: v for k_, v in kw.items() if k_ != "optimizeGvar"})
            dmasters = []
            for s2 in mds.sources:
                glyf = s2.font["glyf"]
                per = []
                for n in names:
                    g = glyf[n]
                    cs, start = [], 0
                    if g.numberOfContours > 0:
                        for e in g.endPtsOfContours:
                            cs.append([[rat(g.coordinates[j][0]), rat(g.coordinates[j][1]), bool(g.flags[j] & 1)] for j in range(start, e + 1)])
                            start = e + 1
                    per.append(cs)
                dmasters.append(per)
        tt = ufo2ft.compileVariableTTF(ds, dropImpliedOnCurves=True, **kw)
        buf = io.BytesIO(); tt.save(buf); buf.seek(0)
        tt = TTFont(buf)
        err = None
        # the variable font instantiated at every non-default master's location: what is left of that master
        from fontTools.varLib import instancer
        insts = {}
        for k in range(nm):
            if k == dflt:
                continue
            buf.seek(0)
            it = instancer.instantiateVariableFont(TTFont(buf), {"wght": locs[k]}, inplace=True)
            b2 = io.BytesIO(); it.save(b2); b2.seek(0)
            insts[k] = TTFont(b2)
    except Exception as e:
        tt, err = None, type(e).__name__
    for gi, n in enumerate(names):
        if tt is None:
            obs = {"err": err}
        else:
            var = tt["gvar"].variations.get(n, []) if "gvar" in tt else []
            obs = {"err": None, "contours": _glyf_contours(tt, n), "gvar": [len(v.coordinates) for v in var],
                   "inst": [[k, _glyf_contours(insts[k], n)] for k in sorted(insts)]}
        if direct and dmasters is not None:
            inp = {"masters": [dmasters[k][gi] for k in range(nm)], "dflt": dflt, "direct": True}
        else:
            inp = {"masters": [[[[rat(x), rat(y), t] for x, y, t in c] for c in masters[k][gi]] for k in range(nm)],
                   "dflt": dflt, "convertCubics": False, "reverseDirection": case["reverseDirection"]}
        inp["inst"] = [k for k in range(nm) if k != dflt]
        inp["optimizeGvar"] = bool(case.get("optimizeGvar", True))
        isbad = bool(case.get("bad")) and case["bad"][0] == n
        npts_src = sum(len(c) for c in masters[dflt][gi])
        npts_obs = sum(len(c) for c in obs.get("contours", [])) if obs.get("err") is None else npts_src
        tags = ["joint", "joint-direct" if direct else "joint-source", "iup:%s" % bool(case.get("optimizeGvar", True)), "masters:%d" % nm, "rev:%s" % case["reverseDirection"], case["lib"], "err:" + str(obs.get("err")),
                "dropped" if npts_obs < npts_src else "nodrop"] + (["incompatible"] if isbad else [])
        out.append({"op": "joint", "in": inp, "obs": obs, "tags": tags, "nontrivial": npts_obs < npts_src})
    return out


def run(case):
    import ufo2ft
    from fontTools.ttLib import TTFont
    if case.get("joint"):
        return _run_joint(case)
    fd = case["fd"]
    font = build(fd, case["lib"])
    kw = {"useProductionNames": False, "convertCubics": case["convertCubics"], "reverseDirection": case["reverseDirection"],
          "flattenComponents": case["flatten"], "allQuadratic": case["allQuadratic"]}
    if case["err"] is not None:
        kw["cubicConversionError"] = case["err"]
    if case.get("skip"):
        kw["skipExportGlyphs"] = list(case["skip"])
    if case.get("drop"):
        kw["dropImpliedOnCurves"] = True
    if case.get("autoUMM") is False:
        kw["autoUseMyMetrics"] = False
    obs = {"err": None}
    fobs = {"err": None}
    hist_errs = []
    if case.get("libkey"):
        where, val = case["libkey"]
        (font.lib if where == "font" else font.layers.defaultLayer.lib)[CURVE_TYPE_KEY] = val
    for gname, recs in (case.get("clib") or {}).items():
        # component identifiers + public.objectLibs entries (the only way a UFO carries per-component flags)
        if gname not in font:
            continue
        olibs = {}
        for k, (comp, rec) in enumerate(zip(font[gname].components, recs)):
            if rec is None:
                continue
            comp.identifier = "c%d" % k
            if rec:
                olibs["c%d" % k] = dict(rec)
        if olibs:
            font[gname].lib[OBJECT_LIBS_KEY] = olibs
    for op in case.get("hist") or []:
        # earlier compiles on the same object, all with the default inplace=False; what they return is not looked at
        try:
            if op == "empty":
                ufo2ft.compileTTF(font, layerName="sketches", **kw)
            elif op == "sparse":
                ufo2ft.compileTTF(font, layerName="bg", **kw)
            elif op == "ttf":
                ufo2ft.compileTTF(font, **kw)
            elif op == "ttf-other":
                ufo2ft.compileTTF(font, **dict(kw, reverseDirection=not case["reverseDirection"], flattenComponents=True))
            elif op == "otf":
                ufo2ft.compileOTF(font, useProductionNames=False, optimizeCFF=0)
            elif op == "pre":
                from ufo2ft.preProcessor import TTFPreProcessor as _P
                _P(font, convertCubics=case["convertCubics"], reverseDirection=case["reverseDirection"]).process()
        except Exception as e:
            hist_errs.append(op + ":" + type(e).__name__)
    try:
        tt = ufo2ft.compileTTF(font, **kw)
        buf = io.BytesIO(); tt.save(buf); buf.seek(0)
        tt = TTFont(buf)
        glyf = tt["glyf"]
        order = tt.getGlyphOrder()
        src_names = {g["name"] for g in fd["glyphs"]}
        gl = []
        dev = {}
        if case["cubic"]:
            from ufo2ft.preProcessor import TTFPreProcessor
            font2 = build(fd, case["lib"])
            pk = {"convertCubics": True, "reverseDirection": case["reverseDirection"], "flattenComponents": case["flatten"]}
            if case["err"] is not None:
                pk["conversionError"] = case["err"]
            pre = TTFPreProcessor(font2, **pk).process()
            tol = (case["err"] if case["err"] is not None else 0.001) * fd["upm"]
            for g in fd["glyphs"]:
                if any(p[2] == "curve" for c in g["contours"] for p in c):
                    d = _maxdev(_sample(font2[g["name"]], font2), _sample(pre[g["name"]], pre))
                    dev[g["name"]] = (d, tol + 0.02)
        for n in order:
            if n == ".notdef" and n not in src_names:
                continue
            g = glyf[n]
            if g.isComposite():
                comps = []
                for c in g.components:
                    t = getattr(c, "transform", [[1, 0], [0, 1]])
                    comps.append([c.glyphName, c.x, c.y, [rat(t[0][0]), rat(t[0][1]), rat(t[1][0]), rat(t[1][1])]])
                gl.append({"name": n, "kind": "composite", "comps": comps})
            else:
                cs, start = [], 0
                if g.numberOfContours > 0:
                    coords, ends, flags = g.getCoordinates(glyf)
                    for e in ends:
                        cs.append([[coords[k][0], coords[k][1], bool(flags[k] & 1)] for k in range(start, e + 1)])
                        start = e + 1
                d = {"name": n, "kind": "simple", "contours": cs}
                if n in dev:
                    d["maxdev"] = rat(dev[n][0]); d["tol"] = rat(dev[n][1])
                else:
                    d["maxdev"] = "0"; d["tol"] = "0"
                gl.append(d)
        if case.get("glyphlib"):
            # the flag bytes / component flag words of the compiled (saved, reloaded) glyf table, with everything
            # _set_simple_flags / _set_composite_flags are handed: coordinates, contour ends, the component records
            fg = []
            for n in order:
                if n == ".notdef" and n not in src_names:
                    continue
                g = glyf[n]
                if g.isComposite():
                    cs_ = []
                    for c in g.components:
                        t = getattr(c, "transform", [[1, 0], [0, 1]])
                        cs_.append([c.glyphName, c.x, c.y, [rat(t[0][0]), rat(t[0][1]), rat(t[1][0]), rat(t[1][1])], c.flags & 0x1E14])
                    fg.append({"name": n, "kind": "composite", "comps": cs_})
                elif g.numberOfContours > 0:
                    fg.append({"name": n, "kind": "simple", "nc": g.numberOfContours, "coords": [[x, y] for x, y in g.coordinates],
                               "ends": list(g.endPtsOfContours), "flags": list(g.flags)})
                else:
                    fg.append({"name": n, "kind": "simple", "nc": g.numberOfContours, "coords": [], "ends": [], "flags": []})
            fobs.update({"glyphs": fg, "widths": [[n, tt["hmtx"][n][0]] for n in order]})
        obs.update({"glyphs": gl, "order": order,
                    "maxp": {"elements": tt["maxp"].maxComponentElements, "depth": tt["maxp"].maxComponentDepth}})
    except Exception as e:
        obs = {"err": type(e).__name__}
        fobs = {"err": type(e).__name__}
    inp = {"glyphs": fd_glyphs_json(fd), "convertCubics": case["convertCubics"], "reverseDirection": case["reverseDirection"],
           "flatten": case["flatten"], "skip": case.get("skip") or []}
    dropped = False
    if case.get("drop"):
        inp["drop"] = True
        # a point is missing from some simple glyph that has no components in the source
        src_pts = {g["name"]: sum(len(c) for c in g["contours"]) for g in fd["glyphs"] if not g["components"]}
        dropped = any(g["kind"] == "simple" and g["name"] in src_pts and sum(len(c) for c in g["contours"]) < src_pts[g["name"]]
                      for g in obs.get("glyphs", []))
    mixed = any(g["contours"] and g["components"] for g in fd["glyphs"])
    neg = any(t[0] * t[3] - t[1] * t[2] < 0 for g in fd["glyphs"] for _, t in g["components"])
    off = any(c and c[0][2] is None for g in fd["glyphs"] for c in g["contours"])
    tags = ["cubic" if case["cubic"] else "linequad", "cc:%s" % case["convertCubics"], "rev:%s" % case["reverseDirection"],
            "flat:%s" % case["flatten"], case["lib"], "err:" + str(obs.get("err"))] + (["mixed"] if mixed else []) + (["skip"] if case.get("skip") else []) + \
        (["det<0"] if neg else []) + (["offstart"] if off else []) + ((["drop", "dropped" if dropped else "nodrop"]) if case.get("drop") else [])
    if case.get("glyphlib"):
        vals = {g["name"]: g.get("lib", {}).get(OVERLAP_KEY) for g in fd["glyphs"]}
        fsimple = any(g["contours"] and vals[g["name"]] is False for g in fd["glyphs"])
        tags += ["glyphlib"] + (["ovl-false-outline"] if fsimple else []) + \
            (["ovl-true-outline"] if any(g["contours"] and vals[g["name"]] is True for g in fd["glyphs"]) else []) + \
            (["ovl-composite"] if any(not g["contours"] and g["components"] and vals[g["name"]] is not None for g in fd["glyphs"]) else []) + \
            (["complib"] if case.get("clib") else [])
        reqs = [{"op": "font", "in": inp, "obs": obs, "tags": tags, "nontrivial": fsimple and obs.get("err") is None}]
        # the flag post-processing itself (Model/C02Flags.lean): what the UFO glyphs' libs say + the compiled hmtx advances
        clib = case.get("clib") or {}
        ufl = []
        for g in fd["glyphs"]:
            recs = clib.get(g["name"])
            ids = [None if (recs is None or k >= len(recs) or recs[k] is None) else "c%d" % k for k in range(len(g["components"]))]
            ol = None
            if recs is not None and any(r for r in recs):
                ol = [["c%d" % k, r.get(ROUND_KEY), r.get(METRICS_KEY)] for k, r in enumerate(recs) if r]
            ufl.append({"name": g["name"], "ovl": g.get("lib", {}).get(OVERLAP_KEY), "ids": ids, "objlibs": ol})
        finp = dict(inp, flagsIn={"auto": case.get("autoUMM") is not False, "widths": fobs.pop("widths", []), "glyphs": ufl})
        og = fobs.get("glyphs", [])
        nset = sum(1 for g in og if g["kind"] == "simple" and g["flags"] and g["flags"][0] & 0x40)
        ncf = sum(1 for g in og if g["kind"] == "composite" and any(c[4] != 4 for c in g["comps"]))
        ftags = ["glyphlib-flags", "ovl-simple-set:%d" % min(nset, 2), "compflags-changed:%d" % min(ncf, 2), "auto:%s" % (case.get("autoUMM") is not False),
                 "flat:%s" % case["flatten"], "err:" + str(fobs.get("err"))] + \
            (["umm"] if any(c[4] & 0x200 for g in og if g["kind"] == "composite" for c in g["comps"]) else []) + \
            (["noround"] if any(not (c[4] & 0x4) for g in og if g["kind"] == "composite" for c in g["comps"]) else []) + \
            (["ovl-compound"] if any(c[4] & 0x400 for g in og if g["kind"] == "composite" for c in g["comps"]) else [])
        reqs.append({"op": "flags", "in": finp, "obs": fobs, "tags": ftags, "nontrivial": (nset + ncf) > 0 and fobs.get("err") is None})
        return reqs
    ishist = "hist" in case
    if ishist:
        tags += ["state", "libkey:%s" % ("-".join(case["libkey"]) if case.get("libkey") else None)] + \
            ["hist:" + op for op in sorted(set(case.get("hist") or []))] + ["histerr:" + e for e in hist_errs]
        # the state can only matter where the TrueType convention changes something: a reversal or a re-anchoring is due
        moved = case["reverseDirection"] or (case["convertCubics"] and off) or case["cubic"]
    return [{"op": "font", "in": inp, "obs": obs, "tags": tags,
             "nontrivial": (moved and bool(case.get("libkey") or case.get("hist"))) if ishist else
                           dropped if case.get("drop") else ((mixed and (neg or off)) or case["cubic"])}]


def agree(req, rep):
    m, o = rep["model"], req["obs"]
    if m.get("err") is not None or o.get("err") is not None:
        return (m.get("err") is not None) == (o.get("err") is not None)
    if req["op"] == "flags":
        mg = {g["name"]: g for g in m["glyphs"]}
        for g in o["glyphs"]:
            e = mg.get(g["name"])
            if e is None or e["kind"] != g["kind"]:
                return False
            if g["kind"] == "simple" and any(e[k] != g[k] for k in ("nc", "coords", "ends", "flags")):
                return False
            if g["kind"] == "composite" and e["comps"] != g["comps"]:
                return False
        return sorted(mg) == sorted(g["name"] for g in o["glyphs"])
    if req["op"] == "joint":
        if m["contours"] != o["contours"]:
            return False
        # instances at the master locations: exact, unless IUP-optimised deltas were asked for (inferred within 1/2, the
        # instance rounded again: a unit off at ties)
        tol = 1 if req["in"].get("optimizeGvar", True) else 0
        if [e[0] for e in m.get("inst", [])] != [e[0] for e in o.get("inst", [])]:
            return False
        for (_, mc), (_, oc) in zip(m.get("inst", []), o.get("inst", [])):
            if [len(c) for c in mc] != [len(c) for c in oc]:
                return False
            for c1, c2 in zip(mc, oc):
                for p1, p2 in zip(c1, c2):
                    if p1[2] != p2[2] or abs(p1[0] - p2[0]) > tol or abs(p1[1] - p2[1]) > tol:
                        return False
        return True
    mg = {g["name"]: g for g in m["glyphs"]}
    for g in o["glyphs"]:
        e = mg.get(g["name"])
        if e is None:
            return False
        if e["kind"] == "cubic":
            if g["kind"] != "simple":
                return False
            continue
        if e["kind"] != g["kind"]:
            return False
        if g["kind"] == "simple" and e["contours"] != g["contours"]:
            return False
        if g["kind"] == "composite" and e["comps"] != g["comps"]:
            return False
    return m["maxp"] == o["maxp"] and sorted(mg) == sorted(g["name"] for g in o["glyphs"])


def shrink(case):
    if case.get("joint"):
        # fewer glyphs, then fewer contours per glyph (in every master alike)
        for gi in range(len(case["names"]) - 1, -1, -1):
            if len(case["names"]) > 1:
                c = dict(case); c["names"] = case["names"][:gi] + case["names"][gi + 1:]
                c["masters"] = [m[:gi] + m[gi + 1:] for m in case["masters"]]
                if case.get("bad") and case["bad"][0] not in c["names"]:
                    c["bad"] = None
                yield c
        for gi in range(len(case["names"])):
            nc = len(case["masters"][0][gi])
            for ci in range(nc - 1, -1, -1):
                if nc > 1:
                    c = dict(case)
                    c["masters"] = [[g[:ci] + g[ci + 1:] if j == gi else g for j, g in enumerate(m)] for m in case["masters"]]
                    yield c
        return
    gl = case["fd"]["glyphs"]
    # state stream: a shorter history, no lib key
    for k in range(len(case.get("hist") or [])):
        c = dict(case); c["hist"] = case["hist"][:k] + case["hist"][k + 1:]
        yield c
    if case.get("libkey") and case.get("hist"):
        c = dict(case); c["libkey"] = None
        yield c
    for s_ in case.get("skip") or []:
        c = dict(case); c["skip"] = [x for x in case["skip"] if x != s_]
        if c["skip"]:
            yield c
    for i in range(len(gl) - 1, -1, -1):
        nm = gl[i]["name"]
        if any(c[0] == nm for g in gl for c in g["components"]):
            continue
        c = dict(case); c["fd"] = dict(case["fd"]); c["fd"]["glyphs"] = gl[:i] + gl[i + 1:]
        c["skip"] = [x for x in (case.get("skip") or []) if x != nm]
        if case.get("skip") and not c["skip"]:
            continue
        yield c
    for i, g in enumerate(gl):
        if len(g["contours"]) > 1:
            c = dict(case); c["fd"] = dict(case["fd"]); g2 = dict(g); g2["contours"] = g["contours"][:-1]
            c["fd"]["glyphs"] = gl[:i] + [g2] + gl[i + 1:]
            yield c


LEVEL_TEXT = ("Proved (Lean, all inputs): after the TrueType pre-processing steps every glyph has contours or components but not both and "
              "draws what it drew (decompose with the has-contours include predicate, then flatten; any traversal order); flattened composites "
              "reference only non-composite glyphs; with a skip-export list every exported glyph still draws a permutation of its source contours (C02_render_skip) and on the compiled font every component reference resolves to a glyph present, none skipped, and the observed references interpreted over the source draw the source contours; re-anchoring and reversal permute a closed contour's points; the DFS depth used for the "
              "traversal order under-counts on shared bases (witness) while maxp is the true depth. Line/quadratic glyphs are compared point "
              "for point with the compiled glyf table; cubic conversion is measured against cubicConversionError*unitsPerEm (cu2qu is external). "
              "dropImpliedOnCurves=True (Props/C02Drop.lean, all closed contours of any length): `drop_outline` - leaving out on-curve points that lie between two "
              "off-curve points and are D-near their midpoint leaves the expanded outline (every implied point written out) D-near point for point, started one "
              "point later exactly when the first point is left out; hence C02_drop_render (on the integer grid, and for the exact half of the rule on all "
              "rational contours: the expanded outline is the SAME list - also when only off-curve points are left, witness C02_drop_all_off), "
              "C02_drop_round (the static path tests on the unrounded coordinates and rounds afterwards: the compiled contour's expansion is the source's within 1/2 "
              "per coordinate, flags equal), C02_drop_round_bound / _sharp / _vs_undropped (against the contour compiled without the option the implied point "
              "differs from the stored one by at most 1/2, attained at (0,0),(1/2,1/2),(1,1)), C02_drop_rounded_only (a point dropped by the rounded half of "
              "`_is_mid_point` only), C02_drop_idempotent and C02_drop_round_idempotent / C02_drop_maximal (nothing impliable is left, also after rounding), "
              "C02_drop_spec / C02_drop_glyph_spec_max (the model meets the predicate compiled fonts are judged by); joint: C02_drop_joint_subset(_idx) (the dropped "
              "set is the intersection of the masters' droppable sets; witness: a point impliable in one master only is kept in all), C02_drop_joint_compatible "
              "(one mask for all masters; afterwards the same contour count, flags and contour ends; every master keeps each contour's outline - within rounding, "
              "exactly on the integer grid), C02_drop_joint_error (ValueError iff two participating masters differ in flags / contour structure), "
              "C02_drop_joint_spec (what is left in the variable font's default glyf entry satisfies the joint predicate, for every list of masters), "
              "restrict_contour (after any valid drop the test mask of what is left is the original mask at the kept positions), C02_drop_joint_maximal (after the joint drop "
              "no point passes the test in all masters: the drop has happened and a second joint pass drops nothing), C02_drop_maximal_src (single font: none of the kept "
              "source points is impliable on the unrounded coordinates), C02_drop_joint_instance (each master with the joint mask applied is that master's own points picked "
              "by the default entry's flags - the predicate the instantiated variable font is judged by, at tolerance 0).")
LEVEL_NOTE = ("Trusted: Lean kernel + standard axioms; correspondence harness; glyf codec and maxp.recalc (fontTools); cu2qu's error bound is "
              "a measured hypothesis (partial for the cubic clause); dropImpliedOnCurves=True is modelled for quadratic glyphs (fontTools' "
              "dropImpliedOnCurvePoints read from source, `math.isclose` as exact equality) and tied through compileTTF and compileVariableTTF "
              "(default master's glyf entry + gvar point counts; convertCubics=False in the variable stream); default master's glyf entry, gvar point counts, instances at the master locations); mutants that move the rounding before the "
              "test (single or joint) or skip the joint drop keep the rendered outline but leave impliable points: they fail the maximality clauses with a failing input.  "
              "State stream (lib keys, compile history on one object): observation against the unchanged model and predicate - the Lean driver evaluates holdsSimple / holdsComposite / maxp on the "
              "observed font against the AUTHORED source and the model output (independent of key and history) must agree; no new theorem: that a not-in-place compile reads no "
              "curve-type key and leaves the source object untouched (BaseFilter.__call__'s `glyphSet is None` test, `copy=not inplace`, `rememberCurveType and self.inplace`) is "
              "tested, not proved.  Seeded changes that make an empty glyph set fall back to the font's own layer (filters then run in place; the next compile reverses twice) "
              "or that honour the key when not in place (reversal skipped) fail with a failing input on every seed tried.  "
              "Glyph-lib stream (public.truetype.overlap on glyphs, objectLibs flags on components): holdsSimple / holdsComposite "
              "evaluated by the Lean driver on the observed glyf data against the authored source, model (lib-independent) must agree; and the instruction compiler's flag "
              "post-processing is now INSIDE the model (Model/C02Flags.lean: setSimpleFlags, setCompositeFlags, autoUseMyMetrics on Nat flag words, `x &= ~m` as x xor (x and m)): "
              "op `flags` compares the model's flag bytes and component flag words with the compiled glyf and evaluates holdsSimpleFlags / holdsCompositeFlags (Spec/C02Flags.lean) on the font.  "
              "Proved for all flag lists and lib values (Props/C02Flags.lean): the model meets holdsSimpleFlags; every bit of every point's flag byte except 0x40 of the first is the pen's "
              "(so on-curve and cubic bits), coordinates / contour ends / counts untouched; key absent or no contours = identity; key present = bit 6 of the first flag is the value; idempotent; any output "
              "accepted by the predicate keeps all on-curve / cubic bits; kernel-checked negative witness for `first & flag` instead of `first & ~flag` (the point turns off-curve, predicate false).  "
              "Composites: the model meets holdsCompositeFlags for every component list, lib content, hmtx advances and both autoUseMyMetrics settings (C02_flags_composite_spec, by induction over the component list with the step lemmas C02_flags_step_first / C02_flags_loop_rest and C02_flags_auto_mask for the fallback): references kept, flag words differ at most in 0x4 / 0x200 and 0x400 on the first component, 0x400 of the first = lib value when present and counts equal, count mismatch = only 0x200 may differ (nothing with auto off); the per-component VALUES of 0x4 / 0x200 remain model/font comparison only.  A seeded change that clears the first point's on-curve bit when the key is False fails with a failing input on seeds 0..4.")
