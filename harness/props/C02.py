"""C02 - TrueType outlines render the source shape; composites stay valid."""
import io
import math

from gen import outline_font
from geom import fd_glyphs_json
from ufo import build, rat

ID = "C02"
PROOF_FILES = ["Geom", "Reverse", "Render", "Flatten", "GoodCert", "C02", "C02Skip"]
THEOREM = "Ufo2ft.C02.C02_mixed / C02_render / C02_render_skip / C02_mixed_skip / C02_flatten / C02_points_perm / depth facts (+ shared geometry theorems)"
N = {"quick": 160, "thorough": 3000}
RULE = ("random fonts (line / quadratic contours incl. contours starting off-curve, open contours; component graphs depth<=4 with "
        "F2Dot14-exact matrices incl. mirrors/shears, half-integer offsets; mixed glyphs; shared bases/diamonds) x {convertCubics, "
        "reverseDirection, flattenComponents} (a quarter of them with a skipExportGlyphs list naming helper glyphs made of helper glyphs; integral matrices and offsets there) through compileTTF, saved, reloaded: every glyf point (coordinates, on/off flag, contour "
        "ends), every component record and maxp's component statistics are compared with the Lean model; glyphs with cubic segments "
        "(simple glyphs only) are measured: the deviation of the un-rounded quadratic spline produced by the pre-processor from the source "
        "cubic is sampled (256 points per segment) and must stay within cubicConversionError*unitsPerEm. non-trivial = a mixed glyph or a "
        "composite of depth>=2 exists and some contour starts off-curve or some component is mirrored.")
ASSUMED = ["cu2qu (curve_to_quadratic) is external: its error bound is measured on the pre-processor's un-rounded output, not proved",
           "glyf binary encoding/decoding and maxp.recalc are fontTools'", "dropImpliedOnCurves=False only (the default)"]


def gen(rng, n, mode):
    for i in range(n):
        cubic = (i % 4 == 3)
        mats = ["id", "id", "mirrorx", "mirrory", "rot90", "rot180", "swap", "half", "shear", "shear2", "sc15", "nonuni", "mirrorshear"]
        if cubic:
            fd = outline_font(rng, nglyphs=rng.choice([1, 2, 3]), kinds=("line", "curve", "curve", "qcurve"), grid=8, half=0.2, mats=["id"],
                              maxdepth=1, pcomp=0.0, mixed=0.0, offstart=False, lim=500)
            upm = rng.choice([1000, 1000, 2048, 250, 500])
            fd["upm"] = upm
            err = rng.choice([None, None, 0.002, 0.0002, 0.0005, 0.01])
        flatten = rng.random() < 0.4
        if flatten:
            # composed 2x2 entries must stay inside F2Dot14's [-2, 2): otherwise TTGlyphPointPen decomposes the glyph
            mats = ["id", "id", "mirrorx", "mirrory", "rot90", "rot180", "swap", "half"]
        skip = []
        if cubic:
            pass
        elif i % 4 == 1:
            # skip-export stream: helper glyphs made of helper glyphs, referenced by exported composites; integral matrices and
            # offsets so that the observed component records can be interpreted exactly (Spec.holdsCompositeSkip)
            fd = outline_font(rng, nglyphs=rng.choice([3, 5, 8, 12]), kinds=("line", "line", "qcurve"), grid=8, half=0.3,
                              mats=["id", "id", "mirrorx", "mirrory", "rot90", "rot180", "swap"],
                              maxdepth=4, pcomp=0.7, mixed=0.25, offstart=True, open_=0.0, offgrid=8)
            for g in fd["glyphs"]:
                for c in g["components"]:
                    c[1][4] = int(c[1][4] // 1); c[1][5] = int(c[1][5] // 1)
            names = [g["name"] for g in fd["glyphs"]]
            skip = [nm for nm in names[:-1] if rng.random() < 0.4] or names[:1]
            err = None
        else:
            fd = outline_font(rng, nglyphs=rng.choice([2, 3, 5, 8]), kinds=("line", "line", "qcurve"), grid=8, half=0.3, mats=mats,
                              maxdepth=4, pcomp=0.6, mixed=0.35, offstart=True, open_=0.1, offgrid=8)
            err = None
        yield {"fd": fd, "skip": skip, "cubic": cubic, "err": err, "convertCubics": True if cubic else rng.random() < 0.7,
               "reverseDirection": rng.random() < 0.75, "flatten": flatten, "lib": rng.choice(["ufoLib2", "defcon"]),
               "allQuadratic": True}


def _bez3(p0, p1, p2, p3, t):
    u = 1 - t
    return (u * u * u * p0[0] + 3 * u * u * t * p1[0] + 3 * u * t * t * p2[0] + t * t * t * p3[0],
            u * u * u * p0[1] + 3 * u * u * t * p1[1] + 3 * u * t * t * p2[1] + t * t * t * p3[1])


def _bez2(p0, p1, p2, t):
    u = 1 - t
    return (u * u * p0[0] + 2 * u * t * p1[0] + t * t * p2[0], u * u * p0[1] + 2 * u * t * p1[1] + t * t * p2[1])


def _sample(glyph, glyphset, per=256):
    """dense samples of the outline, curves only (list of polylines, one per curved segment)"""
    from fontTools.pens.recordingPen import RecordingPen
    pen = RecordingPen()
    glyph.draw(pen)
    out, cur, start = [], None, None
    for op, a in pen.value:
        if op == "moveTo":
            cur = start = a[0]
        elif op == "lineTo":
            out.append(("l", [cur, a[0]])); cur = a[0]
        elif op == "curveTo":
            out.append(("c", [_bez3(cur, a[0], a[1], a[2], k / per) for k in range(per + 1)])); cur = a[2]
        elif op == "qCurveTo":
            from fontTools.pens.basePen import decomposeQuadraticSegment
            if a[-1] is None:
                continue
            for c1, p2 in decomposeQuadraticSegment(a):
                out.append(("q", [_bez2(cur, c1, p2, k / per) for k in range(per + 1)])); cur = p2
        elif op in ("closePath", "endPath"):
            if op == "closePath" and cur != start and cur is not None:
                out.append(("l", [cur, start]))
    return out


def _dist_pt_seg(p, a, b):
    dx, dy = b[0] - a[0], b[1] - a[1]
    L = dx * dx + dy * dy
    t = 0 if L == 0 else max(0, min(1, ((p[0] - a[0]) * dx + (p[1] - a[1]) * dy) / L))
    return math.hypot(p[0] - a[0] - t * dx, p[1] - a[1] - t * dy)


def _maxdev(src_polys, dst_polys):
    """one-sided Hausdorff distance: samples of the source CURVES to the destination outline"""
    segs = [(pl[k], pl[k + 1]) for _, pl in dst_polys for k in range(len(pl) - 1)]
    worst = 0.0
    for kind, pl in src_polys:
        if kind != "c":
            continue
        for p in pl[::4]:
            # coarse prefilter on bounding distance
            d = min(_dist_pt_seg(p, a, b) for a, b in segs if abs(a[0] - p[0]) < 40 or abs(b[0] - p[0]) < 40 or True)
            worst = max(worst, d)
    return worst


def run(case):
    import ufo2ft
    from fontTools.ttLib import TTFont
    fd = case["fd"]
    font = build(fd, case["lib"])
    kw = {"useProductionNames": False, "convertCubics": case["convertCubics"], "reverseDirection": case["reverseDirection"],
          "flattenComponents": case["flatten"], "allQuadratic": case["allQuadratic"]}
    if case["err"] is not None:
        kw["cubicConversionError"] = case["err"]
    if case.get("skip"):
        kw["skipExportGlyphs"] = list(case["skip"])
    obs = {"err": None}
    try:
        tt = ufo2ft.compileTTF(font, **kw)
        buf = io.BytesIO(); tt.save(buf); buf.seek(0)
        tt = TTFont(buf)
        glyf = tt["glyf"]
        order = tt.getGlyphOrder()
        src_names = {g["name"] for g in fd["glyphs"]}
        gl = []
        dev = {}
        if case["cubic"]:
            from ufo2ft.preProcessor import TTFPreProcessor
            font2 = build(fd, case["lib"])
            pk = {"convertCubics": True, "reverseDirection": case["reverseDirection"], "flattenComponents": case["flatten"]}
            if case["err"] is not None:
                pk["conversionError"] = case["err"]
            pre = TTFPreProcessor(font2, **pk).process()
            tol = (case["err"] if case["err"] is not None else 0.001) * fd["upm"]
            for g in fd["glyphs"]:
                if any(p[2] == "curve" for c in g["contours"] for p in c):
                    d = _maxdev(_sample(font2[g["name"]], font2), _sample(pre[g["name"]], pre))
                    dev[g["name"]] = (d, tol + 0.02)
        for n in order:
            if n == ".notdef" and n not in src_names:
                continue
            g = glyf[n]
            if g.isComposite():
                comps = []
                for c in g.components:
                    t = getattr(c, "transform", [[1, 0], [0, 1]])
                    comps.append([c.glyphName, c.x, c.y, [rat(t[0][0]), rat(t[0][1]), rat(t[1][0]), rat(t[1][1])]])
                gl.append({"name": n, "kind": "composite", "comps": comps})
            else:
                cs, start = [], 0
                if g.numberOfContours > 0:
                    coords, ends, flags = g.getCoordinates(glyf)
                    for e in ends:
                        cs.append([[coords[k][0], coords[k][1], bool(flags[k] & 1)] for k in range(start, e + 1)])
                        start = e + 1
                d = {"name": n, "kind": "simple", "contours": cs}
                if n in dev:
                    d["maxdev"] = rat(dev[n][0]); d["tol"] = rat(dev[n][1])
                else:
                    d["maxdev"] = "0"; d["tol"] = "0"
                gl.append(d)
        obs.update({"glyphs": gl, "order": order,
                    "maxp": {"elements": tt["maxp"].maxComponentElements, "depth": tt["maxp"].maxComponentDepth}})
    except Exception as e:
        obs = {"err": type(e).__name__}
    inp = {"glyphs": fd_glyphs_json(fd), "convertCubics": case["convertCubics"], "reverseDirection": case["reverseDirection"],
           "flatten": case["flatten"], "skip": case.get("skip") or []}
    mixed = any(g["contours"] and g["components"] for g in fd["glyphs"])
    neg = any(t[0] * t[3] - t[1] * t[2] < 0 for g in fd["glyphs"] for _, t in g["components"])
    off = any(c and c[0][2] is None for g in fd["glyphs"] for c in g["contours"])
    tags = ["cubic" if case["cubic"] else "linequad", "cc:%s" % case["convertCubics"], "rev:%s" % case["reverseDirection"],
            "flat:%s" % case["flatten"], case["lib"], "err:" + str(obs.get("err"))] + (["mixed"] if mixed else []) + (["skip"] if case.get("skip") else []) + \
        (["det<0"] if neg else []) + (["offstart"] if off else [])
    return [{"op": "font", "in": inp, "obs": obs, "tags": tags, "nontrivial": (mixed and (neg or off)) or case["cubic"]}]


def agree(req, rep):
    m, o = rep["model"], req["obs"]
    if m.get("err") is not None or o.get("err") is not None:
        return (m.get("err") is not None) == (o.get("err") is not None)
    mg = {g["name"]: g for g in m["glyphs"]}
    for g in o["glyphs"]:
        e = mg.get(g["name"])
        if e is None:
            return False
        if e["kind"] == "cubic":
            if g["kind"] != "simple":
                return False
            continue
        if e["kind"] != g["kind"]:
            return False
        if g["kind"] == "simple" and e["contours"] != g["contours"]:
            return False
        if g["kind"] == "composite" and e["comps"] != g["comps"]:
            return False
    return m["maxp"] == o["maxp"] and sorted(mg) == sorted(g["name"] for g in o["glyphs"])


def shrink(case):
    gl = case["fd"]["glyphs"]
    for s_ in case.get("skip") or []:
        c = dict(case); c["skip"] = [x for x in case["skip"] if x != s_]
        if c["skip"]:
            yield c
    for i in range(len(gl) - 1, -1, -1):
        nm = gl[i]["name"]
        if any(c[0] == nm for g in gl for c in g["components"]):
            continue
        c = dict(case); c["fd"] = dict(case["fd"]); c["fd"]["glyphs"] = gl[:i] + gl[i + 1:]
        c["skip"] = [x for x in (case.get("skip") or []) if x != nm]
        if case.get("skip") and not c["skip"]:
            continue
        yield c
    for i, g in enumerate(gl):
        if len(g["contours"]) > 1:
            c = dict(case); c["fd"] = dict(case["fd"]); g2 = dict(g); g2["contours"] = g["contours"][:-1]
            c["fd"]["glyphs"] = gl[:i] + [g2] + gl[i + 1:]
            yield c


LEVEL_TEXT = ("Proved (Lean, all inputs): after the TrueType pre-processing steps every glyph has contours or components but not both and "
              "draws what it drew (decompose with the has-contours include predicate, then flatten; any traversal order); flattened composites "
              "reference only non-composite glyphs; with a skip-export list every exported glyph still draws a permutation of its source contours (C02_render_skip) and on the compiled font every component reference resolves to a glyph present, none skipped, and the observed references interpreted over the source draw the source contours; re-anchoring and reversal permute a closed contour's points; the DFS depth used for the "
              "traversal order under-counts on shared bases (witness) while maxp is the true depth. Line/quadratic glyphs are compared point "
              "for point with the compiled glyf table; cubic conversion is measured against cubicConversionError*unitsPerEm (cu2qu is external).")
LEVEL_NOTE = ("Trusted: Lean kernel + standard axioms; correspondence harness; glyf codec and maxp.recalc (fontTools); cu2qu's error bound is "
              "a measured hypothesis (partial for the cubic clause); dropImpliedOnCurves=True is not modelled.")
