"""C15 - component/transform filters preserve rendering; anchors follow components."""
import math
from fractions import Fraction

from gen import MATS, outline_font
from geom import snap_glyphset
from ufo import build, rat

ID = "C15"
PROOF_FILES = ["Geom", "Reverse", "Render", "Flatten", "Propagate", "Propagate2", "Transform", "GoodCert", "C15", "PropagateNum", "TotalGeom", "TotalFilters", "TotalFilters2", "Total", "C15Requested", "PropagateNumTotal"]
THEOREM = ("Ufo2ft.C15.* (affine algebra, reversal laws, bake lemma, decompose/flatten render preservation, compensation; "
           "C15_transform / transform_convex / transform_all: the whole TransformationsFilter maps every included glyph exactly once; "
           "tMatrix_eq_requested / requestedMatrix_apply / C15_transform_requested: the matrix set_context builds IS the requested one "
           "(point map: slant, then scale, about the origin height, then offset) for all options, Slant included; "
           "C15_propagate (+ _placed, _complete, _idempotent, _no_override): the whole PropagateAnchorsFilter satisfies holdsPropagate; "
           "C15_propagateP / C15_propagate_promotion / promoteSplit_promotes / promoteSplit_raises: the mark-ligature promotion; "
           "C15_propagate_numbering / C15_propagateN / propagate_numbered / found_length (Props/PropagateNum.lean): one entry per carrying COMPONENT - an added anchor is named "
           "exactly like a base anchor, or name_N with 2 <= #components whose base carries name and N <= that number); TOTALITY (Props/Total*.lean): runFilter_*_ok, C15_decompose_total / _decomposeTransformed_total / _flatten_total / _transform_total / C15_propagate_total / _outcome / C15_propagate_idempotent_total, promoteSplit_error_iff - every filter returns a result on every well-formed closed glyph set; anchor propagation raises only Exception, only when a ligature-mark-named glyph has a component without bounds; the second run always exists; REQUESTED MAP ON THE OUTLINE (Props/C15Requested.lean): C15_requested_simple - for ANY rational tan value, ScaleX, ScaleY, origin height, offsets and any include set the model output for an included non-empty glyph without components is requestedMap applied to every point and anchor (advance: linear part), transform_own_data, C15_requested_composite - the RESOLVED outline of every included glyph (composites too) is mapped pointwise by requestedMap when 0 < ScaleX*ScaleY and the include set is convex; C15_transform_approx / C15_requested_approx / C15_requested_total - transformWrongApprox eps finds nothing in the MODEL output for every eps >= 0 (against m, resp. requestedMatrix o), requestedMatrix_det(_pos); Props/PropagateNumTotal.lean: C15_propagate_numbering_total / C15_propagateN_total / _outcome / _wf / _total_cert - the numbering theorems without the '= .ok' hypothesis")
N = {"quick": 500, "thorough": 8000}
RULE = ("random component graphs (depth<=4, shared bases, dyadic affine matrices incl. mirrors, shears, rotations, singular) with "
        "line/curve/qcurve contours on a 1/8 grid, x each filter in {decompose, decomposeTransformed, flatten, transformations, "
        "propagateAnchors} x include subsets x ufoLib2/defcon; 45% of the propagateAnchors cases are the mark-ligature stream (2-4 mark "
        "glyphs, line outlines, some empty / open / with a curve, nested mark composites, composites named a_b / a_b.alt / _a_b / ab of 2-3 "
        "marks at offsets of equal length -> exact distance ties, duplicated components, a non-mark base sometimes); in half of the other propagateAnchors cases "
        "(and for 25% of the mark glyphs of the ligature stream) glyphs carry DUPLICATED anchor names (a second/third anchor of an existing name at another position, "
        "inserted anywhere in the list - legal in UFO, both libraries keep a list), tagged dupanchor:used-by-included-composite when an included composite has such a base; the real filter is applied to a glyph set and the glyph set before/after "
        "is compared with the Lean model point for point, and the declarative predicate (spec renderer) is evaluated on the observed "
        "result - for the transformations filter against the REQUESTED matrix (Spec.requestedMatrix, derived from the options pointwise, not read back from the filter). "
        "40% of the transformations cases are the SLANT stream: Slant in {12,-9,15,7.5,20,-30,45,1,-12.5} x ScaleX in {100,80,50,125,70,200,90} x ScaleY in "
        "{100,110,50,115,200,85,90} (ScaleX != ScaleY in ~80%) x any Origin / Offset / include, no singular components; tan and the non-dyadic scales round in "
        "doubles, so this stream is compared with tolerance 1e-6 (model vs code, and the tolerance form transformWrongApprox of the predicate on the observed "
        "result). non-trivial = some glyph reaches depth>=2 or has a det<0 component, and the filter modified something "
        "(mark-ligature stream: a ligature-named composite was modified; slant stream: Slant != 0 and the filter modified something).")
ASSUMED = ["math.tan is external: Slant is 0 in the exact stream; in the slant stream the double math.tan(math.radians(Slant)) is an input of "
           "model and predicate (exact rational; the theorems of Props/C15Requested.lean hold for ANY rational value of it), and doubles are compared with tolerance 1e-6 "
           "(the rounding of the real filter's double arithmetic in the slant stream is not analysed: observed, not proved)",
           "mark-ligature promotion: `_bounds` is the model's own rule (lineBounds = BoundsPen on outlines without curve segments, compared "
           "with the pen on every generated component); for components whose outline has curve segments the pen's value is an input "
           "measured by the harness with fontTools BoundsPen",
           "double arithmetic is exact on the generators' dyadic grids (DESIGN section 3)"]

FILTERS = ["decompose", "decomposeTransformed", "flatten", "transformations", "propagateAnchors"]
ANCH = ["top", "bottom", "ogonek", "top.alt"]


MARKNAMES = ["acutecomb", "gravecomb", "circumflexcomb", "tildecomb", "dotbelowcomb"]
# offsets of length 50 (and a few others): ties of the squared distance are frequent
OFFS = [(30, 40), (40, 30), (-30, 40), (50, 0), (0, -50), (0, 0), (14, 48), (0, 50), (25, 0), (-12.5, 6), (100, 200), (0, 300)]


def ligmark_font(rng, mode):
    """mark glyphs (line outlines, sometimes none, sometimes with a curve), optionally nested mark composites, and composites
    with ligature names made only (mostly) of marks: the promotion branch of `_propagate_glyph_anchors`"""
    glyphs = []
    marks = rng.sample(MARKNAMES, rng.choice([2, 3, 4]))
    tiemode = rng.random() < 0.4          # untransformed components at offsets of equal length: exact ties of the distance
    corner0 = tiemode or rng.random() < 0.3          # bounds' corner at the origin: the offsets alone decide
    for nm in marks:
        g = {"name": nm, "unicodes": [], "width": 0, "contours": [], "components": [], "anchors": []}
        if rng.random() > (0.15 if mode == "search" else 0.06):
            for _ in range(rng.choice([1, 1, 2])):
                x0 = 0 if corner0 else rng.choice([0, 10, -20, 7.5]); y0 = 0 if corner0 else rng.choice([0, 500, -100, 12.5])
                w = rng.choice([20, 50, 100.5]); h = rng.choice([10, 50, 80])
                c = [[x0, y0, "line"], [x0 + w, y0, "line"], [x0 + w, y0 + h, "line"], [x0 + rng.choice([0, 5]), y0 + h, "line"]]
                if rng.random() < 0.15:
                    c[0][2] = "move"                                   # open contour
                if rng.random() < 0.08:
                    c = c[:2] + [[x0 + w + 30, y0 - 40, None], [x0 + w, y0 + h, "qcurve"]] + c[3:]     # curved: the pen's extrema
                g["contours"].append(c)
            if rng.random() < 0.1:
                g["contours"].append([[x0 - 5, y0 - 5, "move"]])      # a single point counts for BoundsPen
        side = rng.choice(["top", "top", "bottom"])
        g["anchors"].append(["_" + side, rng.choice([0, 10, 30.5]), rng.choice([0, 480, -20])])
        if rng.random() < 0.8:
            g["anchors"].append([side, rng.choice([0, 12, 30]), rng.choice([700, 690.5, -200])])
        if rng.random() < 0.3:
            g["anchors"].append([rng.choice(["ogonek", "top.alt", "bottom", "top_1"]), rng.randrange(-50, 50), rng.randrange(-50, 50)])
        if rng.random() < 0.25:
            an = rng.choice(g["anchors"])      # a duplicated anchor name: the first one counts
            g["anchors"].insert(rng.randrange(len(g["anchors"]) + 1), [an[0], an[1] + rng.choice([10, -7.5]), an[2] + rng.choice([20, 0.5])])
        glyphs.append(g)
    pool = list(marks)
    if rng.random() < 0.35:                  # a nested mark: composite of one mark with an own mark anchor
        b = rng.choice(marks)
        dx, dy = rng.choice(OFFS)
        glyphs.append({"name": b + ".case", "unicodes": [], "width": 0, "contours": [], "anchors": [["_top", 5, 6]] + ([["top", 5, 60]] if rng.random() < 0.5 else []),
                       "components": [[b, [1, 0, 0, 1, dx, dy]]]})
        pool.append(b + ".case")
    if rng.random() < 0.2:                   # a non-mark glyph: composites that use it are not promoted
        glyphs.append({"name": "a", "unicodes": [], "width": 500, "contours": [[[0, 0, "line"], [300, 0, "line"], [150, 400, "line"]]],
                       "components": [], "anchors": [["top", 150, 410], ["bottom", 150, -10]]})
        pool.append("a")
    ligs = []
    for _ in range(rng.choice([1, 2, 3])):
        ncomp = rng.choice([2, 2, 3])
        parts = [rng.choice(pool + ligs[-1:]) for _ in range(ncomp)]
        nm = "_".join(p.split(".")[0] for p in parts) + rng.choice(["", "", ".case", ".alt"])
        if rng.random() < 0.07:
            nm = "_" + nm                      # leading underscore: not a ligature name
        if rng.random() < 0.07:
            nm = nm.replace("_", "")           # no underscore: not a ligature name
        if any(g["name"] == nm for g in glyphs):
            continue
        comps = []
        for pth in parts:
            dx, dy = rng.choice(OFFS[:8] if tiemode else OFFS)
            m = MATS["id" if tiemode else rng.choice(["id", "id", "id", "id", "mirrorx", "half", "rot90", "sc15"])]
            comps.append([pth, [m[0], m[1], m[2], m[3], dx, dy]])
        if rng.random() < 0.15:
            comps.append(list(map(lambda x: x, comps[0])))     # the same component twice: an exact tie
        g = {"name": nm, "unicodes": [], "width": 0, "contours": [], "components": comps, "anchors": []}
        if rng.random() < 0.15:
            g["anchors"].append([rng.choice(["top", "_top", "bottom", "topright"]), 1, 2])
        if rng.random() < 0.1:
            g["contours"].append([[0, 0, "line"], [10, 0, "line"], [0, 10, "line"]])
        glyphs.append(g); ligs.append(nm)
    if mode == "search" and rng.random() < 0.3:
        rng.shuffle(glyphs)
    cats = [g["name"] for g in glyphs if g["name"].split(".")[0] in MARKNAMES or (g["name"] in ligs and rng.random() < 0.5)]
    return {"upm": 1000, "glyphs": glyphs, "info": {}, "lib": {}}, cats


def gen(rng, n, mode):
    for i in range(n):
        flt = FILTERS[i % len(FILTERS)]
        if flt == "propagateAnchors" and rng.random() < 0.45:
            fd, cats = ligmark_font(rng, mode)
            names = [g["name"] for g in fd["glyphs"]]
            include = None if rng.random() < 0.6 else [nm for nm in names if rng.random() < 0.7]
            yield {"filter": flt, "fd": fd, "include": include, "opts": {"OffsetX": 0, "OffsetY": 0, "ScaleX": 100, "ScaleY": 100, "Origin": 4},
                   "marks": cats if rng.random() < 0.8 else [], "lib": rng.choice(["ufoLib2", "defcon"]), "missing": False, "stream": "ligmark"}
            continue
        mats = ["id", "id", "mirrorx", "mirrory", "rot90", "rot180", "swap", "half", "shear", "shear2", "sc15", "nonuni", "mirrorshear"]
        # the Slant stream of the transformations filter: Slant != 0 combined with (mostly non-uniform) positive scales, any
        # origin / offset / include.  tan is irrational -> doubles round -> compared with tolerance ("inexact")
        slant = flt == "transformations" and rng.random() < (0.5 if mode == "search" else 0.4)
        if rng.random() < 0.15 and not slant:
            mats += ["singular", "zero"]
        fd = outline_font(rng, nglyphs=rng.choice([2, 3, 4, 6, 9]), kinds=("line", "line", "curve", "qcurve"), grid=8, half=0.2,
                          mats=mats, maxdepth=4, pcomp=0.6, mixed=0.3, offstart=True, open_=0.1, offgrid=8,
                          names=["A", "B", "C", "D", "E", "F", "G", "H", "I", "J", "acutecomb", "gravecomb"])
        names = [g["name"] for g in fd["glyphs"]]
        include = None if rng.random() < 0.4 else [nm for nm in names if rng.random() < 0.55]
        opts = {"OffsetX": 0, "OffsetY": 0, "ScaleX": 100, "ScaleY": 100, "Origin": 4}
        marks = []
        if flt == "transformations":
            if rng.random() < 0.7:
                opts["OffsetX"] = rng.choice([0, 10, -37, 0.5, 12.25])
                opts["OffsetY"] = rng.choice([0, 0, 20, -8.5])
            if rng.random() < 0.7:
                opts["ScaleX"] = rng.choice([100, 50, 200, 25, -100, 400, 12.5])
                opts["ScaleY"] = rng.choice([100, 50, 200, 100, -50])
                if rng.random() < 0.04:
                    # a singular filter matrix: TransformPointPen inverts it eagerly -> ZeroDivisionError on the first
                    # included non-empty glyph
                    opts[rng.choice(["ScaleX", "ScaleY"])] = 0
            opts["Origin"] = rng.choice([4, 4, 0, 1, 2, 3])
            if slant:
                opts["Slant"] = rng.choice([12, -9, 15, 7.5, 20, -30, 45, 1, -12.5])
                opts["ScaleX"] = rng.choice([100, 100, 80, 50, 125, 70, 200, 90])
                opts["ScaleY"] = rng.choice([100, 100, 110, 50, 115, 200, 85, 90])
                if rng.random() < 0.5:
                    include = None
            for g in fd["glyphs"]:
                if rng.random() < 0.4:
                    g["anchors"].append([rng.choice(ANCH), rng.randrange(-300, 600) / 4, rng.randrange(-300, 900) / 4])
        if flt == "propagateAnchors":
            for g in fd["glyphs"]:
                if not g["components"] or rng.random() < 0.25:
                    for an in rng.sample(ANCH, rng.choice([0, 1, 2, 3])):
                        g["anchors"].append([an, rng.randrange(-300, 600) / 4, rng.randrange(-300, 900) / 4])
                if g["name"].endswith("comb") and not g["components"]:
                    g["anchors"] = [["_top", 10, 500.5]] + ([["top", 12, 700]] if rng.random() < 0.5 else [])
                if rng.random() < 0.1 and not g["components"]:
                    g["anchors"].append(["top_1", 5, 6]); g["anchors"].append(["top_2", 50, 6])
            if rng.random() < 0.5:
                # duplicated anchor names (legal in a UFO: anchors are a list, names are no keys; left-over / alternate
                # anchors): `_get_anchor_data` takes the FIRST anchor of a name per component, one entry per COMPONENT
                for g in fd["glyphs"]:
                    if g["anchors"] and rng.random() < 0.6:
                        for _ in range(rng.choice([1, 1, 2])):
                            an = rng.choice(g["anchors"])[0]
                            g["anchors"].insert(rng.randrange(len(g["anchors"]) + 1),
                                                [an, rng.randrange(-300, 600) / 4, rng.randrange(-300, 900) / 4])
            marks = [nm for nm in names if nm.endswith("comb") or rng.random() < 0.1]
        case = {"filter": flt, "fd": fd, "include": include, "opts": opts, "marks": marks,
                "lib": rng.choice(["ufoLib2", "defcon"]), "missing": mode == "search" and rng.random() < 0.1}
        if slant:
            case["inexact"] = True; case["missing"] = False
        yield case


def _origin_height(origin, cap, xh):
    from fontTools.misc.fixedTools import otRound
    return {4: 0, 0: cap, 1: otRound(cap / 2), 2: xh, 3: otRound(xh / 2)}[origin]


def _bounds_table(gs):
    """(xMin, yMin) of every component of every composite with a ligature name, measured with the pen `_bounds` uses
    (fontTools BoundsPen over the glyph set) -- independent of ufo2ft; the model computes the same for line outlines."""
    from fontTools.pens.boundsPen import BoundsPen
    out, seen = [], set()
    for name in gs.keys():
        g = gs[name]
        if "_" not in name or name.startswith("_"):
            continue
        for c in g.components:
            key = (c.baseGlyph, tuple(c.transformation))
            if key in seen:
                continue
            seen.add(key)
            pen = BoundsPen(gs)
            try:
                pen.addComponent(c.baseGlyph, tuple(c.transformation))
                b = None if pen.bounds is None else [rat(pen.bounds[0]), rat(pen.bounds[1])]
            except Exception:
                b = None
            out.append([[c.baseGlyph, [rat(v) for v in c.transformation]], b])
    return out


def run(case):
    from ufo2ft.filters.decomposeComponents import DecomposeComponentsFilter
    from ufo2ft.filters.decomposeTransformedComponents import DecomposeTransformedComponentsFilter
    from ufo2ft.filters.flattenComponents import FlattenComponentsFilter
    from ufo2ft.filters.propagateAnchors import PropagateAnchorsFilter
    from ufo2ft.filters.transformations import TransformationsFilter
    from ufo2ft.util import _GlyphSet
    fd = case["fd"]
    if case["missing"]:
        for g in fd["glyphs"]:
            if g["components"]:
                g["components"][0][0] = "nonexistent"; break
    font = build(fd, case["lib"])
    font.info.capHeight = 700
    font.info.xHeight = 501
    if case["marks"]:
        font.lib["public.openTypeCategories"] = {m: "mark" for m in case["marks"]}
    flt = case["filter"]
    kw = {} if case["include"] is None else {"include": list(case["include"])}
    o = case["opts"]
    if flt == "transformations":
        f = TransformationsFilter(OffsetX=o["OffsetX"], OffsetY=o["OffsetY"], ScaleX=o["ScaleX"], ScaleY=o["ScaleY"],
                                  Slant=o.get("Slant", 0), Origin=o["Origin"], **kw)
    else:
        f = {"decompose": DecomposeComponentsFilter, "decomposeTransformed": DecomposeTransformedComponentsFilter,
             "flatten": FlattenComponentsFilter, "propagateAnchors": PropagateAnchorsFilter}[flt](**kw)
    gs = _GlyphSet.from_layer(font, copy=True)
    before = snap_glyphset(gs)
    bounds = _bounds_table(gs) if flt == "propagateAnchors" else []
    obs = {"err": None}
    try:
        modified = f(font, gs)
        obs["glyphs"] = snap_glyphset(gs)
        obs["modified"] = sorted(modified)
        if flt == "propagateAnchors":
            f2 = PropagateAnchorsFilter(**kw)
            m2 = f2(font, gs)
            obs["secondModified"] = sorted(m2)
            obs["secondSame"] = snap_glyphset(gs) == obs["glyphs"]
    except Exception as e:
        obs = {"err": type(e).__name__}
    inp = {"filter": flt, "glyphs": before, "include": case["include"], "marks": case["marks"], "bounds": bounds,
           "opts": {"OffsetX": rat(o["OffsetX"]), "OffsetY": rat(o["OffsetY"]), "ScaleX": rat(o["ScaleX"]), "ScaleY": rat(o["ScaleY"]),
                    "slantNonzero": o.get("Slant", 0) != 0,
                    # math.tan is external: its double value travels as an exact rational
                    "tanSlant": rat(math.tan(math.radians(o.get("Slant", 0)))) if o.get("Slant", 0) != 0 else "0",
                    "originHeight": rat(_origin_height(o["Origin"], 700, 501))}}
    if case.get("inexact"):
        inp["inexact"] = True
    deep = any(len(g["components"]) and any(any(c2[0] == c[0] for c2 in []) or True for c in g["components"]) for g in fd["glyphs"])
    neg = any(t[0] * t[3] - t[1] * t[2] < 0 for g in fd["glyphs"] for _, t in g["components"])
    nontrivial = bool(obs.get("modified")) and (neg or deep)
    promoted = [g for g in (obs.get("modified") or []) if "_" in g and not g.startswith("_")]
    tie = False
    bt = {(k[0], tuple(k[1])): b for k, b in bounds}
    for g in before:
        if g["name"] in promoted:
            ds = []
            for b_, t_ in g["comps"]:
                v = bt.get((b_, tuple(t_)))
                if v is not None:
                    x, y = Fraction(v[0]), Fraction(v[1]); ds.append(x * x + y * y)
            tie = tie or (len(ds) > 1 and ds.count(min(ds)) > 1)
    if case.get("stream") == "ligmark":
        nontrivial = bool(promoted)
    curved = any(pt[2] != "line" and pt[2] != "move" for g in fd["glyphs"] for c in g["contours"] for pt in c)
    tags = ([case["stream"], "promoted:" + ("yes" if promoted else "no"), "tie:" + ("yes" if tie else "no"),
             "bounds:" + ("pen-measured(curve)" if curved else "modelled")] if case.get("stream") else []) + [flt, case["lib"], "include:" + ("all" if case["include"] is None else "subset"), "err:" + str(obs.get("err")),
            "modified:" + ("yes" if obs.get("modified") else "no")] + (["det<0"] if neg else [])
    if case.get("inexact"):
        nontrivial = bool(obs.get("modified")) and o.get("Slant", 0) != 0
        tags = ["slant(tolerance 1e-6)", "scale:" + ("uniform" if o["ScaleX"] == o["ScaleY"] else "ScaleX!=ScaleY"),
                "origin:" + ("baseline" if o["Origin"] == 4 else "shifted")] + tags
    if flt == "propagateAnchors":
        dupg = {g["name"] for g in fd["glyphs"] if len({a[0] for a in g["anchors"]}) < len(g["anchors"])}
        used = any(c[0] in dupg for g in fd["glyphs"] for c in g["components"] if case["include"] is None or g["name"] in case["include"])
        tags.append("dupanchor:" + ("used-by-included-composite" if used else "in-a-glyph" if dupg else "no"))
    return [{"op": "filter", "in": inp, "obs": obs, "tags": tags, "nontrivial": nontrivial}]


def _close(a, b, tol=Fraction(1, 10 ** 6)):
    """structural equality; strings that are rationals on both sides are compared within tol"""
    if isinstance(a, (list, tuple)) and isinstance(b, (list, tuple)):
        return len(a) == len(b) and all(_close(x, y, tol) for x, y in zip(a, b))
    if isinstance(a, dict) and isinstance(b, dict):
        return a.keys() == b.keys() and all(_close(a[k], b[k], tol) for k in a)
    if isinstance(a, str) and isinstance(b, str) and a != b:
        try:
            return abs(Fraction(a) - Fraction(b)) <= tol
        except (ValueError, ZeroDivisionError):
            return False
    return a == b


def agree(req, rep):
    m, o = rep["model"], req["obs"]
    if m.get("err") is not None or o.get("err") is not None:
        return m.get("err") == o.get("err")
    if req["in"].get("inexact"):
        # Slant stream: the model computes in Q with tan's double value, the code in doubles
        return _close(m["glyphs"], o["glyphs"]) and m["modified"] == o["modified"]
    for (k, b), (k2, b2) in zip(req["in"].get("bounds", []), m.get("bounds", [])):
        if b2 != "curve" and (k != k2 or b != b2):      # the model's BoundsPen rule for line outlines == the pen
            return False
    return m["glyphs"] == o["glyphs"] and m["modified"] == o["modified"]


def shrink(case):
    gl = case["fd"]["glyphs"]
    for i in range(len(gl) - 1, -1, -1):
        nm = gl[i]["name"]
        if any(c[0] == nm for g in gl for c in g["components"]):
            continue
        c = dict(case); c["fd"] = dict(case["fd"]); c["fd"]["glyphs"] = gl[:i] + gl[i + 1:]
        if case["include"] is not None:
            c["include"] = [x for x in case["include"] if x != nm]
        yield c
    for i, g in enumerate(gl):
        if len(g["contours"]) > 1 or (g["contours"] and g["components"]):
            c = dict(case); c["fd"] = dict(case["fd"]); g2 = dict(g); g2["contours"] = g["contours"][:-1]
            c["fd"]["glyphs"] = gl[:i] + [g2] + gl[i + 1:]
            yield c
        if len(g["components"]) > 1:
            for j in range(len(g["components"])):
                c = dict(case); c["fd"] = dict(case["fd"]); g2 = dict(g); g2["components"] = g["components"][:j] + g["components"][j + 1:]
                c["fd"]["glyphs"] = gl[:i] + [g2] + gl[i + 1:]
                yield c


def classify_failure(res):
    """the known include-gap shape of TransformationsFilter: every failing glyph is an included glyph that reaches an included
    glyph through a NON-included composite (DESIGN section C15)."""
    r = res["req"]
    if r["in"]["filter"] != "transformations" or r["obs"].get("err") is not None or not res.get("info"):
        return None
    inc = r["in"]["include"]
    if inc is None:
        return None
    glyphs = {g["name"]: g for g in r["in"]["glyphs"]}

    def reaches_gap(name):
        # DFS: included -> (non-included)+ -> included
        stack = [(b, False) for b, _ in glyphs[name]["comps"] if b in glyphs]
        seen = set()
        while stack:
            n, through = stack.pop()
            if (n, through) in seen:
                continue
            seen.add((n, through))
            if n in inc:
                if through:
                    return True
                nxt = False
            else:
                nxt = True
            # only paths that continue below this node
            for b, _ in glyphs[n]["comps"]:
                if b in glyphs:
                    stack.append((b, nxt if n not in inc else False))
        return False

    bad = res["info"]
    if all(b in glyphs and b in inc and reaches_gap(b) for b in bad):
        return {"filter": "transformations", "shape": "included glyph reaches an included glyph through a non-included composite"}
    return None


LEVEL_TEXT = ("Proved (Lean, all inputs): fontTools Transform algebra (compose = function composition, det multiplicative, flatten's "
              "translate-then-2x2 factorisation = composition, inverse compensation identity), ReverseContourPointPen commutes with "
              "affine maps, the bake lemma (level-by-level reversal = composed-determinant reversal on non-singular paths) and render "
              "preservation of decomposition/flattening steps; TransformationsFilter over the whole glyph set (C15_transform: for every "
              "acyclic glyph set, det>0 matrix and convex include set the declarative predicate holds of the model output: outline, "
              "anchors, advance mapped exactly once, bases and composites both included; false without convexity: "
              "transform_nonconvex_counterexample; tMatrix_eq_requested: for ALL options (offset, scales, slant with tan as a parameter, origin height) the "
              "matrix set_context builds equals the matrix of the requested point map x' = ScaleX/100*(x + tan*(y-h)) + OffsetX, y' = ScaleY/100*(y-h) + h + OffsetY, "
              "i.e. slant before scale); PropagateAnchorsFilter over the whole glyph set (C15_propagate: for every acyclic "
              "glyph set, mark list and include predicate holdsPropagate holds of the model output: anchors only appended, every added "
              "anchor at T(anchor) of a component's base in the final set under its name or name_N, never under a name the glyph had, "
              "nothing missing on base-only composites, a second run changes nothing; C15_propagateP adds the mark-ligature promotion: "
              "exactly one mark component - the first of minimal squared distance of its bounds' corner to the origin - becomes the base, "
              "the composite carries all and only its anchor names, the run raises exactly when a component has no bounds; C15_propagateN adds the numbering "
              "discipline numberingWrong: every added anchor bears exactly the name of an anchor of a component's base, or name_N with at least two components whose base "
              "carries name and 1 <= N <= their number - a base with several anchors of one name counts once, its FIRST anchor of that name is the one propagated (model: find?); C15_propagateN_total / _outcome: the same without assuming that the runs return); the requested map on the outline (C15_requested_simple: for any rational tan, scales, origin height, offsets and include set an included glyph without components comes out with requestedMap applied to every point and anchor; C15_requested_composite: the resolved outline of every included glyph is mapped pointwise when 0 < ScaleX*ScaleY and the include set is convex; C15_requested_approx: the tolerance predicate transformWrongApprox eps holds of the model output for every eps >= 0); the executable models of all five filters are tied to the code point "
              "for point by the correspondence run, and the declarative render-equality predicate is evaluated on the real output.")
LEVEL_NOTE = ("Trusted: Lean kernel + standard axioms; correspondence harness and its dyadic generators; math.tan is external (its double value is a parameter); the Slant stream of the transformations filter is "
              "TOLERANCE-ONLY (1e-6): there agree = |model - code| <= 1e-6 per coordinate and the predicate is transformWrongApprox (position-by-position "
              "comparison of the resolved outline with the requested matrix applied to the outline before, anchors, advance; only contour counts when det <= 0 or a "
              "singular component is reachable) evaluated by the Lean driver on the OBSERVED data. Proved of the MODEL over exact rationals (Props/C15Requested.lean): for any rational tan value the model output is requestedMap applied pointwise (C15_requested_simple: simple glyphs, all options, any include set; C15_requested_composite: resolved outlines of all included glyphs when 0 < ScaleX*ScaleY and the include set is convex) and satisfies the tolerance "
              "form for every eps >= 0 (C15_transform_approx, C15_requested_approx, _total) as well as the exact predicate transformWrong (C15_transform, evaluated in the exact stream). NOT proved: that the real filter's doubles (math.tan, matrix product, rounded coordinates) stay within 1e-6 of these rationals - that is observed by the tolerance stream only (no floating-point error analysis); with ScaleX*ScaleY <= 0 (mirroring / singular requests) only C15_requested_simple applies (glyphs without components), the composite statements assume det > 0 as C15_transform does; the bounds "
              "of components whose outline has curve segments are measured by the harness (fontTools BoundsPen), line outlines are modelled; TransformationsFilter's include-gap double application "
              "is a known finding (see known_findings.json), any other failure is a violation. With duplicated anchor names in a base the declarative predicate "
              "fixes the NAMES (numbering clause) and accepts the position of any base anchor of that name; that it is the first one is checked by the point-for-point "
              "correspondence with the model only.")
