"""C10 - a variable font reproduces each master at that master's location."""
import io
import json
import os
from ufo import build, err_kind, rat
import lib_C10 as L

ID = "C10"
PROOF_FILES = ["C10", "C10Var"]
THEOREM = ("Ufo2ft.C10.C10_kern / C10_kern_reproduced / C10_kern_glyph / C10_own_groups / C10_kern_glyph_own / C10_anchor / C10_collapse / C10_compat / "
           "deltaModel_law / oneAxis_law / nAxis_law / variationModel_law / C10_varmodel / support_self / support_later_zero / "
           "nAxis_law_rounded / nAxis_law_rounded_int / variationModel_law_rounded / C10_outline_rounded / C10_outline_of_law")
N = {"quick": 120, "thorough": 4000}
RULE = ("compatible families in memory: 2-6 full masters on 1-2 axes (default + extremes, optional intermediate(s), optional two-axis "
        "corner), optionally a sparse layer master at an intermediate location, axis maps with non-linear nodes, default source not "
        "necessarily first, ufoLib2/defcon, cubic or straight outlines, a composite with offsets varying and a composite whose component "
        "2x2 matrix is identical / slightly different / clearly different between masters; per-master kerning drawn as random subsets of "
        "a key pool on all four precedence levels (pairs present in only some masters, exception chains, keys naming missing "
        "glyphs/groups, half-integer values, marks in kerning when public.openTypeCategories is set), quantisation 1/2/5/10; in 40 % of the "
        "families the sources do NOT carry the same groups: one or two kerning groups (glyphs outside the common groups of that side) "
        "are defined only by some full masters - as a rule not by the default master - together with class pairs, class/glyph pairs "
        "and exceptions that use them (a pair, with its groups, present in one master only; a master that lacks a group names it in "
        "no key; tags own-groups / master-has-group-default-lacks / master-lacks-group-of-family); anchors "
        "(mark, mark-to-mark, composite) with x.5/x.25 coordinates; feature files: none / equal modulo comments and white space / an "
        "extra unused class in some master / only the default has text. Function level: KernFeatureWriter.getKerningGroups / "
        "getVariableKerningPairs, BaseFeatureWriter._getAnchor, util.collapse_varscalar, get_userspace_location, "
        "featureCompiler._featuresCompatible and (external) varLib VariationModel are called directly and compared with the "
        "Lean model (+ a stream outside the contract: duplicate locations, no full source at the default location, differing groups). "
        "VariationModel: one axis (chains of masters on both sides) and n axes = 2 (sometimes 1 or 3) axes with the default, on-axis "
        "masters (extremes and intermediates), corners of faces/cube, intermediate masters inside the quadrants (same-quadrant clusters "
        "in search mode), random master order, random dict key order, explicit zeros or sparse dicts, axisOrder none/empty/partial/"
        "full/with a foreign axis, a small stream of rejected inputs (duplicate location, no base master); the sorted order, every "
        "support box, reverseMapping, deltas, the integer deltas getDeltas(values, round=otRound) (master values partly x.5/x.25) and the values interpolated from both at 4 points / at every master are compared exactly with the "
        "real class run on doubles when all coordinates are in {0, +-1/2, +-1} (every ratio dyadic), otherwise order/supports exactly "
        "(also against the same class run on fractions.Fraction) and numbers within 1e-9. "
        "End to end: compileVariableTTF(s)/compileVariableCFF2(s) with variableFeatures on and off, single and multi-VF designspaces; "
        "which layout path was taken is observed; each variable font is instantiated (fontTools instancer, saved and re-read) at each of "
        "its full masters' locations and compared with the interpolatable master (outline/advance numbers within 1), with the MODEL's "
        "first-match reading of the modelled getVariableKerningPairs output at that location (agreement) and - through the independent "
        "GPOS interpreter - with that master UFO's own kerning (UFO semantics, every ordered glyph pair) and anchors (every base/mark "
        "pair) (the property). non-trivial = the family has a kerning key that is absent in some full master and an exception chain, "
        "or a sparse master.")
ASSUMED = ["varLib.build_many / merger / instancer and feaLib's variation-store builder reproduce master values at master locations "
           "(the VarModel law: a hypothesis in Lean about the COMPILED tables; proved for the modelled fontTools VariationModel - sort, "
           "_computeMasterSupports, supportScalar, getDeltas, interpolateFromDeltas on exact rationals - for any number of axes and "
           "masters; measured here on every family through instancer.instantiateVariableFont)",
           "VariationModel's double arithmetic equals the rational model: exact on dyadic grids (compared exactly), within 1e-9 otherwise; "
           "the OpenType stores hold getDeltas(values, round=otRound): for the modelled VariationModel the value read back at a "
           "master is PROVED within 1/2 (C10_outline_rounded: a rounding consumer within 1 unit); that gvar/HVAR/CFF2/GPOS stores and "
           "the instancer evaluate exactly this model (supports as regions, these deltas, IUP within its tolerance) is measured",
           "feaLib compiles pair rules as written (glyph pairs before class pairs, first definition wins) - C05's assumption",
           "all sources of a family carry the same anchor inventory; kerning groups may differ between the sources only by groups that "
           "some masters do not define at all (and then do not name in any key) - a group defined DIFFERENTLY in two sources, or a key "
           "naming a group its own master lacks, is outside the contract (function-level stream 'groups-differ' only)"]
EXHAUSTIVE = False

_ROOT = os.path.dirname(os.path.dirname(os.path.dirname(os.path.abspath(__file__))))
FINDING_KINDS = ("variable-kern-diamond", "merge-default-without-gpos", "variable-features-fractional-location")


def _findings_on():
    """shapes of the two findings (see classify_failure) are generated only once the integrator has listed them in
    known_findings.json, or when VERIF_C10_FINDINGS=1/all/<kind,...> asks for them."""
    env = os.environ.get("VERIF_C10_FINDINGS", "")
    if env in ("1", "all"):
        return set(FINDING_KINDS)
    on = set(k for k in env.split(",") if k in FINDING_KINDS)
    try:
        for f in json.load(open(os.path.join(_ROOT, "known_findings.json")))["findings"]:
            if f.get("property") == ID and f.get("kind") == "known" and f.get("shape", {}).get("kind") in FINDING_KINDS:
                on.add(f["shape"]["kind"])
    except Exception:
        pass
    return on


# ------------------------------------------------------------------ generation

def gen(rng, n, mode):
    on = _findings_on()
    # function-level packs first (cheap)
    npack = max(2, n // 12)
    for i in range(npack):
        yield {"kind": "collapse", "items": [L.gen_scalar(rng, mode) for _ in range(40)]}
        yield {"kind": "compat", "items": [L.gen_texts(rng, mode) for _ in range(25)]}
        yield {"kind": "varmodel", "items": [L.gen_varmodel(rng, mode) for _ in range(25)]}
        yield {"kind": "varmodel", "items": [L.gen_varmodelN(rng, mode) for _ in range(40)]}
    for i in range(max(4, n // 2)):
        yield {"kind": "func", "fam": L.gen_func_family(rng, mode)}
    for i in range(n):
        r = rng.random()
        # at most ONE finding shape per family, so that a failing input has exactly one recognisable shape
        which = rng.choice(sorted(on)) if on and rng.random() < 0.3 else None
        fam = L.gen_family(rng, mode, allow_diamond=which == "variable-kern-diamond", exact=r < 0.85, multi=(r < 0.15),
                           allow_nogpos=which == "merge-default-without-gpos",
                           allow_frac=which == "variable-features-fractional-location",
                           own_groups=which != "variable-kern-diamond" and rng.random() < 0.4)
        yield {"kind": "family", "fam": fam, "fmt": rng.choice(["ttf", "cff2"]), "q": rng.choice([1, 1, 1, 2, 5, 10])}


def run(case):
    L.quiet()
    k = case["kind"]
    if k == "collapse":
        return L.run_collapse(case)
    if k == "compat":
        return L.run_compat(case)
    if k == "varmodel":
        return L.run_varmodel(case)
    if k == "func":
        return L.func_requests(case["fam"], case["fam"].get("q", 1), ["func-stream"] + case["fam"].get("ftags", []))
    return L.run_family(case)


def agree(req, rep):
    return L.agree(req, rep)


def shrink(case):
    yield from L.shrink(case)


def classify_failure(res):
    return L.classify_failure(res)


LEVEL_TEXT = ("Proved for all inputs (Lean, unbounded numbers of sources / keys / masters): getVariableKerningPairs gives every usable key of "
              "the union of the full sources' kerning a value that AT EACH FULL SOURCE'S LOCATION is quantize(UFO lookup of that source) - the "
              "exception fallback, not 0 and not an interpolation -, emits nothing else and nothing from sparse sources; hence under ANY "
              "variation model with the master-reproduction law the emitted scalar interpolates to the master's own UFO value at the master, "
              "and for glyph pairs the first-match reading equals the master's UFO kerning except in one exactly characterised shape "
              "(glyph-class key missing in a master that has the class-glyph key; counterexample proved); this also holds when the master's UFO "
              "kerning is read with the master's OWN groups and the master lacks groups that only other masters' pairs use "
              "(C10_own_groups, C10_kern_glyph_own; that the classes of ALL sources are needed is proved by a counterexample, "
              "C10_own_groups_witness: with the default's classes alone a Bold-only class pair reads 0 at Bold); variable anchors carry otRound of "
              "each source layer's anchor at that layer's location; collapse_varscalar returns a number only if all entries equal it; "
              "_featuresCompatible's decision; the master-reproduction law itself is proved for fontTools' delta construction from its two "
              "support facts, and those facts are proved for ANY number of axes and masters (on the axes, at corners, intermediate, in "
              "any order given to the constructor, with explicit zeros): each master's support scalar is 1 at its own location "
              "(support_self), the box-narrowing loop of _computeMasterSupports puts every earlier master outside a later master's "
              "box (loop invariant regionFold_inv, support_later_zero; of the master order only 'fewer axes first' is needed, and the "
              "modelled sort key is proved to be a total preorder refining it), hence interpolateFromDeltas(loc_i, getDeltas(values)) "
              "= values[i] (nAxis_law; variationModel_law for the constructor on the user's order); the one-axis definitions are "
              "proved to be the one-axis case of the n-axis ones.  With the integer deltas varLib stores (getDeltas(values, round=otRound): "
              "each delta rounded after subtracting the ROUNDED earlier contributions) the value read back at master i is within 1/2 "
              "of the master's value - the error of one rounding (nAxis_law_rounded, variationModel_law_rounded), exact for an "
              "integer master value when the earlier masters' scalars there are integers (nAxis_law_rounded_int), not exact in "
              "general (rounded_not_exact_witness: 1/4 off), and rounding the exact deltas independently would miss by 3/4 "
              "(roundedAfter_witness); hence a rounding consumer is within 1 unit of the integer master (C10_outline_rounded).")
LEVEL_NOTE = ("Trusted: Lean kernel + standard axioms; the hand-written model is tied to the code by direct calls of the anchored functions and "
              "by instantiating compiled variable fonts; varLib/feaLib/instancer are assumed to satisfy the VarModel law (measured, not proved; "
              "outlines within 1 unit); with more than one intermediate master per axis integer deltas make kerning/anchors exact only within 1 "
              "unit (separate tolerant stream); all sources of a family carry the same anchor inventory; families whose masters carry different "
              "groups are generated (groups defined by some masters only, the default usually lacking them) and each master is compared "
              "with its UFO kerning under ITS OWN groups, the model's classes being the modelled getKerningGroups over all sources' groups "
              "(not the implementation's); groups redefined with different members in different masters are compared at function level "
              "only. Three findings of the "
              "unchanged code are recorded (harness/findings_C10.json) and generated only once registered: the variable-kerning diamond, "
              "the merge path without GPOS in the default master, masters at non-integer user-space locations under variable features. "
              "kernFeatureWriter2 and infoCompiler are not modelled.")
