"""C17 - automatic features only add to the user's feature file."""
import io
import os

import lib_C17 as L
from ufo import build, err_kind

ID = "C17"
THEOREM = ("Ufo2ft.C17.C17_subsequence / C17_run / C17_write / C17_place / C17_skip / C17_collect / C17_case / "
           "C17_gsub_first / C17_ellipsis / C17_gsub_inv_partial / C17_gdef_gen / C17_gdef_place / C17_gdef_step / "
           "C17_gdef_keeps_carets / C17_gdef_keeps_classes / "
           "totality (Props/C17Total.lean): placeMarked_error_iff / C17_write_error_iff / C17_write_returns_iff / "
           "C17_run_error_iff / C17_run_returns_iff / C17_run_error_where / C17_run_returns_of_tags / "
           "C17_subsequence_total / C17_place_total / C17_write_total / C17_run_total")
PROOF_FILES = ["C17", "C17Total"]
N = {"quick": 2000, "thorough": 30000}
RULE = ("probe stream (60%): random feature files (languagesystems, class/anchor definitions, comments, top-level lookup blocks - some "
        "with GDEF-relative lookup flags - and GDEF table blocks, GSUB and GPOS feature blocks, some useExtension, whose bodies mix "
        "rules, comments, nested lookups and insertion markers at the top / middle / bottom / alone / doubled / mis-cased / nested / "
        "with odd leading white space) run through 1-3 user-defined BaseFeatureWriter subclasses (random feature sets, skip/append, "
        "marker pattern on/off, 0-5 feature blocks in random order incl. tags not owned and duplicates, lookups, class/anchor/"
        "markClass definitions); the AST after every writer and the context every writer saw are compared object by object with "
        "the model. end-to-end stream (40%): the same kind of file on a font with kerning (LTR, RTL, Indic), mark/ligature/mkmk/"
        "abvm/blwm anchors, cursive anchors, ligature carets, openTypeCategories, compiled by compileTTF with default / lib-specified "
        "/ explicit (with ellipsis) writer lists in skip or append mode: recording subclasses of the shipped writers give the AST "
        "after each writer; the stock run's debugFeatureFile must be the same text and be feaLib's print-out of that AST, contain "
        "the user's statements (with the names of their enclosing blocks) as a subsequence, and GSUB must be the same for the "
        "case's writers, for featureWriters=None and for featureWriters=[] (bytes, after replacing the two GDEF-relative numbers of "
        "a lookup - mark filtering set index, mark attachment class - by the glyph sets they denote). hand-written GDEF: a tenth to "
        "a half of the end-to-end files hold a `table GDEF` with any subset of {GlyphClassDef, LigatureCaretByPos, "
        "LigatureCaretByIndex} (each caret form for one or several glyphs), Attach statements and comments in random order, "
        "written as 1-3 `table GDEF` blocks (statements in any distribution, the first block possibly empty, the blocks adjacent "
        "or spread over the file), on "
        "fonts with caret_N / vcaret_N anchors on 0-2 glyphs and public.openTypeCategories absent / complete / 'unassigned' only / "
        "invalid only; the model decides from the user's text and the font description what the GDEF writer still has to write, "
        "the types of the statements it added are read off the AST, and in the binary GDEF.LigCaretList / GlyphClassDef must be the "
        "same with and without writers whenever the user wrote that part by hand. GDEF probe stream (+15%): the shipped "
        "GdefFeatureWriter called directly (no compile; skip or append mode) before / between / after 0-2 probe writers on such "
        "files (30-70% with a hand-written table). function level: marker "
        "pattern on 12.6k texts (every character below U+3100 as prefix); initFeatureWriters on random writer lists "
        "(classes/instances, 0-3 ellipses, lib on/off, GSUB/GPOS/GDEF/None table tags). "
        "non-trivial = some writer consumed a marker or skipped an existing feature - the GDEF writer: skipped hand-written carets "
        "or glyph classes although the font has data for them - (run), >=1 ellipsis or a GSUB writer (writers).")
ASSUMED = [
    "feaLib's parser and asFea are inverse on the generated files (measured: the stock run's text is re-parsed and compared)",
    "object identity of feaLib AST nodes is represented by the ids the harness attaches to the parsed user statements",
    "feature blocks built by writers contain no comment matching the marker pattern (true of the shipped writers)",
    "GSUB is compiled by feaLib from the user's substitution statements only (GSUB invariance is measured on every end-to-end case, not proved)",
    "what the shipped Curs/Kern/Mark writers hand to _insert is font-data dependent and enters the model as observed input",
    "GDEF writer: the type of each user statement inside `table GDEF` is read by the harness from the first word of the user's text; "
    "'the font has categories' and 'number of glyphs with caret anchors' are computed by the harness from the font description "
    "(no skipExportGlyphs, single master); a top-level feature block named GlyphClassDefs/LigatureCarets cannot be written in a feature file",
    "the contents of the generated GDEF statements (which glyphs, which caret coordinates) are not modelled, only their types and number",
]

TMPROOT = "/tmp/build/C17-tmp"
GPOS_TAGS = ["kern", "dist", "mark", "mkmk", "abvm", "blwm", "curs"]
GSUB_TAGS = ["liga", "calt", "ss01"]
OK_MARKERS = ["# Automatic Code", "# Automatic Code Start", "# Automatic Code.", "# Automatic Codex y", "# Automatic Code # x"]
BAD_MARKERS = ["# automatic code", "# AUTOMATIC CODE", "# Automatic code", "#Automatic Code", "#  Automatic Code",
               "# Automatic  Code", "## Automatic Code", "# Automatic Cod", "# x # Automatic Code"]
WS_MARKERS = [" # Automatic Code", "\t\n# Automatic Code", "\u00a0# Automatic Code", "\u3000\u2003# Automatic Code",
              "\u200b# Automatic Code", "\x1f# Automatic Code", "x # Automatic Code", "\ufeff# Automatic Code", "\x85# Automatic Code"]


class Ids:
    def __init__(self):
        self.n = 0

    def __call__(self):
        self.n += 1
        return self.n


def gen_body(rng, ids, src, gpos, shape, odd_ws):
    """items of a feature block; `shape` forces where the (first) marker is"""
    def leaf():
        u = ids()
        src[str(u)] = ("pos a b -%d;" % u) if gpos else rng.choice(["sub a by b;", "sub f i by f_i;", "sub b by c;"])
        return ["l", u]

    def cmt(text=None):
        u = ids()
        return ["c", u, text if text is not None else "# note %d" % u]

    def sub():
        u = ids()
        texts = [rng.choice(OK_MARKERS + ["# inner"]) for _ in range(rng.choice([0, 1, 1, 2]))]
        return ["s", u, texts]

    def ok():
        return cmt(rng.choice(WS_MARKERS[:4] + OK_MARKERS) if odd_ws else rng.choice(OK_MARKERS))

    def bad():
        return cmt(rng.choice(WS_MARKERS[4:] + BAD_MARKERS) if odd_ws else rng.choice(BAD_MARKERS))

    def stuff(n, comments_only=False):
        out = []
        for _ in range(n):
            r = rng.random()
            if comments_only or r < 0.25:
                out.append(cmt())
            elif r < 0.4 and gpos:
                out.append(sub())
            else:
                out.append(leaf())
        return out

    def some(lo=1):
        return stuff(rng.choice([lo, 1, 2, 3]))

    def ensure(l):
        """at least one statement that is not a comment"""
        return l if any(it[0] != "c" for it in l) else l + [leaf()]

    if shape == "none":
        return stuff(rng.choice([0, 1, 2, 3, 4]))
    if shape == "top":
        return stuff(rng.choice([0, 0, 1]), True) + [ok()] + ensure(some())
    if shape == "bottom":
        return ensure(some()) + [ok()] + stuff(rng.choice([0, 0, 1]), True)
    if shape == "middle":
        return ensure(some()) + [ok()] + ensure(some())
    if shape == "alone":
        return stuff(rng.choice([0, 0, 1, 2]), True) + [ok()] + stuff(rng.choice([0, 0, 1]), True)
    if shape == "miscased":
        l = some(0)
        l.insert(rng.randrange(len(l) + 1), bad())
        return l
    if shape == "doubled":
        l = some(0) + [ok()] + some(0) + [ok()] + some(0)
        return l
    if shape == "nested":
        u = ids()
        return stuff(rng.choice([0, 1])) + [["s", u, [rng.choice(OK_MARKERS)]]] + stuff(rng.choice([0, 1]))
    # random soup
    out = []
    for _ in range(rng.randrange(0, 7)):
        r = rng.random()
        out.append(leaf() if r < 0.4 else cmt() if r < 0.6 else ok() if r < 0.78 else bad() if r < 0.88 else (sub() if gpos else leaf()))
    return out


SHAPES = ["none", "top", "bottom", "middle", "alone", "miscased", "doubled", "nested", "soup"]


GDEF_GCD = "GlyphClassDef [a b c f i kadeva khadeva alef bet], [f_i], [acutecomb gravecomb anusvaradeva], ;"


def gen_gdef_table(rng, ids, src):
    """a hand-written `table GDEF`: any subset of {glyph classes, ligature carets by position, ligature carets by contour
    point index} (each of the caret forms possibly for several glyphs), Attach statements and comments (a marker
    among them: it means nothing there), in random order"""
    body = []

    def leaf(text):
        x = ids(); src[str(x)] = text; body.append(["l", x])
    # which of the writer's two features the user wrote by hand
    gcd = rng.random() < 0.5
    form = rng.choice(["none", "none", "pos", "pos", "idx", "idx", "idx", "both"])
    if gcd:
        leaf(rng.choice([GDEF_GCD, GDEF_GCD, "GlyphClassDef [a b], , [acutecomb gravecomb], ;"]))
    if form in ("pos", "both"):
        leaf(rng.choice(["LigatureCaretByPos f_i 300;", "LigatureCaretByPos f_i 200 400;", "LigatureCaretByPos [f_i] 250;"]))
        if rng.random() < 0.25:
            leaf("LigatureCaretByPos a 111;")
    if form in ("idx", "both"):
        leaf(rng.choice(["LigatureCaretByIndex f_i 1;", "LigatureCaretByIndex f_i 0 2;", "LigatureCaretByIndex [f_i] 2;",
                         "LigatureCaretByIndex b 1;"]))
        if rng.random() < 0.25:
            leaf("LigatureCaretByIndex a 0;")
    for _ in range(rng.choice([0, 0, 1, 2])):
        if rng.random() < 0.5:
            leaf(rng.choice(["Attach a 1;", "Attach [b c] 0 2;"]))
        else:
            c = ids(); body.append(["c", c, rng.choice(["# Automatic Code", "# carets by hand", "# LigatureCaretByPos f_i 1;"])])
    if not any(it[0] == "l" for it in body):
        leaf("Attach a 1;")
    rng.shuffle(body)
    # the GDEF table may be written in several blocks: the statements in any distribution over 1-3 blocks (the first one
    # possibly empty); generated statements go into the first, what the user wrote counts wherever it stands
    k = rng.choice([1, 1, 2, 2, 3])
    cuts = sorted(rng.randrange(len(body) + 1) for _ in range(k - 1))
    parts = [body[a:b] for a, b in zip([0] + cuts, cuts + [len(body)])]
    return [["B", ids(), "table", "GDEF", False, part] for part in parts]


def gen_file(rng, compile_safe, tags_pool, odd_ws=False, gdef_p=0.06):
    """returns (tree, src, shapes)"""
    ids, src, tree, shapes = Ids(), {}, [], []
    ls = [["DFLT", "dflt"], ["latn", "dflt"], ["dev2", "dflt"], ["hebr", "dflt"], ["latn", "TRK "]]
    nls = rng.choice([0, 0, 1, 2, 3, 5])
    for sc, la in ls[:nls]:
        u = ids(); src[str(u)] = "languagesystem %s %s;" % (sc, la); tree.append(["L", u])
    have_gdef = False
    later_gdef = []
    for _ in range(rng.choice([1, 2, 3, 4, 6, 8])):
        r = rng.random()
        if r < 0.12:
            u = ids()
            tree.append(["C", u, rng.choice(OK_MARKERS + BAD_MARKERS + ["# top note %d" % u, "# top note %d" % u])])
        elif r < 0.22:
            u = ids(); src[str(u)] = rng.choice(["@cls%d = [a b];" % u, "anchorDef 10 %d ANC%d;" % (u, u)]); tree.append(["L", u])
        elif r < 0.32:
            u = ids()
            gpos = rng.random() < 0.5
            body = []
            for _ in range(rng.choice([1, 2, 3])):
                if rng.random() < 0.3:
                    c = ids(); body.append(["c", c, rng.choice(OK_MARKERS + ["# in lookup"])])
                else:
                    x = ids(); src[str(x)] = ("pos a b -%d;" % x) if gpos else "sub a by b;"; body.append(["l", x])
            if not any(it[0] == "l" for it in body):
                x = ids(); src[str(x)] = "pos a b -1;"; body.append(["l", x])
            if not gpos and rng.random() < 0.6:
                # numbered relative to GDEF, which generated GPOS lookups share
                x = ids(); body.insert(0, ["l", x])
                src[str(x)] = rng.choice(["lookupflag UseMarkFilteringSet [acutecomb];", "lookupflag UseMarkFilteringSet [gravecomb acutecomb];",
                                          "lookupflag MarkAttachmentType [acutecomb];"])
            tree.append(["B", u, "lookup", "UL%d" % u, False, body])
        elif r < 0.32 + gdef_p and not have_gdef:
            have_gdef = True
            later_gdef = gen_gdef_table(rng, ids, src)
            tree.append(later_gdef.pop(0))
        else:
            gpos = rng.random() < 0.75
            tag = rng.choice([t for t in tags_pool if (t in GPOS_TAGS) == gpos] or tags_pool)
            gpos = tag not in GSUB_TAGS
            shape = rng.choice(SHAPES)
            u = ids()
            body = gen_body(rng, ids, src, gpos, shape, odd_ws)
            if compile_safe and not gpos:
                pass
            tree.append(["B", u, "feature", tag, rng.random() < 0.12, body])
            shapes.append(shape)
        if later_gdef and rng.random() < 0.5:
            tree.append(later_gdef.pop(0))
    tree.extend(later_gdef)
    return tree, src, shapes


def gen_spec(rng, gids, tags_pool):
    feats = rng.sample(tags_pool, min(len(tags_pool), rng.choice([1, 1, 2, 2, 3, 4])))
    prod_tags = [t for t in feats if rng.random() < 0.85]
    if rng.random() < 0.1:
        prod_tags.append(rng.choice(tags_pool))  # possibly a tag the writer does not own, or a duplicate
    rng.shuffle(prod_tags)
    return {"type": "writer", "features": sorted(feats), "skip": rng.random() < 0.8, "pattern": rng.random() < 0.88,
            "produce": [[t, gids()] for t in prod_tags],
            "lookups": [gids() for _ in range(rng.choice([0, 1, 2]))],
            "classDefs": [gids() for _ in range(rng.choice([0, 0, 1, 2]))],
            "anchorDefs": [gids() for _ in range(rng.choice([0, 0, 0, 1]))],
            "markClassDefs": [gids() for _ in range(rng.choice([0, 0, 1, 2]))]}


# ---------------------------------------------------------------------------------- fonts for the end-to-end stream

def gen_font(rng):
    def g(name, uni=None, anchors=()):
        return {"name": name, "width": 500, "unicodes": [uni] if uni else [], "anchors": [list(a) for a in anchors],
                "contours": [[[0, 0, "line"], [100, 0, "line"], [50, 80, "line"]]]}
    marks = rng.random() < 0.8
    mkmk = marks and rng.random() < 0.6
    indic = rng.random() < 0.5
    curs = rng.random() < 0.35
    carets = rng.choice(["", "", "", "", "f_i", "f_i", "f_i", "f_i2", "f_i+a", "b"])
    glyphs = [
        g("a", 0x61, ([("top", 250, 500), ("bottom", 250, 0)] if marks else []) + ([("vcaret_1", 0, 300)] if carets == "f_i+a" else [])),
        g("b", 0x62, ([("top", 260, 700)] if marks else []) + ([("caret_1", 120, 0)] if carets == "b" else [])),
        g("c", 0x63, ([("entry", 0, 0), ("exit", 480, 10)] if curs else [])),
        g("f", 0x66), g("i", 0x69, ([("entry", 10, 0), ("exit", 400, 0)] if curs else [])),
        g("f_i", None, ([("top_1", 100, 600), ("top_2", 400, 600)] if marks else []) + ([("caret_1", 250, 0)] if carets.startswith("f_i") else []) + ([("caret_2", 380, 0)] if carets == "f_i2" else [])),
        g("acutecomb", 0x301, ([("_top", 0, 500)] + ([("top", 0, 700)] if mkmk else [])) if marks else []),
        g("gravecomb", 0x300, ([("_top", 0, 500), ("_bottom", 0, 0)] + ([("top", 0, 720)] if mkmk else [])) if marks else []),
        g("kadeva", 0x915, [("top", 300, 600), ("bottom", 300, 0)] if (marks and indic) else []),
        g("khadeva", 0x916, [("top", 310, 600)] if (marks and indic) else []),
        g("anusvaradeva", 0x902, [("_top", 0, 600)] + ([("_bottom", 0, 0)] if rng.random() < 0.5 else []) if (marks and indic) else []),
        g("alef", 0x5D0), g("bet", 0x5D1),
    ]
    kerning = []
    if rng.random() < 0.8:
        kerning.append(["a", "b", -rng.choice([10, 20, 35])])
        if rng.random() < 0.5:
            kerning.append(["public.kern1.ac", "b", -15])
        if indic or rng.random() < 0.3:
            kerning.append(["kadeva", "khadeva", -40])
        if rng.random() < 0.4:
            kerning.append(["alef", "bet", -25])
        if rng.random() < 0.3:
            kerning.append(["f_i", "acutecomb", -5])
    groups = {"public.kern1.ac": ["a", "c"]}
    cats = None
    r = rng.random()
    if r < 0.45:  # makes the GDEF writer produce a GlyphClassDef
        cats = {"a": "base", "b": "base", "c": "base", "f_i": "ligature", "acutecomb": "mark", "gravecomb": "mark",
                "kadeva": "base", "khadeva": "base", "anusvaradeva": "mark"}
    elif r < 0.52:  # so does this: `any()` of the five sets, the unassigned ones included
        cats = {"a": "unassigned"}
    elif r < 0.58:  # not a category: warned about and ignored
        cats = {"a": "bogus"}
    return {"upm": 1000, "glyphs": glyphs, "kerning": kerning, "groups": groups, "info": {}, "lib": {}, "cats": cats}


WRITER_CLASSES = ["CursFeatureWriter", "KernFeatureWriter", "MarkFeatureWriter", "GdefFeatureWriter"]


def gen_writer_entry(rng):
    cls = rng.choice(WRITER_CLASSES)
    opts = {}
    if cls != "GdefFeatureWriter" and rng.random() < 0.35:
        opts["mode"] = "append"
    if cls == "KernFeatureWriter" and rng.random() < 0.3:
        opts["features"] = rng.choice([["kern"], ["dist"], ["kern", "dist"]])
    if cls == "MarkFeatureWriter" and rng.random() < 0.3:
        opts["features"] = rng.choice([["mark"], ["mkmk"], ["mark", "mkmk"], ["abvm", "blwm"], ["mark", "abvm"]])
    if cls == "KernFeatureWriter" and rng.random() < 0.2:
        opts["ignoreMarks"] = False
    return {"class": cls, "options": opts}


def _entries(rng, k, avoid=()):
    """writer entries with distinct classes (the same shipped writer twice makes feaLib reject the output: its lookup
    names clash; the second-writer-same-feature situation is exercised by the probe stream instead)"""
    out, seen = [], set(avoid)
    for _ in range(k):
        e = gen_writer_entry(rng)
        if e["class"] not in seen:
            seen.add(e["class"]); out.append(e)
    return out


def gen_writers(rng):
    r = rng.random()
    cfg = {"lib": None, "arg": None}
    if r < 0.4:
        return cfg
    if r < 0.65:
        cfg["lib"] = _entries(rng, rng.choice([1, 2, 3, 4]))
        if rng.random() < 0.3:
            cfg["arg"] = ["..."] + _entries(rng, rng.choice([0, 1]), [e["class"] for e in cfg["lib"]])
        return cfg
    ell = rng.random() < 0.4
    if rng.random() < 0.3:
        cfg["lib"] = _entries(rng, rng.choice([1, 2]))
    sub = [e["class"] for e in cfg["lib"]] if cfg["lib"] is not None else WRITER_CLASSES
    arg = _entries(rng, rng.choice([1, 2, 3, 4]), sub if ell else ())
    if ell:
        arg.insert(rng.randrange(len(arg) + 1), "...")
    for e in arg:
        if e != "..." and not e["options"] and rng.random() < 0.5:
            e["asClass"] = True
    cfg["arg"] = arg
    return cfg


def gen(rng, n, mode):
    # function level: marker pattern
    texts = []
    for cp in list(range(0, 0x3100)) + [0xFEFF, 0x1D173, 0xE0020]:
        if cp in (0xD, 0xA) or 0xD800 <= cp < 0xE000:
            pass
        texts.append(chr(cp) + "# Automatic Code" if not 0xD800 <= cp < 0xE000 else "# Automatic Code")
    texts += OK_MARKERS + BAD_MARKERS + WS_MARKERS + ["", " ", "#", "# Automatic Cod", "  \t # Automatic Code x", "# Automatic Code\nx",
                                                       "\n# Automatic Code", "# Automatic Cod\ne"]
    for i in range(0, len(texts), 1000):
        yield {"kind": "markers", "texts": texts[i:i + 1000]}
    yield {"kind": "shipped"}
    nw = max(40, n // 6)
    for i in range(nw):
        yield gen_writers_case(rng)
    nprobe = int(n * 0.6)
    for i in range(nprobe):
        pool = rng.choice([GPOS_TAGS[:4], GPOS_TAGS, ["kern", "mark"], GPOS_TAGS + GSUB_TAGS, ["kern", "dist", "liga"]])
        tree, src, shapes = gen_file(rng, False, pool, odd_ws=rng.random() < 0.25)
        gids = Ids(); gids.n = 5000
        steps = [gen_spec(rng, gids, pool) for _ in range(rng.choice([1, 1, 2, 3]))]
        if mode == "search" or rng.random() < 0.03:
            if rng.random() < 0.3 and steps[0]["produce"]:
                steps[0]["produce"].append([steps[0]["produce"][0][0], gids()])  # the same tag twice
        yield {"kind": "probe", "file": tree, "src": src, "steps": steps, "shapes": shapes}
    for i in range(n - nprobe):
        tree, src, shapes = gen_file(rng, True, GPOS_TAGS + ["liga", "calt"] if rng.random() < 0.7 else ["kern", "mark", "mkmk", "liga"],
                                     gdef_p=rng.choice([0.06, 0.2, 0.5]))
        yield {"kind": "compile", "file": tree, "src": src, "font": gen_font(rng), "writers": gen_writers(rng),
               "shapes": shapes, "lib": rng.choice(["ufoLib2", "ufoLib2", "defcon"])}
    # the shipped GDEF writer called directly (no compile) on a font, before / between / after probe writers, on files
    # that mostly hold a hand-written `table GDEF`
    for i in range(max(60, int(n * 0.15))):
        pool = rng.choice([["kern", "mark"], GPOS_TAGS[:4], ["kern", "dist", "liga"]])
        tree, src, shapes = gen_file(rng, False, pool, gdef_p=rng.choice([0.3, 0.7, 0.7]))
        gids = Ids(); gids.n = 5000
        steps = [gen_spec(rng, gids, pool) for _ in range(rng.choice([0, 0, 1, 2]))]
        opts = {"mode": "append"} if rng.random() < 0.15 else {}
        steps.insert(rng.randrange(len(steps) + 1), {"type": "gdef", "options": opts})
        yield {"kind": "probe", "file": tree, "src": src, "steps": steps, "shapes": shapes, "font": gen_font(rng),
               "lib": rng.choice(["ufoLib2", "ufoLib2", "defcon"])}


# ---------------------------------------------------------------------------------- initFeatureWriters

TABLE_TAGS = ["GSUB", "GPOS", "GDEF", None, "GSUB", "GPOS", "BASE", "gsub"]


def gen_writers_case(rng):
    def w():
        k = rng.randrange(len(TABLE_TAGS))
        return [k, rng.random() < 0.5]  # pool class index, given as class?
    r = rng.random()
    arg = None
    if r > 0.25:
        arg = [w() for _ in range(rng.choice([0, 1, 2, 3, 5]))]
        for _ in range(rng.choice([0, 1, 1, 1, 2, 3]) if rng.random() < 0.8 else 0):
            arg.insert(rng.randrange(len(arg) + 1), None)
    lib = None if rng.random() < 0.5 else [rng.randrange(len(TABLE_TAGS)) for _ in range(rng.choice([0, 1, 2, 4]))]
    dflt = [rng.randrange(len(TABLE_TAGS)) for _ in range(rng.choice([0, 2, 4]))]
    return {"kind": "writers", "arg": arg, "lib": lib, "dflt": dflt}


def _tt(k):
    return TABLE_TAGS[k] if TABLE_TAGS[k] is not None else "None"


def run_writers(case):
    import ufoLib2
    from ufo2ft.constants import FEATURE_WRITERS_KEY
    from ufo2ft.featureCompiler import FeatureCompiler
    pool = L.writer_pool(TABLE_TAGS)
    ufo = ufoLib2.Font()
    if case["lib"] is not None:
        ufo.lib[FEATURE_WRITERS_KEY] = [{"module": "lib_C17", "class": "PoolWriter%d" % k} for k in case["lib"]]

    class FC(FeatureCompiler):
        defaultFeatureWriters = [pool[k] for k in case["dflt"]]

    arg, marg, serial = None, None, 0
    if case["arg"] is not None:
        arg, marg = [], []
        for e in case["arg"]:
            if e is None:
                arg.append(...); marg.append(None)
            else:
                k, as_class = e
                if as_class:
                    arg.append(pool[k]); marg.append([k * 100, _tt(k)])
                else:
                    serial += 1
                    inst = pool[k](); inst.c17_serial = serial
                    arg.append(inst); marg.append([k * 100 + serial, _tt(k)])
    try:
        fc = FC(ufo, featureWriters=arg)
        obs = {"err": None, "list": [[type(x).c17_k * 100 + getattr(x, "c17_serial", 0), _tt(type(x).c17_k)] for x in fc.featureWriters]}
    except Exception as e:
        obs = {"err": err_kind(e), "list": None}
    inn = {"arg": marg, "lib": None if case["lib"] is None else [[k * 100, _tt(k)] for k in case["lib"]],
           "dflt": [[k * 100, _tt(k)] for k in case["dflt"]]}
    nell = 0 if case["arg"] is None else sum(1 for e in case["arg"] if e is None)
    anyg = any(x[1] == "GSUB" for x in (obs["list"] or []))
    return [{"op": "writers", "in": inn, "obs": obs, "nontrivial": nell >= 1 or anyg,
             "tags": ["writers", "ellipsis:%d" % min(nell, 2), "arg:none" if case["arg"] is None else "arg:list",
                      "lib:" + ("none" if case["lib"] is None else "list")] + (["gsub-writer"] if anyg else []) +
                     (["err:" + str(obs["err"])] if obs["err"] else [])}]


# ---------------------------------------------------------------------------------- run

def _tags_of_run(tree, steps, ctxs, files, prefix, gseen=()):
    tags = [prefix]
    consumed = skipped = 0
    prev = tree
    gseen = iter(gseen)
    for st, cx, f in zip(steps, ctxs, files):
        if st["type"] != "writer":
            seen = next(gseen, {"items": 0, "new": False, "kinds": []})
            tags.append(prefix + ":gdef:" + ("new" if seen["new"] else "into-user-table" if seen["items"] else "noop"))
            user = sorted({k for u, k in st["kinds"] if k != "other"})
            blocks = [s for s in tree if s[0] == "B" and s[2] == "table" and s[3] == "GDEF"]
            if len(blocks) >= 2:
                first = {k for u, k in st["kinds"] if k != "other" and any(it[1] == u for it in blocks[0][5])}
                tags.append(prefix + ":gdef:blocks:%d" % len(blocks) + (":first-empty" if not blocks[0][5] else "") +
                            (":kinds-only-in-later-block" if set(user) - first else ""))
            if blocks:
                tags.append(prefix + ":gdef:user-table:" + ("+".join(user) or "neither") +
                            (":font-has-carets" if st["carets"] else "") + (":font-has-cats" if st["hasCats"] else ""))
            if ("idx" in user or "pos" in user) and st["carets"]:
                skipped += 1
                tags.append(prefix + ":gdef:existing-carets-skipped" + (":by-index-only" if "pos" not in user else ""))
            if "gcd" in user and st["hasCats"]:
                skipped += 1
                tags.append(prefix + ":gdef:existing-classes-skipped")
            prev = f
            continue
        tags.append(prefix + (":skip" if st["skip"] else ":append") + ("" if st["pattern"] else ":nopattern"))
        if cx:
            mk = dict(cx["markers"] or [])
            for t, g in st["produce"]:
                if t in cx["todo"]:
                    if t in mk:
                        consumed += 1
                        tags.append(prefix + ":marker:" + _position(prev, mk[t]))
                    else:
                        tags.append(prefix + ":placed:end-or-dependent")
                elif t in st["features"]:
                    skipped += 1
                    tags.append(prefix + ":existing-skipped")
            if len([1 for t, g in st["produce"] if t in cx["todo"]]) >= 2 and mk:
                tags.append(prefix + ":multi-with-marker")
        prev = f
    return tags, consumed, skipped


def _position(tree, cuid):
    for s in tree:
        if s[0] == "B" and s[2] == "feature":
            for k, it in enumerate(s[5]):
                if it[0] == "c" and it[1] == cuid:
                    before = all(x[0] == "c" for x in s[5][:k])
                    after = all(x[0] == "c" for x in s[5][k:])
                    return ("alone" if before and after else "top" if before else "bottom" if after else "middle") + \
                           ("-in-split" if s[1] is None else "")
    return "?"


def run(case):
    import logging
    logging.disable(logging.CRITICAL)
    kind = case["kind"]
    if kind == "markers":
        return run_markers(case)
    if kind == "shipped":
        from ufo2ft.featureCompiler import FeatureCompiler
        obs = [[c.__name__, str(c.tableTag)] for c in FeatureCompiler.defaultFeatureWriters]
        return [{"op": "shipped", "in": {}, "obs": obs, "nontrivial": False, "tags": ["shipped"]}]
    if kind == "writers":
        return run_writers(case)
    if kind == "probe":
        font = info = None
        if case.get("font"):  # the shipped GDEF writer, called directly, among the probe writers
            font = build(_font_desc(case["font"], None), case.get("lib", "ufoLib2"))
            info = L.gdef_info(case["file"], case["src"], case["font"])
        rec, err = L.run_probe(case["file"], case["src"], case["steps"], font, info)
        gsteps = iter([x for x in rec.steps if x["type"] == "gdef"])
        steps = [(next(gsteps, None) or dict(info, type="gdef", base=0)) if sp["type"] == "gdef" else sp for sp in case["steps"]]
        obs = {"err": err, "files": None if err else rec.files, "ctx": rec.ctx, "gdef": rec.gdef_obs}
        tags, consumed, skipped = _tags_of_run(case["file"], steps, rec.ctx, rec.files, "gprobe" if font is not None else "probe",
                                               rec.gdef_seen)
        tags += ["shape:" + s for s in set(case.get("shapes", []))] + (["err:" + err] if err else [])
        if rec.first != case["file"]:
            raise RuntimeError("labelled AST does not serialise to the case's tree")
        return [{"op": "run", "in": {"file": case["file"], "steps": steps}, "obs": obs,
                 "nontrivial": consumed > 0 or skipped > 0, "tags": tags}]
    if kind == "compile":
        return run_compile(case)
    raise ValueError(kind)


def _font_desc(fc, text):
    fd = dict(fc); fd["lib"] = {}
    if text is not None:
        fd["features"] = text
    if fd.get("cats"):
        fd["lib"]["public.openTypeCategories"] = dict(fd["cats"])
    return fd


def run_markers(case):
    from ufo2ft.featureWriters import BaseFeatureWriter, ast
    from ufo2ft.featureWriters.baseFeatureWriter import INSERT_FEATURE_MARKER
    obs = []
    for t in case["texts"]:
        doc = ast.FeatureFile()
        fb = ast.FeatureBlock("kern")
        cm = ast.Comment(t)
        fb.statements.append(cm)
        doc.statements.append(fb)
        r = BaseFeatureWriter.collectInsertMarkers(doc, INSERT_FEATURE_MARKER, {"kern"})
        obs.append("kern" in r and r["kern"][1] is cm)
    return [{"op": "markers", "in": {"texts": case["texts"]}, "obs": obs, "nontrivial": any(obs) and not all(obs),
             "tags": ["markers"]}]


def _flat_text(doc):
    """reading order list of 'path | statement text' for every non-comment statement without sub-statements"""
    from fontTools.feaLib import ast
    out = []

    def walk(sts, path):
        for s in sts:
            if isinstance(s, ast.Comment):
                continue
            if hasattr(s, "statements"):
                nm = getattr(s, "name", "")
                walk(s.statements, path + [type(s).__name__ + ":" + str(nm)])
            else:
                out.append("/".join(path) + " | " + s.asFea())
    walk(doc.statements, [])
    return out


def _make_writers(cfg_list, recorded):
    import ufo2ft.featureWriters as fw
    out = []
    for e in cfg_list:
        if e == "...":
            out.append(...)
            continue
        cls = getattr(L, "Rec" + e["class"]) if recorded else getattr(fw, e["class"])
        out.append(cls if e.get("asClass") else cls(**e["options"]))
    return out


def _lib_entries(cfg_list, recorded):
    out = []
    for e in cfg_list:
        d = {"class": ("Rec" + e["class"]) if recorded else e["class"], "options": dict(e["options"])}
        if recorded:
            d["module"] = "lib_C17"
        out.append(d)
    return out


def run_compile(case):
    # ufo2ft leaves a NamedTemporaryFile(delete=False) behind when feaLib rejects a feature file: keep them in a
    # directory of our own and remove it
    import shutil
    import tempfile
    old = tempfile.tempdir
    os.makedirs(TMPROOT, exist_ok=True)
    tempfile.tempdir = tempfile.mkdtemp(dir=TMPROOT)
    try:
        return _run_compile(case)
    finally:
        shutil.rmtree(tempfile.tempdir, ignore_errors=True)
        tempfile.tempdir = old


def _run_compile(case):
    import ufo2ft
    from ufo2ft.constants import FEATURE_WRITERS_KEY
    tree, src, cfg = case["file"], case["src"], case["writers"]
    text = L.render(tree, src)
    glyphs = [g["name"] for g in case["font"]["glyphs"]]

    def font(recorded):
        fd = dict(case["font"]); fd["features"] = text; fd["lib"] = {}
        if fd.get("cats"):
            fd["lib"]["public.openTypeCategories"] = dict(fd["cats"])
        if cfg["lib"] is not None:
            fd["lib"][FEATURE_WRITERS_KEY] = _lib_entries(cfg["lib"], recorded)
        return build(fd, case["lib"])

    rec = L.Recorder(tree)
    rec.gdef_info = L.gdef_info(tree, src, case["font"])
    L.install_recorder(rec)
    err = None
    rec_text = None
    fc_holder = {}
    try:

        class FC(L.RecFeatureCompiler):
            def setupFeatures(self):
                super().setupFeatures()
                fc_holder["features"] = self.features
        ufo2ft.compileTTF(font(True), featureCompilerClass=FC, useProductionNames=False,
                          featureWriters=None if cfg["arg"] is None else _make_writers(cfg["arg"], True))
        rec_text = fc_holder.get("features")
    except Exception as e:
        err = err_kind(e)
    finally:
        L.install_recorder(None)
    flags = {}
    utext = otext = []
    compile_error = bytes_differ = False
    if err == "FeatureLibError" and "features" in fc_holder:
        # all writers ran; feaLib rejected the text afterwards (e.g. the same writer listed twice defines a lookup
        # twice): nothing to say about the compiled font, but what the writers did to the AST is observed all the same
        err, compile_error = None, True
    if err is None and not compile_error:
        # the stock run, through the public entry point, with the debug feature file
        buf = io.StringIO()
        try:
            tt = ufo2ft.compileTTF(font(False), useProductionNames=False, debugFeatureFile=buf,
                                   featureWriters=None if cfg["arg"] is None else _make_writers(cfg["arg"], False))
            stock = buf.getvalue()
            flags["stock_text_same"] = (stock == rec_text)
            if rec.doc is not None:  # the compiled text is the writers' AST, printed by feaLib
                flags["text_is_the_ast"] = (rec.doc.asFea() == stock)
            utext = _flat_text(L.parse(text, glyphs))
            otext = _flat_text(L.parse(stock, glyphs)) if stock else []
            if not rec.steps:  # no writers at all: the feature text is used as it is
                flags["stock_text_same"] = (stock == text)
            # GSUB with the automatic writers (this case's list; and the font's own lib list or the defaults) and without any
            t0 = ufo2ft.compileTTF(font(False), useProductionNames=False, featureWriters=[])
            bytes_differ = _raw_differs(tt, t0)
            g0 = _table(t0, "GSUB")  # (normalises t0 in place: once)
            same = _table(tt, "GSUB") == g0
            if cfg["arg"] is not None:
                try:
                    t1 = ufo2ft.compileTTF(font(False), useProductionNames=False)
                    same = same and _table(t1, "GSUB") == g0
                except Exception as e:
                    if err_kind(e) != "FeatureLibError":  # e.g. the lib lists the same writer twice
                        raise
            flags["gsub_same"] = same
            # GDEF in the binary: what the user wrote by hand in `table GDEF` is what the font gets, writers or not
            ukinds = {k for u, k in rec.gdef_info["kinds"]}
            if "idx" in ukinds or "pos" in ukinds:
                flags["gdef_user_carets_only"] = _gdef_part(tt, "LigCaretList") == _gdef_part(t0, "LigCaretList")
            if "gcd" in ukinds:
                flags["gdef_user_classes_only"] = _gdef_part(tt, "GlyphClassDef") == _gdef_part(t0, "GlyphClassDef")
        except Exception as e:
            err = "stock:" + err_kind(e)
    if rec.label_error:
        flags["writers_got_user_ast"] = False
    if rec.first is not None and rec.first != tree:
        flags["writers_got_user_ast"] = False
    obs = {"err": err, "files": None if err else rec.files, "ctx": rec.ctx, "flags": sorted(flags.items()),
           "utext": utext, "otext": otext, "gdef": rec.gdef_obs}
    tags_gsub = ["GSUB"] if any("sub " in v for v in src.values()) else []
    tags, consumed, skipped = _tags_of_run(tree, rec.steps, rec.ctx, rec.files, "e2e", rec.gdef_seen)
    tags += ["e2e:writers:" + ("default" if cfg["arg"] is None and cfg["lib"] is None else "lib" if cfg["arg"] is None else
                               "explicit+ellipsis" if "..." in cfg["arg"] else "explicit")]
    tags += ["e2e-shape:" + s for s in set(case.get("shapes", []))] + (["err:" + err] if err else [])
    if compile_error:
        tags.append("e2e:feaLib-rejects-output")
    if bytes_differ:
        tags.append("e2e:GSUB-bytes-differ-only-by-GDEF-set-numbering" if flags.get("gsub_same") else "e2e:GSUB-differs")
    if "GSUB" in tags_gsub:
        tags.append("e2e:user-GSUB-present")
    tags += ["e2e:binary:" + k for k in flags if k.startswith("gdef_")]
    for st in rec.steps:
        for t, g in st.get("produce", []):
            tags.append("e2e:generated:" + t)
    return [{"op": "run", "in": {"file": tree, "steps": rec.steps}, "obs": obs,
             "nontrivial": consumed > 0 or skipped > 0, "tags": tags}]


def _table(tt, tag):
    """GSUB as bytes, with the two GDEF-relative numbers a lookup carries (mark filtering set index, mark attachment
    class) replaced by the glyph sets they denote: GDEF is shared with GPOS, so generated GPOS lookups placed (by a
    marker) before a user's GSUB lookup legitimately renumber the sets."""
    if tag not in tt:
        return None
    raw = tt.getTableData(tag)
    table = tt[tag].table
    if table.LookupList is None:
        return (raw, [])
    gdef = tt["GDEF"].table if "GDEF" in tt else None
    resolved, touched = [], False
    for lk in table.LookupList.Lookup:
        fs = ac = None
        if lk.LookupFlag & 0x10:
            cov = gdef.MarkGlyphSetsDef.Coverage[lk.MarkFilteringSet]
            fs = sorted(cov.glyphs)
            lk.MarkFilteringSet = 0
            touched = True
        if lk.LookupFlag >> 8:
            k = lk.LookupFlag >> 8
            ac = sorted(g for g, c in gdef.MarkAttachClassDef.classDefs.items() if c == k)
            lk.LookupFlag &= 0xFF
            touched = True
        resolved.append([fs, ac])
    return (tt[tag].compile(tt) if touched else raw, resolved)


def _gdef_part(tt, attr):
    """one sub-table of the compiled GDEF, as plain data"""
    if "GDEF" not in tt:
        return None
    t = getattr(tt["GDEF"].table, attr, None)
    if t is None:
        return None
    if attr == "GlyphClassDef":
        return sorted(t.classDefs.items())
    return sorted((g, [(cv.Format, getattr(cv, "Coordinate", None), getattr(cv, "CaretValuePoint", None)) for cv in lg.CaretValue])
                  for g, lg in zip(t.Coverage.glyphs, t.LigGlyph))


def _raw_differs(a, b):
    return (a.getTableData("GSUB") if "GSUB" in a else None) != (b.getTableData("GSUB") if "GSUB" in b else None)


def _cp(files):
    """comment texts as code point lists (the driver answers that way: raw U+2028 etc. would split its reply lines)"""
    def item(it):
        return ["c", it[1], [ord(ch) for ch in it[2]]] if it[0] == "c" else it
    return [[(["C", s[1], [ord(ch) for ch in s[2]]] if s[0] == "C" else
              s[:5] + [[item(it) for it in s[5]]] if s[0] == "B" else s) for s in f] for f in files]


def agree(req, rep):
    m, o = rep["model"], req["obs"]
    if req["op"] == "run":
        if m["err"] is not None or o["err"] is not None:
            return m["err"] == o["err"]
        if any(not v for k, v in o.get("flags", [])):
            return False
        return m["files"] == _cp(o["files"]) and m["ctx"] == o["ctx"] and m["gdef"] == o.get("gdef", [])
    if req["op"] == "writers":
        return m["err"] == o["err"] and m["list"] == o["list"]
    return m == o


def shrink(case):
    kind = case["kind"]
    if kind == "markers":
        for t in case["texts"]:
            yield {"kind": "markers", "texts": [t]}
        return
    if kind in ("probe", "compile"):
        tree = case["file"]
        if kind == "probe":
            for i in range(len(case["steps"])):
                if len(case["steps"]) > 1:
                    c = dict(case); c["steps"] = case["steps"][:i] + case["steps"][i + 1:]; yield c
            for i, st in enumerate(case["steps"]):
                if st["type"] != "writer":
                    continue
                for key in ("lookups", "classDefs", "anchorDefs", "markClassDefs"):
                    if st[key]:
                        c = dict(case); s2 = dict(st); s2[key] = []; c["steps"] = case["steps"][:i] + [s2] + case["steps"][i + 1:]; yield c
                for j in range(len(st["produce"])):
                    c = dict(case); s2 = dict(st); s2["produce"] = st["produce"][:j] + st["produce"][j + 1:]
                    c["steps"] = case["steps"][:i] + [s2] + case["steps"][i + 1:]; yield c
        else:
            w = case["writers"]
            if w["arg"]:
                for i in range(len(w["arg"])):
                    c = dict(case); c["writers"] = dict(w); c["writers"]["arg"] = w["arg"][:i] + w["arg"][i + 1:]; yield c
            if w["lib"]:
                for i in range(len(w["lib"])):
                    c = dict(case); c["writers"] = dict(w); c["writers"]["lib"] = w["lib"][:i] + w["lib"][i + 1:]; yield c
        for i in range(len(tree)):
            c = dict(case); c["file"] = tree[:i] + tree[i + 1:]; yield c
        for i, s in enumerate(tree):
            if s[0] == "B":
                for j in range(len(s[5])):
                    s2 = list(s); s2[5] = s[5][:j] + s[5][j + 1:]
                    if s[2] != "feature" and not any(it[0] == "l" for it in s2[5]) and not (s[2] == "table" and s[3] == "GDEF"):
                        continue
                    c = dict(case); c["file"] = tree[:i] + [s2] + tree[i + 1:]; yield c


def classify_failure(res):
    """the one shape repaired in ufo2ft (kind "fixed" in known_findings.json, therefore always reported as a VIOLATION
    should it come back): GdefFeatureWriter.setContext scanned only the FIRST `table GDEF` block of the user's file, so a
    GlyphClassDef / LigatureCaret statement written in a later block was written a second time.  Named only when the
    driver finds the observed run to be, object for object, the run of that old rule and nothing else of the property
    fails (`firstBlockScanOnly`), and the file has two or more `table GDEF` blocks."""
    req = res["req"]
    if req["op"] != "run" or not (res.get("info") or {}).get("firstBlockScanOnly"):
        return None
    blocks = [s for s in req["in"]["file"] if s[0] == "B" and s[2] == "table" and s[3] == "GDEF"]
    if len(blocks) >= 2 and any(st["type"] == "gdef" for st in req["in"]["steps"]):
        return {"kind": "gdef-statement-in-later-user-block-ignored"}
    return None


LEVEL_TEXT = ("Proved for all inputs (Lean, 162 theorems/lemmas): for any feature file and any sequence of writers, after every writer "
              "the file - with generated statements, comments inside feature blocks (the markers are such) and the boundaries of "
              "split-made blocks erased - reads exactly as the user's file (C17_subsequence, no well-formedness needed); for "
              "files whose comment objects are distinct and writers whose feature blocks are distinct, every step satisfies the "
              "full per-writer predicate (C17_run/C17_write): the generated feature blocks are exactly those of specTodo "
              "(C17_skip: not in skip mode when the tag exists without marker) and stand exactly where the plan says - at the "
              "marker, unmarked predecessors right before it, the rest at the end (C17_place); the marker is the first comment "
              "directly inside a top-level feature block of that tag matching white space + '# Automatic Code' case-sensitively "
              "(C17_collect, C17_case); the writer list is a stable GSUB-first partition with the ellipsis expanded once "
              "(C17_gsub_first, C17_ellipsis); the GDEF writer generates a GlyphClassDef exactly when none of the user's `table GDEF` "
              "blocks has one and the font has categories, and one LigatureCaretByPos per glyph with caret anchors exactly when none "
              "of the user's blocks holds a ligature caret statement of either form (by position or by contour point index), nothing "
              "else (C17_gdef_gen, C17_gdef_keeps_carets/_classes - without restriction on where in the file the hand-written "
              "statement stands; the old first-block-only scan is kept as a refuted counterexample), appended after the user's "
              "statements of the first such block or in one new table at the end of the file (C17_gdef_place, C17_gdef_step; both are part of C17_run); on well-formed files the writer loop raises exactly when some writer hands _insert two "
              "blocks of one tag that has a marker, otherwise it returns and all of the above holds of what it returns "
              "(C17_run_error_iff, C17_run_total).  The model is tied to the code by differential runs at the level of AST objects "
              "(user-defined writers and recording subclasses of the shipped ones) and through compileTTF's debugFeatureFile.")
LEVEL_NOTE = ("Trusted: Lean kernel + propext/Classical.choice/Quot.sound; the hand-written model's correspondence to "
              "baseFeatureWriter.py / featureCompiler.py is differential (bounded by the generators); GSUB invariance (writers vs "
              "no writers) is measured on every end-to-end case, only the table-tag fact behind it is proved "
              "(C17_gsub_inv_partial); that the compiled GDEF carets / glyph classes are the hand-written ones (same with and "
              "without writers) is likewise only measured - predicate-only flags evaluated on observed data, feaLib turns the "
              "feature text into the binary; comments inside feature blocks are not part of the preserved skeleton (the code deletes "
              "a comment-only block that holds a marker together with its other comments); totality is proved for well-formed files (comment objects distinct - what the parser gives and every writer "
              "keeps): a writer raises (ValueError, the model's only exception) exactly when, among the feature blocks it hands to "
              "_insert that have a marker in the user's file, two carry the same tag (writeErrs, decidable on the input; "
              "C17_write_error_iff), the writer loop raises exactly at the first such writer (C17_run_error_iff/_where), never "
              "for writers with distinct tags (C17_run_returns_of_tags), `min(indices)` never sees an empty list, and the headline "
              "theorems hold without the 'run returned' hypothesis (C17_subsequence_total, C17_place_total, C17_write_total, "
              "C17_run_total: the run returns one file per writer AND the property holds).  Not covered: files in which one "
              "comment id occurs twice (no Python counterpart; there writeErrs is refuted by an example and the theorems for runs "
              "that return remain); exceptions outside the model (feaLib rejecting the text, errors inside the shipped writers' "
              "own _write before _insert) - the error case itself is compared by the correspondence.")
