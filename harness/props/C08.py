"""C08 - output is a pure function of UFO content and options."""
import json
import logging
import random
import re
from types import SimpleNamespace

import lib_C08 as L
from ufo import build, rat

ID = "C08"
THEOREM = ("Ufo2ft.C08.C08_pure / C08_history / C08_sorted_unique / sortOn_perm_eq / setTuple_perm / classDefsOut_perm / "
           "lookupGroupsOut_perm / registerLookups_perm / registerLookups_dflt_swap / sortPairs_perm / classNamingOrder_perm / "
           "groupMarkClasses_perm / groupMarkClasses_sets / marksSorted_perm / cursivePairs_perm / ligCarets_perm / "
           "sortedGlyphClass_names / anchorsToAdd_perm / partitionByScript_sets / mergedSets_perm / splitKerning_perm / "
           "C08_vfinfo / infoInit_frame / infoInit_temp / infoInit_lib_agnostic / C08_history_vfinfo / infoInitAliased_touches / "
           "created_pinned / created_value / created_unset_clock / minIdx_spec / closest_spec / closest_lib_agnostic / "
           "created_calendar / created_unique / created_calendar_iff / created_holds / civil_correct / civil_roundtrip / "
           "daysSince1970_inj / yoe_of / doe_decomp / yearSum / monthSum / C08_filter_history_free / C08_filter_heights / "
           "setContext_forgets / session_opts / session_after_session / C08_filter_history_holds / cached_slip_violates / "
           "cached_slip_heights / origin_heights_spec / isRoundOf_otRound / origin_ofInt_error / ctxMatrix_fixes_origin")
PROOF_FILES = ["C08", "C08Env", "C08Calendar", "C08Filter"]
N = {"quick": 40, "thorough": 500}
RULE = ("(1) digests: random feature-rich fonts (2-4 scripts incl. RTL/Indic, kerning groups + glyph/class pairs incl. cross-script, "
        "mark/mkmk/ligature/cursive/caret anchors, composites with propagateAnchors, categories from lib/GDEF/none, languagesystems, "
        "skipExportGlyphs, partial glyphOrder) and 2-master designspaces; each compiled in 5 (quick) / 7 (thorough) FRESH interpreters with "
        "PYTHONHASHSEED 0,1,2,3 and a generator-chosen 32-bit seed, ufoLib2 / defcon, in memory / saved and reopened (also by the "
        "other library), containers filled in the given / a shuffled order, each interpreter running a call history (TTF,TTF,OTF,"
        "TTF / variable after static / static after variable / interpolatable then variable / inplace on a private copy) over "
        "compileTTF, compileOTF, compileVariableTTF, compileVariableCFF2, compileInterpolatable{TTFs,OTFs}FromDS; sha256 of every "
        "saved font must equal the first-call digest of the reference interpreter; a mismatch is bisected to the tables that differ. "
        "Every 6th font: many sparse kerning classes + GPOS compaction through ONE shared ftConfig dict; every 6th: propagated anchor keys that collide; contextual (*) anchors with identifiers in a third; some histories start with a compile of ANOTHER font. "
        "Every 6th digest case (i % 6 == 1) passes filter OBJECTS through filters=[...] (a TransformationsFilter with Origin = cap height / half cap height / "
        "x height / half x height / baseline, mostly with a scale or slant, pre or post; in 40 % a second filter object: decompose / flatten / "
        "sortContours / decomposeTransformed; in half '...' = plus the lib filters): every non-reference interpreter creates the instances ONCE "
        "and hands the same objects to every call of its history, and at least one interpreter per case starts with a compile of another font "
        "with OTHER capHeight / xHeight / ascender using those same filter objects; the reference interpreter makes new equal instances per call. "
        "Two designspaces in three carry 1-2 <variable-font> elements whose lib['public.fontInfo'] overrides 1-6 fontinfo attributes (names, "
        "vertical metrics, weight/width, version, panose, flags ...; mostly values the masters do not have): the variable builds then run "
        "PostProcessor.apply_fontinfo -> InfoCompiler on the caller's default master, all <variable-font>s are compiled "
        "(compileVariableTTFs/CFF2s), and every history has static / interpolatable / variable compiles of the SAME objects after it. "
        "(2) emitters: the anchored functions (KernFeatureWriter._write/_registerLookups, splitKerning, _groupMarkClasses+colorGraph, "
        "_marksAsAST, _getCursiveAnchorPairs, _getLigatureCarets, _sortedGlyphClass, _propagate_glyph_anchors) are called on two "
        "insertion orders of the same dict/set content and compared with the Lean model and with each other; _copyGlyph on a defcon and a "
        "ufoLib2 glyph; InfoCompiler(otf, master, overrides).compile() on a really compiled font of a ufoLib2 and of a defcon master "
        "(random master fontinfo x 0-8 overrides hitting present / absent / equal-valued attributes): every fontinfo attribute of the master "
        "before == after, and the temporary Info == the Lean model's (override where given, master's value elsewhere). "
        "Every 4th digest case runs all its interpreters with SOURCE_DATE_EPOCH=0 (the epoch itself), two thirds of the others with another "
        "boundary value (1, 00, 86399, 2000-02-29, 2^31, 2100) instead of the check's default: the interpreters of a case start seconds apart, so "
        "a creation date taken from the wall clock shows as a head mismatch. Every 6th digest font (static, propagateAnchors filter) has a "
        "mark-only 'ligature mark' composite one of whose components has a cubic WITHOUT on-curve extrema (off-curve points stick out by B, the "
        "curve by 3B/4), in 4 of 5 placed so that the distance of the other component's lower-left corner lies between the exact and the "
        "control-box corner: compiled from defcon and ufoLib2 objects like every digest case. "
        "Emitter streams for the same two mechanisms: `created` = getAttrWithFallback(info, 'openTypeHeadCreated') with SOURCE_DATE_EPOCH as "
        "text (0, 1, day/leap-day/2038 boundaries, random; forms int() accepts: leading 0, +, blanks; rarely unset / empty / not a number), "
        "with or without an explicit fontinfo date, under TWO fake wall clocks (time.gmtime() patched), compared with the Lean model and "
        "with each other; `closest` = propagateAnchors._bounds + _component_closest_to_origin on the copied glyph set of such a composite "
        "built with defcon and with ufoLib2, compared with the closed-form exact corners and the model's argmin. "
        "`origin` (own sub-stream, 4 x 25 / 24 x 25 items) = ONE TransformationsFilter instance (Origin 0-4, rarely no member; dyadic "
        "ScaleX/ScaleY, offsets; Slant 0) run through __call__ or set_context on 1-4 fonts (ufoLib2 / defcon) whose capHeight / xHeight / "
        "unitsPerEm differ (ints, halves, negative, 0, unset -> fallbacks; in half the items the first two fonts differ in ONE attribute), "
        "against a new instance per font: get_origin_height(font, options.Origin) + context.matrix per call, and all five "
        "get_origin_height(font, Origin(k)) of the shared instance, compared with each other and with the Lean session model. "
        "non-trivial = digests case with >= 2 scripts, kerning pairs and marks; emitter case whose two orders really differ; origin item "
        "whose fonts lead to different heights / matrices.")
ASSUMED = ["filter objects given through filters=[...] are treated as immutable option values by the model of the whole compile (`history` / "
           "`publicCompile` take the options by value). For TransformationsFilter that is now backed by a model of the instance "
           "(Model/C08Filter.lean: options + self.context; set_context replaces the context from (options, current font) and reads nothing "
           "of the old one) and the theorem C08_filter_history_free, tied to the code by the `origin` stream; for the OTHER filter classes "
           "(decompose / flatten / sortContours / decomposeTransformed / propagateAnchors objects) and for everything of a "
           "TransformationsFilter beyond origin height + matrix (context.modified, the include predicate, Slant != 0) it stays OBSERVED by "
           "the digest histories with shared instances, not proved; inplace steps are left out of those cases until finding F2 (anchors "
           "moved by a filter are read from the caller's source font, so inplace=True changes GPOS/GDEF) is listed",
           "capHeightFallback / xHeightFallback: `upm * 0.7` is modelled as the exact rational 7 upm / 10 (and upm * 0.5 as upm / 2, which IS "
           "exact in doubles). The double 0.7 is slightly below 7/10, so when 7 upm / 10 is a half-integer (integer upm = 5 mod 10, e.g. "
           "upm 45: code 31, exact 32; 73 of the 500 such upm below 5000) the code may round down where the model rounds up: the "
           "generator does not produce those unitsPerEm; for all other integer upm < 5000 the two agree (checked exhaustively outside the proof). "
           "Slant = 0 in the modelled matrix (skew goes through math.tan)",
           "datetime.fromtimestamp(e, utc).strftime is the proleptic Gregorian calendar (an external library: modelled as civil-from-days "
           "arithmetic, which is PROVED equal to the year-by-year / month-by-month count for every e >= 0 - created_calendar, created_unique in "
           "Props/C08Calendar.lean; that datetime itself agrees is observed per case through `denotes`); int() of the environment text is an "
           "input; 0 <= SOURCE_DATE_EPOCH (a Nat in the model; datetime additionally raises above 253402300799 = 9999-12-31 23:59:59, not modelled)",
           "the bounds a UFO library / fontTools BoundsPen reports for a component are inputs of the model (observed equal to closed-form "
           "exact corners on the generated shapes, both libraries)",
           "fontTools/feaLib/varLib/cu2qu/cffsubr are deterministic functions of their inputs (measured by the digest runs, not modelled)",
           "PYTHONHASHSEED is sampled at 5-7 values per font, not all 2^32: the Perm-invariance theorems cover the modelled emitters for every order",
           "a lookup object is identified with its (unique) name; a dict has unique keys (hypothesis `Nodup` of the theorems)",
           "MATH and colour-layer sources are not generated: compiling them modifies the sources (C07 findings), C08 inherits exactly those",
           "a fontinfo object is its UFO-3 attributes (guidelines excluded) with values as canonical text; copy.copy(info) is a new object with "
           "the same attribute values and setattr replaces a value (ufoLib2 attrs class; list values are replaced, never mutated in place)"]

SCRIPTS = ["Zyyy", "Latn", "Grek", "Cyrl", "Hebr", "Arab", "Deva", "Khmr", "Thai", "Zinh"]
log = logging.getLogger("c08")


def _shuf(rng, l):
    l = list(l)
    rng.shuffle(l)
    return l


# ------------------------------------------------------------------------------------------------ generation

def _gen_lookups(rng, adversarial=False):
    pool = [s for s in SCRIPTS if s != "Zinh"]
    if adversarial and rng.random() < 0.5:
        pool.append("Zinh")
    scripts = rng.sample(pool, rng.randrange(1, min(7, len(pool)) + 1))
    if rng.random() < 0.5 and "Zyyy" not in scripts:
        scripts.append("Zyyy")
    rest = [s for s in scripts if s not in ("Zyyy", "Zinh")]
    rng.shuffle(rest)
    buckets = [[s] for s in scripts if s in ("Zyyy", "Zinh")]
    i = 0
    while i < len(rest):
        k = rng.choice([1, 1, 1, 2, 3])
        buckets.append(sorted(rest[i:i + k]))
        i += k
    lookups = {}
    for b in buckets:
        name = "kern_" + "_".join(b).replace("Zyyy", "Default")
        names = [name] + ([name + "_marks"] if rng.random() < 0.4 else [])
        if rng.random() < 0.15:
            names = names[1:] or names
        for s in b:
            lookups[s] = [[n, n] for n in names]
    return [[s, lookups[s]] for s in _shuf(rng, lookups)]


def _gen_split(rng, adversarial=False):
    scs = ["Latn", "Grek", "Cyrl", "Hebr", "Arab", "Deva", "Zyyy", "Zinh", "Thaa"]
    glyphs = ["g%02d" % i for i in range(rng.randrange(3, 14))]
    gs = {}
    for g in glyphs:
        r = rng.random()
        if r < 0.12:
            continue                                  # unknown glyph -> DFLT_SCRIPTS
        k = 1 if r < 0.7 else rng.choice([2, 3])
        gs[g] = sorted(rng.sample(scs, k))
    def classes():
        pool = _shuf(rng, glyphs)
        out, i = [], 0
        while i < len(pool) and len(out) < 4:
            k = rng.choice([1, 2, 3, 4])
            out.append(sorted(pool[i:i + k]))
            i += k
        return out
    c1, c2 = classes(), classes()
    pairs, seen = [], set()
    for _ in range(rng.choice([1, 3, 6, 12, 20])):
        s1 = rng.choice(c1) if rng.random() < 0.5 else rng.choice(glyphs)
        s2 = rng.choice(c2) if rng.random() < 0.5 else rng.choice(glyphs)
        key = json.dumps([s1, s2])
        if key in seen and not (adversarial and rng.random() < 0.3):
            continue
        seen.add(key)
        pairs.append([s1, s2, rng.choice([-50, -20.5, -3, 0, 10, 25.25])])
    return {"gs": [[g, v] for g, v in gs.items()], "pairs": pairs}


def _gen_color(rng):
    classes = ["MC_top", "MC_bottom", "MC_ogonek", "MC_top.alt", "MC_ring", "MC_center", "MC_below2", "MC_aboveleft"]
    marks = ["m%d" % i for i in range(rng.randrange(1, 9))]
    m = []
    for g in marks:
        m.append([g, sorted(rng.sample(classes, rng.choice([1, 1, 2, 2, 3, 4])))])
    return m


def _gen_toadd(rng, adversarial=False):
    """a composite of 1-3 base components and 0-2 mark components, translated"""
    an = ["top", "bottom", "ogonek", "top_1", "top_2", "center"]
    glyphs, comps = [], []
    box = [[0, 0, "line"], [100, 0, "line"], [100, 100, "line"], [0, 100, "line"]]
    nb = rng.choice([1, 1, 2, 3])
    for i in range(nb):
        names = rng.sample(an, rng.randrange(0, 4))
        if adversarial and i < 2:
            names = list(dict.fromkeys(names + ["top"]))          # two carriers of "top" -> top_1, top_2 …
        if adversarial and i == 2:
            names = list(dict.fromkeys(names + ["top_1", "top_2"]))  # … and a base with its own top_1
        glyphs.append({"name": "b%d" % i, "width": 500, "unicodes": [], "contours": [box],
                       "anchors": [[n, rng.randrange(0, 500), rng.randrange(0, 800) + rng.choice([0, 0.5])] for n in names]})
        comps.append(["b%d" % i, [1, 0, 0, 1, 500 * i, rng.choice([0, 0, 20])]])
    for j in range(rng.choice([0, 1, 1, 2])):
        cls = rng.choice(["top", "bottom"])
        a = [["_" + cls, rng.randrange(-50, 50), rng.randrange(300, 600)]]
        if rng.random() < 0.7:
            a.append([cls, a[0][1], a[0][2] + 150])
        glyphs.append({"name": "m%d" % j, "width": 0, "unicodes": [], "contours": [box], "anchors": a})
        comps.append(["m%d" % j, [1, 0, 0, 1, rng.randrange(50, 300), rng.randrange(0, 300)]])
    own = [[n, 1, 2] for n in rng.sample(["top", "bottom", "top_1", "to"], rng.choice([0, 0, 0, 1]))]
    glyphs.append({"name": "comp", "width": 500 * nb, "unicodes": [], "contours": [], "components": comps, "anchors": own})
    return {"glyphs": glyphs}


STATIC_SCRIPTS = [
    [["ttf", "same"], ["ttf", "same"], ["otf", "same"], ["otf", "same"], ["ttf", "same"], ["otf", "inplace"], ["ttf", "inplace"]],
    [["otf", "decoy"], ["ttf", "decoy"], ["otf", "same"], ["ttf", "same"], ["ttf", "same"], ["otf", "same"], ["ttf", "inplace"], ["otf", "inplace"]],
]
DS_SCRIPTS = [
    [["ttf", "same"], ["vttf", "same"], ["ttf", "same"], ["otf", "same"], ["vcff2", "same"], ["ittf", "same"], ["vttf", "same"],
     ["vttf", "inplace"], ["ittf", "inplace"]],
    [["vttf", "same"], ["ttf", "same"], ["vcff2", "same"], ["otf", "same"], ["iotf", "same"], ["vcff2", "same"], ["ttf", "same"],
     ["vcff2", "inplace"], ["otf", "inplace"], ["iotf", "inplace"]],
    [["ttf", "decoy"], ["ittf", "same"], ["vttf", "same"], ["iotf", "same"], ["vcff2", "same"], ["otf", "same"], ["ttf", "same"], ["vttf", "same"],
     ["ttf", "inplace"]],
]
# (the option OBJECTS are shared by all calls of one interpreter: the `ftConfig` dict is the same object in every step)
OPTS = [{}, {}, {}, {"useProductionNames": False}, {"flattenComponents": True}, {"optimizeCFF": 0}, {"removeOverlaps": True},
        {"ftConfig": {"fontTools.otlLib.optimize.gpos:COMPRESSION_LEVEL": 5}}, {"ftConfig": {"fontTools.otlLib.optimize.gpos:COMPRESSION_LEVEL": 9}}]


# fontinfo overrides a designspace <variable-font> element may carry in lib["public.fontInfo"] (PostProcessor.apply_fontinfo ->
# InfoCompiler): values that DIFFER from what the masters say (a leak into a master is visible in every later compile of it)
# next to a few that repeat the master's value
VF_INFO_POOL = {
    "familyName": ["C08 Test VF", "C08 Test"], "styleName": ["Roman", "Regular"], "postscriptFontName": ["C08TestVF-Roman"],
    "styleMapFamilyName": ["C08 Test VF"], "styleMapStyleName": ["bold", "italic"],
    "openTypeOS2TypoAscender": [950, 800], "openTypeOS2TypoDescender": [-250], "openTypeOS2TypoLineGap": [90],
    "openTypeHheaAscender": [950], "openTypeHheaDescender": [-250], "openTypeHheaLineGap": [0, 90],
    "openTypeOS2WinAscent": [1010], "openTypeOS2WinDescent": [310],
    "openTypeOS2WeightClass": [350], "openTypeOS2WidthClass": [3], "openTypeOS2VendorID": ["C08S"], "openTypeOS2Type": [[2]],
    "openTypeOS2Panose": [[2, 0, 5, 3, 0, 0, 0, 0, 0, 0]], "openTypeOS2Selection": [[7]],
    "versionMajor": [2], "versionMinor": [5], "openTypeNameVersion": ["Version 2.005;vf"], "copyright": ["(c) C08 VF"],
    "openTypeNameDesigner": ["VF designer"], "openTypeNameUniqueID": ["C08TestVF;unique"],
    "italicAngle": [-9.5], "postscriptUnderlinePosition": [-120], "postscriptUnderlineThickness": [60],
    "xHeight": [510], "capHeight": [710], "ascender": [810], "descender": [-190],
    "openTypeHeadLowestRecPPEM": [8], "openTypeHeadFlags": [[0, 1]],
}


def _gen_vfinfo(rng):
    """1 (mostly) or 2 <variable-font> elements, each with 1-6 overrides (the second may have none)"""
    out = []
    for j in range(rng.choice([1, 1, 1, 2])):
        keys = rng.sample(sorted(VF_INFO_POOL), rng.choice([1, 2, 3, 6]))
        info = {k: rng.choice(VF_INFO_POOL[k]) for k in keys}
        if j == 1 and rng.random() < 0.3:
            info = None
        out.append(info)
    return out


def _gen_filter_objs(rng):
    """filter INSTANCES for the `filters=` argument of the compile functions (specs; the worker instantiates them once per
    interpreter): mostly a TransformationsFilter whose matrix depends on the font (Origin = cap height / x height or their
    halves + a scale or slant), sometimes a second stateless-by-contract filter; "..." = also run the filters of the UFO lib"""
    kw = {"Origin": rng.choice([0, 0, 1, 2, 3, 3, 4])}
    sy, sx, sl = rng.choice([50, 75, 125, 100]), rng.choice([100, 100, 80]), rng.choice([0, 0, 0, 10])
    if (sx, sy, sl) == (100, 100, 0) and rng.random() < 0.8:
        sy = 50
    for k, v, d in (("ScaleX", sx, 100), ("ScaleY", sy, 100), ("Slant", sl, 0), ("OffsetX", rng.choice([0, 0, 10]), 0),
                    ("OffsetY", rng.choice([0, 0, -20]), 0)):
        if v != d:
            kw[k] = v
    out = [{"name": "transformations", "kwargs": kw, "pre": rng.random() < 0.5}]
    if rng.random() < 0.4:
        out.insert(rng.randrange(2), {"name": rng.choice(["decomposeComponents", "flattenComponents", "sortContours",
                                                          "decomposeTransformedComponents"]), "kwargs": {}, "pre": rng.random() < 0.5})
    if rng.random() < 0.5:
        out.insert(rng.choice([0, len(out)]), "...")
    return out


def _gen_digest_case(rng, i, thorough, with_inplace=False):
    # every 6th case: a designspace with many sparse kerning classes, compiled with GPOS compaction requested through ONE
    # shared ftConfig dict (option objects are part of the call history)
    compact = i % 6 == 0
    # every 6th case: a static font with the propagateAnchors filter and a composite whose propagated anchor keys collide
    # (two carriers of "top" + a ligature with its own top_1): what gets appended depends on the order of a set of names
    collide = i % 6 == 3
    # every 6th case: a static font with the filter and a mark-only "ligature mark" composite one of whose components has a
    # curve WITHOUT on-curve extrema (exact box != control box), placed so that which component is nearest to the origin
    # depends on which box is used: _bounds has one branch per UFO library
    markliga = i % 6 == 4
    fd = L.gen_font(rng, dense=True if compact else None, collide=collide, markliga=markliga)
    if collide and "lat" not in fd["_stats"]["scripts"]:
        fd = L.gen_font(random.Random(i), collide=True)
    static = (rng.random() < 0.4 and not compact) or collide or markliga
    if static:
        fds = [fd]
        scripts = STATIC_SCRIPTS
        kinds = ["ttf", "otf"]
    else:
        fd = L.without_propagate(fd)
        fds = [fd, L.vary_master(rng, fd)]
        scripts = DS_SCRIPTS
        kinds = ["ttf", "otf", "vttf", "vcff2", "ittf", "iotf"]
    memonly = fd["_stats"]["memonly"]
    anyseed = rng.randrange(4, 2 ** 32)
    libs = ["ufoLib2", "defcon"]
    # every interpreter: (hash seed, library that builds, memory/disk, library that reopens, container shuffle seed, history)
    procs = [
        {"hashseed": 1, "lib": libs[(i + 1) % 2], "source": "mem", "reopen": None, "shuffle": None},
        {"hashseed": 2, "lib": libs[i % 2], "source": "disk", "reopen": None, "shuffle": None},
        {"hashseed": 3, "lib": libs[(i + 1) % 2], "source": "disk", "reopen": libs[i % 2], "shuffle": rng.randrange(1000)},
        {"hashseed": anyseed, "lib": libs[i % 2], "source": "mem", "reopen": None, "shuffle": rng.randrange(1000)},
    ]
    if thorough:
        procs += [
            {"hashseed": 0, "lib": "defcon", "source": "disk", "reopen": "ufoLib2", "shuffle": rng.randrange(1000)},
            {"hashseed": rng.randrange(4, 2 ** 32), "lib": "ufoLib2", "source": "mem", "reopen": None, "shuffle": None},
        ]
    for k, p in enumerate(procs):
        p["steps"] = scripts[(i + k) % len(scripts)]
        if memonly:
            p["source"], p["reopen"] = "mem", None
    opts = OPTS[-1] if compact else rng.choice(OPTS)
    # every 3rd case: filter OBJECTS passed through `filters=`; each non-reference interpreter makes them once and hands the
    # same instances to every call of its history, incl. the compile of ANOTHER font with other vertical metrics that some
    # histories start with (an option object used before must behave like a new, equal one)
    if i % 3 == 1:   # incl. the mark-only-ligature cases: a pre filter that moves a base glyph found the defect repaired in fac0d66
        opts = dict(opts, filterObjs=_gen_filter_objs(rng))
        # finding F2 (same root as F1): anchors MOVED by a filter are read from the caller's source font by the feature writers,
        # so inplace=True (filter applied to the source itself) gives other GPOS/GDEF than inplace=False.  inplace steps run in
        # these cases only once that finding is listed (or with C08_FINDINGS=1 / in the search stream); the inplace facet stays
        # covered by the other two thirds of the cases
        if not with_inplace:
            for p in procs:
                p["steps"] = [st for st in p["steps"] if st[1] != "inplace"]
    # two designspaces in three: <variable-font> elements whose lib["public.fontInfo"] overrides fontinfo of the variable font
    # only (the overrides are data of the DESIGNSPACE; the masters, and every later compile of them, must not see them)
    vfinfo = _gen_vfinfo(rng) if (not static and i % 3 != 2) else None
    case_extra = {"vfinfo": vfinfo} if vfinfo else {}
    # the value of SOURCE_DATE_EPOCH (the same in every interpreter of the case; the interpreters run at different wall-clock
    # times): every 4th case the epoch itself, otherwise the check's default or another boundary value
    epoch = "0" if i % 4 == 1 else rng.choice([None, None, None, "1", "00", "86399", "951782400", "2147483648", "4102444800"])
    if epoch is not None:
        case_extra["epoch"] = epoch
    ref = {"hashseed": 0, "lib": "ufoLib2", "source": "mem", "reopen": None, "shuffle": None, "steps": [[k, "fresh"] for k in kinds]}
    return dict({"kind": "digests", "fds": fds, "opts": opts, "ref": ref, "procs": procs}, **case_extra)


F1_SHAPE = {"shape": "propagated-anchor-looked-up-in-source-font", "differs": "inplace=True only",
            "without_inplace": "TypeError (gdef carets, variable mark anchors) or the anchor is ignored (curs)"}


F2_SHAPE = {"shape": "filter-moved-anchor-looked-up-in-source-font", "differs": "inplace=True only",
            "trigger": "TransformationsFilter object in filters=[...]", "tables": "GPOS/GDEF only"}


def _finding_listed(shape=F1_SHAPE):
    """the reproducers of finding F1 run in the normal stream only once the integrator has listed the finding (or with
    C08_FINDINGS=1); they always run in the search stream"""
    import os
    if os.environ.get("C08_FINDINGS"):
        return True
    try:
        import core
        return any(f.get("property") == ID and f.get("shape") == shape for f in core.load_findings())
    except Exception:
        return False


def _finding_cases():
    static, var, curs = L.finding_fonts()
    ref = lambda kinds: {"hashseed": 0, "lib": "ufoLib2", "source": "mem", "reopen": None, "shuffle": None, "steps": [[k, "fresh"] for k in kinds]}
    p = lambda hs, lib, steps: {"hashseed": hs, "lib": lib, "source": "mem", "reopen": None, "shuffle": None, "steps": steps}
    yield {"kind": "digests", "fds": [static], "opts": {}, "ref": ref(["ttf", "otf"]),
           "procs": [p(1, "defcon", [["ttf", "same"], ["ttf", "inplace"], ["otf", "inplace"]]), p(2, "ufoLib2", [["otf", "same"], ["ttf", "inplace"]])]}
    yield {"kind": "digests", "fds": [curs], "opts": {}, "ref": ref(["ttf", "otf"]),
           "procs": [p(1, "ufoLib2", [["ttf", "same"], ["ttf", "inplace"]]), p(2, "defcon", [["otf", "inplace"], ["otf", "same"]])]}
    yield {"kind": "digests", "fds": var, "opts": {}, "ref": ref(["vttf", "ttf"]),
           "procs": [p(1, "ufoLib2", [["vttf", "same"], ["ttf", "same"], ["vttf", "inplace"]]), p(3, "defcon", [["vttf", "inplace"]])]}


def gen(rng, n, mode):
    import os
    only = os.environ.get("C08_ONLY")       # debugging aid: "digests" or "emit"
    if only and not mode.endswith(":all"):
        for c in gen(rng, n, mode + ":all"):
            if c["kind"] == only:
                yield c
        return
    mode = mode.split(":")[0]
    adversarial = mode == "search"
    thorough = n > 100
    if adversarial or _finding_listed():
        yield from _finding_cases()
    # emitter-level cases, packed
    nf = 40 if not thorough else 240
    for _ in range(nf):
        items = []
        for _ in range(25):
            k = rng.choice(["kernwrite", "register", "register", "split", "split", "split", "color", "sortnames", "curs", "carets",
                            "glyphclass", "toadd", "toadd", "copyglyph", "vfinfo", "created", "closest"])
            s = rng.randrange(10 ** 9)
            if k in ("kernwrite", "register"):
                it = {"op": k, "lookups": _gen_lookups(rng, adversarial), "seed": s, "kern": rng.random() < 0.7,
                      "classDefs": _shuf(rng, rng.sample(["kern1.Latn.A", "kern1.Default.A", "kern2.Latn.A", "kern1.Grek.O_1", "kern2.Hebr.x",
                                                          "kern1.Latn.A_1", "kern2.Default.period", "kern1.Arab.beh"], rng.randrange(0, 8))),
                      "langs": rng.choice([{}, {"DFLT": ["dflt"]}, {"latn": ["dflt", "TRK "], "DFLT": ["dflt"]}, {"grek": ["ELL "], "hebr": ["dflt"]}])}
            elif k == "split":
                it = dict(_gen_split(rng, adversarial), op=k, seed=s)
            elif k == "color":
                it = {"op": k, "m": _gen_color(rng), "seed": s}
            elif k == "sortnames":
                it = {"op": k, "names": rng.sample(["top", "bottom", "top_1", "ogonek", "Top", "_x", "a.b", "ring", "top.alt"], rng.randrange(0, 8)), "seed": s}
            elif k == "curs":
                pool = ["entry", "exit", "entry.alt", "exit.alt", "entry.2", "exit.3", "entry.3", "top", "exit.x", "entry.x"]
                gl = [rng.sample(pool, rng.randrange(0, 5)) for _ in range(rng.randrange(1, 6))]
                for suf in rng.sample(["", ".alt", ".2", ".x"], rng.randrange(0, 4)):     # complete (entry, exit) pairs
                    rng.choice(gl).append("entry" + suf)
                    rng.choice(gl).append("exit" + suf)
                it = {"op": k, "glyphs": [list(dict.fromkeys(g)) for g in gl], "seed": s}
            elif k == "carets":
                it = {"op": k, "xs": [rng.choice([100, 100.5, 250, 99.5, 300.25, 40, 250]) for _ in range(rng.randrange(1, 6))], "seed": s,
                      "v": rng.random() < 0.3}
            elif k == "glyphclass":
                order = rng.sample(["a", "B", "c", "Zed", "f_i", "acutecomb", ".notdef", "a.sc"], rng.randrange(1, 8))
                it = {"op": k, "order": order, "names": rng.sample(order + ["ghost"], rng.randrange(0, len(order) + 1)), "seed": s}
            elif k == "created":
                # SOURCE_DATE_EPOCH as TEXT (forms int() accepts; the epoch itself; day / leap-day / 2038 boundaries; rarely unset
                # or not a number), sometimes an explicit openTypeHeadCreated, and two wall clocks
                e = rng.choice([0, 0, 0, 1, 59, 86399, 86400, 951782399, 951782400, 1700000000, 2147483647, 2147483648, 4102444800,
                                rng.randrange(0, 4 * 10 ** 9)])
                r = rng.random()
                env = None if r < 0.12 else "" if r < 0.16 else "12h" if r < 0.2 else rng.choice(["%d", "%d", "%d", "0%d", "+%d", " %d "]) % e
                it = {"op": k, "seed": s, "env": env, "explicit": rng.choice([None, None, None, None, "2020/02/29 12:30:59"]),
                      "now": rng.sample(range(1, 4 * 10 ** 9), 2), "lib": rng.choice(["ufoLib2", "defcon"])}
            elif k == "closest":
                gl, name, exact = L.markliga_glyphs(rng, between=adversarial or rng.random() < 0.7, prefix="")
                # half of the items: an EARLIER filter has moved one base glyph in the copied glyph set (what a pre
                # TransformationsFilter restricted to some glyphs does); the exact corner of the component that refers to it moves
                # with it, the source font's own glyph does not (defect repaired in fac0d66: defcon measured the source layer)
                moved = None
                if rng.random() < 0.5:
                    comps = [g for g in gl if g["name"] == name][0]["components"]
                    j = rng.randrange(len(comps))
                    mdx, mdy = rng.choice([0, 40, 400, 900]), rng.choice([0, 0, 300, 800])
                    if mdx or mdy:
                        moved = {"glyph": comps[j][0], "by": [mdx, mdy]}
                        exact = [list(e) for e in exact]
                        exact[j] = [exact[j][0] + mdx, exact[j][1] + mdy]
                it = {"op": k, "seed": s, "glyphs": gl, "composite": name, "exact": [[rat(x), rat(y)] for x, y in exact], "moved": moved}
            elif k == "vfinfo":
                # a master's fontinfo (the digest fonts' info + some of the pool's attributes at OTHER values) and the overrides of
                # a <variable-font>: attributes the master has, attributes it lacks, values equal to the master's
                src = {"familyName": "C08 Test", "styleName": rng.choice(["Regular", "Bold"]), "ascender": 800, "descender": -200,
                       "xHeight": 500, "capHeight": 700}
                alt = {"openTypeOS2TypoAscender": 780, "openTypeHheaAscender": 1000, "openTypeOS2WeightClass": 400, "versionMajor": 1,
                       "versionMinor": 0, "italicAngle": 0, "openTypeOS2VendorID": "NONE", "openTypeOS2Type": [], "copyright": "(c) master",
                       "openTypeOS2Panose": [2, 11, 5, 2, 4, 5, 4, 2, 2, 4], "postscriptFontName": "C08Test-Regular",
                       "openTypeNameDesigner": "master designer", "openTypeOS2Selection": [8], "postscriptUnderlinePosition": -75}
                for kk in rng.sample(sorted(alt), rng.randrange(0, 7)):
                    src[kk] = alt[kk]
                keys = rng.sample(sorted(VF_INFO_POOL), rng.choice([0, 1, 2, 4, 8]))
                ov = {kk: rng.choice(VF_INFO_POOL[kk]) for kk in keys}
                for kk in rng.sample(sorted(src), rng.choice([0, 0, 1])):
                    ov[kk] = src[kk]
                it = {"op": k, "seed": s, "info": src, "ov": [[kk, ov[kk]] for kk in _shuf(rng, ov)]}
            elif k == "copyglyph":
                box = [[0, 0, "line"], [100.5, 0, "line"], [100, 90, None], [50, 120, None], [0, 100, "curve"]]
                an = []
                for nm in rng.sample(["top", "_top", "*top", "*bottom.alt", "caret_1", "entry"], rng.randrange(0, 4)):
                    an.append([nm, rng.randrange(0, 500) + rng.choice([0, 0.5]), rng.randrange(0, 700),
                               (nm + "-id") if (nm.startswith("*") or rng.random() < 0.3) else None, rng.choice([None, None, "1,0,0,1"])])
                lib = {}
                if any(a[3] for a in an):
                    lib["public.objectLibs"] = {a[3]: {"GPOS_Context": "f *"} for a in an if a[3]}
                if rng.random() < 0.4:
                    lib["com.example.key"] = {"b": [1, 2.5], "a": "x"}
                it = {"op": k, "seed": s, "name": rng.choice(["a", "f_i", "A.alt"]), "width": rng.choice([0, 500, 520.5]), "height": rng.choice([0, 1000]),
                      "unicodes": rng.sample([65, 97, 0x1F600, 0x3B1], rng.randrange(0, 3)), "contours": [box] if rng.random() < 0.8 else [],
                      "components": [], "anchors": an, "lib": lib, "note": rng.choice([None, "a note"]), "guidelines": rng.choice([[], ["g1"]])}
            else:
                it = dict(_gen_toadd(rng, adversarial or rng.random() < 0.25), op=k, seed=s)
            items.append(it)
        yield {"kind": "emit", "items": items}
    f2 = adversarial or _finding_listed(F2_SHAPE)
    for i in range(n):
        yield _gen_digest_case(rng, i, thorough, f2)
    # filter-object sessions (op "origin"): drawn from a sub-stream seeded AFTER everything else, so the streams above are what
    # they were before this stream existed
    r2 = random.Random(rng.randrange(2 ** 32))
    for _ in range(4 if not thorough else 24):
        yield {"kind": "emit", "items": [_gen_origin(r2, adversarial) for _ in range(25)]}


def _gen_origin(rng, adversarial=False):
    """ONE TransformationsFilter instance and 2-3 fonts (rarely 1 or 4) with different capHeight / xHeight / unitsPerEm, any of them
    unset.  Scales are dyadic percentages and heights integers or halves, so the doubles are exact.  unitsPerEm is never = 5 (mod
    10) while capHeight is unset: there 0.7 * upm is a half-integer in exact arithmetic and just below it as a double (ASSUMED)."""
    heights = [None, None, 700, 600, 701, 700.5, 1400, 1, 0, -100, -101, 499.5, 500, 520]
    def font():
        upm = rng.choice([None, None, 1000, 1000, 2048, 1024, 250, 16, 1, 999, 2001, 3, 4096])
        return {"upm": upm, "cap": rng.choice(heights), "xh": rng.choice(heights)}
    k = rng.choice([2, 2, 3, 3, 3, 1, 4])
    fonts = [font() for _ in range(k)]
    if rng.random() < 0.5 and k > 1:
        # same values except for ONE attribute: the smallest difference a carried-over height could hide behind
        fonts[1] = dict(fonts[0])
        a = rng.choice(["upm", "cap", "xh"])
        fonts[1][a] = rng.choice([v for v in ([None, 1000, 2048, 250, 16] if a == "upm" else heights) if v != fonts[0][a]])
    r = rng.random()
    origin = rng.choice([0, 1, 2, 3]) if r < 0.8 else 4 if r < 0.92 else rng.choice([5, -1, 7, 100])
    sc = [50, 25, 200, 150, 75, 125]
    r = rng.random()
    sx, sy = (100, 100) if r < 0.15 else (rng.choice(sc), 100) if r < 0.25 else (rng.choice(sc), rng.choice(sc))
    dx, dy = (0, 0) if rng.random() < 0.6 else (rng.choice([0, 10, -30, 2.5]), rng.choice([0, 20, -7, 0.5]))
    return {"op": "origin", "seed": rng.randrange(10 ** 9), "origin": origin, "sx": sx, "sy": sy, "dx": dx, "dy": dy, "fonts": fonts,
            "lib": rng.choice(["ufoLib2", "defcon"]), "via": rng.choice(["call", "call", "set_context"])}


# ------------------------------------------------------------------------------------------------ running the real code

def _two_orders(rng, l):
    """a second insertion order of the same content (different from the first when there is a choice)"""
    b = _shuf(rng, l)
    if b == list(l) and len(l) > 1:
        b = list(reversed(l))
    return b


def _run_kernwrite(it, rng):
    from fontTools.feaLib import ast
    from ufo2ft.featureWriters.kernFeatureWriter import KernFeatureWriter
    names = sorted({n for _, grp in it["lookups"] for n, _ in grp})
    objs = {n: ast.LookupBlock(n) for n in names}
    cdA = [[n, n] for n in it["classDefs"]]
    cdB = _two_orders(rng, cdA)
    lkA = it["lookups"]
    lkB = _two_orders(rng, lkA)

    def real(cd, lk):
        cap = {}
        lookups = {s: {n: objs[n] for n, _ in grp} for s, grp in lk}
        stub = SimpleNamespace(_makeKerningLookups=lambda: lookups, _makeFeatureBlocks=lambda l: {"kern": object()},
                               context=SimpleNamespace(feaFile=None, kerning=SimpleNamespace(classDefs=dict((k, v) for k, v in cd))),
                               _insert=lambda **kw: cap.update(kw), log=log)
        if not lookups:
            return {"classDefs": [c for _, c in sorted(dict(cd).items())], "lookups": []}
        KernFeatureWriter._write(stub)
        return {"classDefs": list(cap["classDefs"]), "lookups": [l.name for l in cap["lookups"]]}

    obs = {"a": real(cdA, lkA), "b": real(cdB, lkB)}
    return {"op": "kernwrite", "in": {"classDefsA": cdA, "classDefsB": cdB, "lookupsA": lkA, "lookupsB": lkB}, "obs": obs,
            "tags": ["emit:kernwrite"], "nontrivial": lkA != lkB or cdA != cdB}


def _stmts(feature):
    from fontTools.feaLib import ast
    out = []
    for s in feature.statements:
        if isinstance(s, ast.ScriptStatement):
            out.append("script " + s.script)
        elif isinstance(s, ast.LanguageStatement):
            out.append("language " + s.language)
        elif isinstance(s, ast.LookupReferenceStatement):
            out.append("lookup " + s.lookup.name)
        elif isinstance(s, ast.Comment):
            out.append("#")
        else:
            out.append("?" + type(s).__name__)
    return out


def _run_register(it, rng):
    from fontTools import unicodedata
    from fontTools.feaLib import ast
    from ufo2ft.featureWriters.kernFeatureWriter import DIST_ENABLED_SCRIPTS, KernFeatureWriter, script_direction
    from ufo2ft.util import DFLT_SCRIPTS
    names = sorted({n for _, grp in it["lookups"] for n, _ in grp})
    objs = {n: ast.LookupBlock(n) for n in names}
    lkA = it["lookups"]
    lkB = _two_orders(rng, lkA)
    kern = it["kern"]

    def real(lk):
        lookups = {s: {n: objs[n] for n, _ in grp} for s, grp in lk}
        f = ast.FeatureBlock("kern" if kern else "dist")
        KernFeatureWriter._registerLookups(f, lookups, dict(it["langs"]))
        return _stmts(f)

    scripts = [s for s, _ in lkA]
    inp = {"isKern": kern, "distEnabled": sorted(DIST_ENABLED_SCRIPTS), "dfltScripts": list(DFLT_SCRIPTS),
           "dir": [[s, script_direction(s)] for s in scripts],
           "otTags": [[s, list(unicodedata.ot_tags_from_script(s))] for s in scripts],
           "feaLangs": [[k, v] for k, v in it["langs"].items()], "lookupsA": lkA, "lookupsB": lkB}
    both = sum(1 for s in scripts if s in DFLT_SCRIPTS)
    return {"op": "register", "in": inp, "obs": {"a": real(lkA), "b": real(lkB)},
            "tags": ["emit:register:" + ("kern" if kern else "dist")] + (["emit:register:both-dflt-scripts"] if both > 1 else []),
            "nontrivial": lkA != lkB}


def _side(s):
    return tuple(s) if isinstance(s, list) else s


def _run_split(it, rng):
    from ufo2ft.featureWriters.kernFeatureWriter import KerningPair, script_direction, splitKerning
    from ufo2ft.util import DFLT_SCRIPTS
    gs = {g: set(v) for g, v in it["gs"]}
    pA = it["pairs"]
    pB = _two_orders(rng, pA)

    def real(pairs):
        try:
            res = splitKerning([KerningPair(_side(a), _side(b), v) for a, b, v in pairs], gs)
        except AssertionError:
            return None
        return [[list(k), [[list(p.side1) if isinstance(p.side1, tuple) else p.side1,
                            list(p.side2) if isinstance(p.side2, tuple) else p.side2, rat(p.value)] for p in v]] for k, v in res.items()]

    scs = sorted({s for _, v in it["gs"] for s in v} | set(DFLT_SCRIPTS))
    enc = lambda ps: [[a, b, rat(v)] for a, b, v in ps]
    inp = {"dflt": list(DFLT_SCRIPTS), "dir": [[s, script_direction(s)] for s in scs], "gsA": it["gs"],
           "gsB": [[g, _shuf(rng, v)] for g, v in _shuf(rng, it["gs"])], "pairsA": enc(pA), "pairsB": enc(pB)}
    oa = real(pA)
    tags = ["emit:split"]
    if oa is not None:
        tags.append("emit:split:buckets=%d" % min(len(oa), 4))
        if any(len(k) > 1 for k, _ in oa):
            tags.append("emit:split:merged-scripts")
    return {"op": "split", "in": inp, "obs": {"a": oa, "b": real(pB)}, "tags": tags, "nontrivial": pA != pB and oa is not None and len(oa) > 1}


def _run_color(it, rng):
    from ufo2ft.featureWriters.markFeatureWriter import MarkFeatureWriter
    w = MarkFeatureWriter()
    mA = it["m"]
    mB = [[g, _shuf(rng, cs)] for g, cs in _two_orders(rng, mA)]
    real = lambda m: [list(g) for g in w._groupMarkClasses({g: set(cs) for g, cs in m})]
    oa = real(mA)
    return {"op": "color", "in": {"pre": w.markClassPrefix, "sortKey": [[k, v] for k, v in w.anchorSortKey.items()], "mA": mA, "mB": mB},
            "obs": {"a": oa, "b": real(mB)}, "tags": ["emit:color", "emit:color:groups=%d" % min(len(oa), 4)], "nontrivial": len(oa) > 1}


def _run_sortnames(it, rng):
    from ufo2ft.featureWriters.markFeatureWriter import MarkToBasePos, MarkToLigaPos
    a = it["names"]
    b = _two_orders(rng, a)
    mk = lambda ns: [SimpleNamespace(name=n, x=1, y=2.5, markClass=n) for n in ns]
    ra = [mc for _, mc in MarkToBasePos("A", mk(a))._marksAsAST()]
    rb = [mc for _, mc in MarkToLigaPos("f_i", [mk(b)])._marksAsAST()[0]]
    return {"op": "sortnames", "in": {"a": a, "b": b}, "obs": {"a": ra, "b": rb}, "tags": ["emit:marksAsAST"], "nontrivial": a != b}


def _run_curs(it, rng):
    from ufo2ft.featureWriters.cursFeatureWriter import CursFeatureWriter
    gA = it["glyphs"]
    gB = [_shuf(rng, g) for g in _two_orders(rng, gA)]
    mk = lambda gl: [("g%d" % i, SimpleNamespace(anchors=[SimpleNamespace(name=n) for n in g])) for i, g in enumerate(gl)]
    real = lambda gl: [list(p) for p in CursFeatureWriter._getCursiveAnchorPairs(mk(gl))]
    flat = lambda gl: list(dict.fromkeys(n for g in gl for n in g))
    oa = real(gA)
    return {"op": "curs", "in": {"a": flat(gA), "b": flat(gB)}, "obs": {"a": oa, "b": real(gB)},
            "tags": ["emit:curs", "emit:curs:pairs=%d" % min(len(oa), 3)], "nontrivial": len(oa) > 1}


def _run_carets(it, rng):
    from ufo2ft.featureWriters.gdefFeatureWriter import GdefFeatureWriter
    xa = it["xs"]
    xb = _two_orders(rng, xa)
    vert = it["v"]

    def real(xs):
        anchors = [SimpleNamespace(name=("vcaret_%d" if vert else "caret_%d") % (i + 1), x=0 if vert else x, y=x if vert else 0) for i, x in enumerate(xs)]
        pos = {a.name: (a.x, a.y) for a in anchors}
        stub = SimpleNamespace(context=SimpleNamespace(orderedGlyphSet={"f_i": SimpleNamespace(anchors=anchors)}, isVariable=False),
                               _getAnchor=lambda g, n, anchor=None: (anchor.x, anchor.y) if anchor is not None else pos[n])
        return GdefFeatureWriter._getLigatureCarets(stub).get("f_i", [])

    ded = lambda xs: [rat(x) for x in dict.fromkeys(xs)]
    return {"op": "carets", "in": {"a": ded(xa), "b": ded(xb)}, "obs": {"a": real(xa), "b": real(xb)},
            "tags": ["emit:carets:" + ("v" if vert else "h")], "nontrivial": len(set(xa)) > 1}


def _run_glyphclass(it, rng):
    from ufo2ft.featureWriters.gdefFeatureWriter import GdefFeatureWriter
    oA, nA = it["order"], it["names"]
    oB, nB = _two_orders(rng, oA), _two_orders(rng, nA)
    real = lambda o, n: GdefFeatureWriter._sortedGlyphClass(SimpleNamespace(context=SimpleNamespace(orderedGlyphSet={g: None for g in o})), frozenset(n))
    return {"op": "glyphclass", "in": {"orderedA": oA, "orderedB": oB, "namesA": nA, "namesB": nB},
            "obs": {"a": real(oA, nA), "b": real(oB, nB)}, "tags": ["emit:glyphclass"], "nontrivial": len(nA) > 1}


def _run_toadd(it, rng):
    from fontTools.misc.transform import Transform
    import ufo2ft.filters.propagateAnchors as P
    from ufo2ft.util import OpenTypeCategories
    font = build({"glyphs": it["glyphs"]})
    comp = font["comp"]
    own = [a.name for a in comp.anchors]
    base, mark = [], []
    for c in comp.components:
        (mark if any(a.name.startswith("_") for a in font[c.baseGlyph].anchors) else base).append(c)
    names = list(dict.fromkeys(a.name for c in base for a in font[c.baseGlyph].anchors))
    data = []
    for n in names:
        d = {}
        P._get_anchor_data(d, font, base, n)
        data.append([n, [[k, rat(v[0]), rat(v[1])] for k, v in d.items()]])
    adj = {}
    for c in mark:
        g = font[c.baseGlyph]
        t = Transform(*c.transformation)
        for a in g.anchors:
            if any(b.name == "_" + a.name for b in g.anchors):
                adj[a.name] = t.transformPoint((a.x, a.y))
    P._propagate_glyph_anchors(font, comp, set(), set(), OpenTypeCategories.load(font))
    obs = [[a.name, rat(a.x), rat(a.y)] for a in list(comp.anchors)[len(own):]]
    keys = [k for _, es in data for k, _, _ in es]
    tags = ["emit:toadd", "emit:toadd:base=%d,mark=%d" % (len(base), len(mark))]
    if len(keys) != len(set(keys)):
        tags.append("emit:toadd:colliding-keys")
    return {"op": "toadd", "in": {"composite": own, "namesA": sorted(names), "namesB": _two_orders(rng, sorted(names)), "data": data,
                                  "adjust": [[k, rat(v[0]), rat(v[1])] for k, v in adj.items()], "sorted": True},
            "obs": {"a": obs}, "tags": tags, "nontrivial": len(names) > 1}


def _glyph_fields(g):
    from fontTools.pens.recordingPen import RecordingPointPen
    pen = RecordingPointPen()
    g.drawPoints(pen)
    pts = json.dumps([[op, [list(a) if isinstance(a, tuple) else a for a in args], {k: v for k, v in sorted(kw.items()) if v is not None}]
                      for op, args, kw in pen.value], sort_keys=True)
    anchors = [[a.name, rat(a.x), rat(a.y), getattr(a, "identifier", None), None if getattr(a, "color", None) is None else str(a.color)]
               for a in g.anchors]
    return {"name": g.name, "width": rat(g.width), "height": rat(g.height), "unicodes": list(g.unicodes), "anchors": anchors,
            "lib": json.dumps(dict(g.lib), sort_keys=True), "points": pts, "note": g.note or None,
            "guidelines": [gl.name or "" for gl in g.guidelines], "image": None}


def _run_copyglyph(it, rng):
    from ufo2ft.util import _copyGlyph
    obs, src = {}, None
    for lib in ("ufoLib2", "defcon"):
        font = build({"glyphs": [{"name": it["name"], "width": it["width"], "height": it["height"], "unicodes": it["unicodes"],
                                  "contours": it["contours"], "components": it["components"], "anchors": []}]}, lib)
        g = font[it["name"]]
        for a in it["anchors"]:
            d = {"name": a[0], "x": a[1], "y": a[2]}
            if a[3] is not None:
                d["identifier"] = a[3]
            if a[4] is not None:
                d["color"] = a[4]
            g.appendAnchor(d)
        for k, v in it["lib"].items():
            g.lib[k] = v
        if it["note"]:
            g.note = it["note"]
        for gl in it["guidelines"]:
            g.appendGuideline({"x": 10, "name": gl})
        if lib == "ufoLib2":
            src = _glyph_fields(g)
        try:
            obs[lib] = _glyph_fields(_copyGlyph(g))
        except Exception as e:    # pragma: no cover
            obs[lib] = dict(src, name="ERR:" + type(e).__name__)
    return {"op": "copyglyph", "in": src, "obs": obs,
            "tags": ["emit:copyglyph", "emit:copyglyph:identifier=%s" % any(a[3] for a in it["anchors"])], "nontrivial": bool(it["anchors"])}


def _canon_info_value(v):
    if isinstance(v, bool) or v is None or isinstance(v, str):
        return v
    if isinstance(v, (int, float)):
        return rat(v)
    if isinstance(v, (list, tuple)):
        return [_canon_info_value(x) for x in v]
    if isinstance(v, dict):
        return {str(k): _canon_info_value(x) for k, x in sorted(v.items())}
    return repr(v)


def _info_dict(info):
    """every fontinfo attribute of UFO 3 that is set, sorted by name, values as canonical JSON text (numbers exact)"""
    from fontTools.ufoLib import fontInfoAttributesVersion3 as ATTRS
    out = []
    for k in sorted(ATTRS):
        v = getattr(info, k, None)
        if v is None or k == "guidelines":
            continue
        out.append([k, json.dumps(_canon_info_value(v), sort_keys=True)])
    return out


def _run_vfinfo(it, rng):
    """InfoCompiler(otf, master, overrides) + compile() on a really compiled static font of the master, as
    PostProcessor.apply_fontinfo does at the end of a variable build: the master's Info before / after, and the Info of the
    temporary UFO the name/OS2/hhea/head/post values are taken from"""
    import ufo2ft
    from ufo2ft.infoCompiler import InfoCompiler
    ov = {k: v for k, v in it["ov"]}
    before, obs = {}, {}
    for lib in ("ufoLib2", "defcon"):
        font = build({"upm": 1000, "glyphs": [{"name": "a", "width": 500, "unicodes": [97], "contours": [], "components": [], "anchors": []}],
                      "info": it["info"]}, lib)
        otf = ufo2ft.compileTTF(font)
        before[lib] = _info_dict(font.info)
        try:
            c = InfoCompiler(otf, font, json.loads(json.dumps(ov)))
            temp = _info_dict(c.ufo.info)
            c.compile()
        except Exception as e:    # pragma: no cover
            temp = [["ERR", type(e).__name__ + ":" + str(e)[:80]]]
        obs[lib] = {"after": _info_dict(font.info), "temp": temp}
    enc = [[k, json.dumps(_canon_info_value(v), sort_keys=True)] for k, v in it["ov"]]
    src = dict(before["ufoLib2"])
    changes = sum(1 for k, v in enc if src.get(k) != v)
    return {"op": "vfinfo", "in": {"ov": enc, "before": before}, "obs": obs,
            "tags": ["emit:vfinfo", "emit:vfinfo:overrides=%d" % min(len(enc), 3), "emit:vfinfo:effective=%d" % min(changes, 3)],
            "nontrivial": changes > 0}


_DATE = re.compile(r"(\d{4})/(\d\d)/(\d\d) (\d\d):(\d\d):(\d\d)")


def _date_fields(v):
    m = _DATE.fullmatch(v) if isinstance(v, str) else None
    return [int(x) for x in m.groups()] if m else None


def _run_created(it, rng):
    """getAttrWithFallback(info, "openTypeHeadCreated") (what OutlineCompiler.setupTable_head asks for) with SOURCE_DATE_EPOCH as
    given, under two different wall clocks (time.gmtime() without argument answers `now`)"""
    import os
    import time
    from ufo2ft.fontInfoData import getAttrWithFallback
    info = {"familyName": "C08"}
    if it["explicit"]:
        info["openTypeHeadCreated"] = it["explicit"]
    font = build({"glyphs": [], "info": info}, it["lib"])
    real, saved, obs = time.gmtime, os.environ.get("SOURCE_DATE_EPOCH"), {}
    try:
        if it["env"] is None:
            os.environ.pop("SOURCE_DATE_EPOCH", None)
        else:
            os.environ["SOURCE_DATE_EPOCH"] = it["env"]
        for key, now in zip("ab", it["now"]):
            time.gmtime = lambda secs=None, now=now: real(now if secs is None else secs)
            try:
                obs[key] = _date_fields(getAttrWithFallback(font.info, "openTypeHeadCreated"))
            except Exception:
                obs[key] = None
    finally:
        time.gmtime = real
        if saved is None:
            os.environ.pop("SOURCE_DATE_EPOCH", None)
        else:
            os.environ["SOURCE_DATE_EPOCH"] = saved
    try:
        value = None if it["env"] is None else int(it["env"])
    except ValueError:
        value = None
    kind = "unset" if it["env"] is None else "invalid" if value is None else "zero" if value == 0 else "positive"
    return {"op": "created", "in": {"explicit": _date_fields(it["explicit"]), "env": {"set": it["env"] is not None, "value": value}, "now": it["now"]},
            "obs": obs, "tags": ["emit:created", "emit:created:env=" + kind, "emit:created:explicit=%s" % bool(it["explicit"])],
            "nontrivial": kind in ("zero", "positive") and not it["explicit"]}


def _run_closest(it, rng):
    """propagateAnchors._bounds and _component_closest_to_origin on the components of a mark-only composite, in the copied glyph
    set the pre-processor hands to the filter, built with defcon and with ufoLib2"""
    import ufo2ft.filters.propagateAnchors as P
    from ufo2ft.util import _GlyphSet
    obs = {}
    for lib in ("defcon", "ufoLib2"):
        font = build({"glyphs": it["glyphs"]}, lib)
        gs = _GlyphSet.from_layer(font, copy=True)
        if it.get("moved"):
            from ufo2ft.filters.transformations import TransformationsFilter
            TransformationsFilter(OffsetX=it["moved"]["by"][0], OffsetY=it["moved"]["by"][1], include=[it["moved"]["glyph"]])(font, gs)
        comps = list(gs[it["composite"]].components)
        try:
            bounds = [[rat(v) for v in P._bounds(c, gs)] for c in comps]
            ch = P._component_closest_to_origin(comps, gs)
            chosen = [k for k, c in enumerate(comps) if c is ch][0]
        except Exception:    # pragma: no cover
            bounds, chosen = [], None
        obs[lib] = {"bounds": bounds, "chosen": chosen}
    return {"op": "closest", "in": {"exact": it["exact"]}, "obs": obs, "tags": ["emit:closest", "emit:closest:chosen=%s" % obs["ufoLib2"]["chosen"], "emit:closest:base-moved-by-earlier-filter=%s" % bool(it.get("moved"))],
            "nontrivial": len(it["exact"]) > 1}


def _run_origin(it, rng):
    """ONE TransformationsFilter instance run on every font of the item (through __call__, or set_context directly) against a new
    instance per font: get_origin_height(font, options.Origin) and context.matrix after each call; and get_origin_height(font,
    Origin(k)), k = 0..4, asked of the shared instance afterwards"""
    from ufo2ft.filters.transformations import TransformationsFilter as T
    from ufo2ft.util import _GlyphSet
    kw = dict(Origin=it["origin"], ScaleX=it["sx"], ScaleY=it["sy"], OffsetX=it["dx"], OffsetY=it["dy"])
    fonts = [build({"glyphs": [], "info": {"unitsPerEm": f["upm"], "capHeight": f["cap"], "xHeight": f["xh"]}}, it["lib"]) for f in it["fonts"]]

    def row(inst, font):
        if it["via"] == "call":
            inst(font)
        else:
            inst.set_context(font, _GlyphSet.from_layer(font))
        return [rat(inst.get_origin_height(font, inst.options.Origin))] + [rat(v) for v in inst.context.matrix]
    try:
        shared = T(**kw)
    except Exception as e:
        obs = {"err": type(e).__name__}
    else:
        try:
            obs = {"shared": [row(shared, f) for f in fonts], "fresh": [row(T(**kw), f) for f in fonts],
                   "heights": [[rat(shared.get_origin_height(f, T.Origin(k))) for k in range(5)] for f in fonts]}
        except Exception as e:    # pragma: no cover
            obs = {"err": type(e).__name__}
    differ = "shared" in obs and len({json.dumps(r) for r in obs["fresh"]}) > 1
    unset = sorted({a for f in it["fonts"] for a in ("upm", "cap", "xh") if f[a] is None})
    q = lambda v: None if v is None else rat(v)
    return {"op": "origin", "in": {"origin": it["origin"], "sx": rat(it["sx"]), "sy": rat(it["sy"]), "dx": rat(it["dx"]), "dy": rat(it["dy"]),
                                   "fonts": [{a: q(f[a]) for a in ("upm", "cap", "xh")} for f in it["fonts"]]},
            "obs": obs, "tags": ["emit:origin", "emit:origin:origin=%s" % (it["origin"] if 0 <= it["origin"] <= 4 else "invalid"),
                                 "emit:origin:fonts=%d" % len(fonts), "emit:origin:unset=%s" % ("+".join(unset) or "none"),
                                 "emit:origin:via=" + it["via"], "emit:origin:fonts-differ=%s" % differ],
            "nontrivial": differ}


RUNNERS = {"origin": _run_origin, "created": _run_created, "closest": _run_closest, "vfinfo": _run_vfinfo, "copyglyph": _run_copyglyph, "kernwrite": _run_kernwrite, "register": _run_register, "split": _run_split, "color": _run_color, "sortnames": _run_sortnames,
           "curs": _run_curs, "carets": _run_carets, "glyphclass": _run_glyphclass, "toadd": _run_toadd}


def _run_digests(case):
    base = {"fds": case["fds"], "opts": case["opts"], "vfinfo": case.get("vfinfo"), "epoch": case.get("epoch")}
    refobs = L.run_worker(dict(base, **{k: case["ref"][k] for k in ("lib", "source", "reopen", "shuffle", "steps")}), case["ref"]["hashseed"])
    ref, reftabs = {}, {}
    for kind, mode, sha, tabs in refobs:
        ref[kind] = sha
        reftabs[kind] = tabs
    obs, tags, detail = [], set(), []
    for p in case["procs"]:
        o = L.run_worker(dict(base, **{k: p[k] for k in ("lib", "source", "reopen", "shuffle", "steps")}), p["hashseed"])
        prev = []
        decoy = any(m == "decoy" for _, m in p["steps"])
        for kind, mode, sha, tabs in o:
            obs.append([kind, sha])
            hist = ("first" if not decoy else "after-other-font") if not prev else ("twice" if prev[-1] == kind else prev[-1] + "-then-" + kind)
            if mode == "inplace":
                hist = "inplace"
            tags.update(["hist:" + hist, "kind:" + kind, "lib:" + p["lib"], "source:" + p["source"],
                         "reopen:" + str(p["reopen"]), "order:" + ("shuffled" if p["shuffle"] is not None else "given"),
                         "hashseed:" + (str(p["hashseed"]) if p["hashseed"] < 4 else "other")])
            if sha != ref[kind]:
                diff = sorted(t for t in set(tabs) | set(reftabs[kind]) if tabs.get(t) != reftabs[kind].get(t))
                detail.append({"proc": {k: p[k] for k in ("hashseed", "lib", "source", "reopen", "shuffle")}, "kind": kind, "history": hist,
                               "first_differing_tables": diff[:6], "digest": sha[:80]})
            if mode != "inplace":
                prev.append(kind)
    st = case["fds"][0].get("_stats", {})
    tags.update(["scripts=%d" % len(st.get("scripts", [])), "cats:" + str(st.get("cats")), "lsys:" + str(st.get("lsys")),
                 "masters=%d" % len(case["fds"]), "vf-fontinfo=%d" % len(case.get("vfinfo") or []), "contextual-anchors=%d" % min(st.get("ctx", 0), 2),
                 "colliding-propagated-anchors:" + str(bool(st.get("collide"))), "mark-only-ligature-with-curve-extrema:" + str(bool(st.get("markliga"))),
                 "SOURCE_DATE_EPOCH:" + ("default" if case.get("epoch") is None else "0" if int(case["epoch"]) == 0 else "other"), "dense-kerning:" + str(bool(st.get("dense")))] + ["opt:" + k for k in case["opts"]]
                + ["filter-object:" + (f if isinstance(f, str) else f["name"] + (":origin=%s" % f["kwargs"].get("Origin") if f["name"] == "transformations" else ""))
                   for f in case["opts"].get("filterObjs", [])] + ["filter:" + f for f in st.get("filters", [])])
    if any(s.startswith("ERR") for s in ref.values()):
        tags.add("ref-error")
    nontrivial = len(st.get("scripts", [])) >= 2 and st.get("pairs", 0) > 0 and st.get("marks", 0) > 0
    return [{"op": "digests", "in": {"ref": [[k, v] for k, v in ref.items()], "mismatches": detail}, "obs": obs, "tags": sorted(tags),
             "nontrivial": nontrivial}]


def run(case):
    logging.disable(logging.CRITICAL)
    if case["kind"] == "digests":
        return _run_digests(case)
    out = []
    for it in case["items"]:
        out.append(RUNNERS[it["op"]](it, random.Random(it["seed"])))
    return out


def agree(req, rep):
    m, o = rep["model"], req["obs"]
    if req["op"] == "digests":
        # the model of purity ("every run returns the reference digest") says nothing beyond `holds`; a deviating digest is
        # reported as a property failure with its input (never as a mere model/implementation difference)
        return True
    if req["op"] == "split":
        return m["a"] == o["a"] and m["b"] == o["b"] and m["sets"] == m["a"]
    if req["op"] == "register":
        both = any(t.endswith("both-dflt-scripts") for t in req["tags"])
        return m["a"] == o["a"] and m["b"] == o["b"] and (both or m["swapped"] == m["a"])
    if req["op"] == "toadd":
        return m["a"] == o["a"]
    if req["op"] == "copyglyph":
        return m["ufoLib2"] == o["ufoLib2"] and m["defcon"] == o["defcon"]
    if req["op"] == "closest":
        return m == o
    if req["op"] == "origin":
        if "err" in o or "err" in m:
            return m == o
        return m["rows"] == o["shared"] and m["rows"] == o["fresh"] and m["heights"] == o["heights"]
    if req["op"] == "vfinfo":
        return all(m[l]["after"] == o[l]["after"] and m[l]["temp"] == o[l]["temp"] for l in ("ufoLib2", "defcon"))
    return m["a"] == o["a"] and m["b"] == o["b"]


def shrink(case):
    if case["kind"] == "emit":
        if len(case["items"]) > 1:
            for it in case["items"]:
                yield {"kind": "emit", "items": [it]}
        elif case["items"] and case["items"][0]["op"] == "origin" and len(case["items"][0]["fonts"]) > 1:
            it = case["items"][0]
            for k in range(len(it["fonts"])):
                yield {"kind": "emit", "items": [dict(it, fonts=it["fonts"][:k] + it["fonts"][k + 1:])]}
        return
    # fewer interpreters, then fewer steps, then fewer glyphs / pairs
    if len(case["procs"]) > 1:
        for p in case["procs"]:
            yield dict(case, procs=[p])
    for p in case["procs"][:1]:
        if len(p["steps"]) > 1:
            for k in range(len(p["steps"])):
                yield dict(case, procs=[dict(p, steps=p["steps"][:k] + p["steps"][k + 1:])])
    vf = case.get("vfinfo")
    if vf:
        if len(vf) > 1:
            for one in vf:
                if one:
                    yield dict(case, vfinfo=[one])
        elif len(vf[0]) > 1:
            for k in vf[0]:
                yield dict(case, vfinfo=[{k: vf[0][k]}])
    fd = case["fds"][0]
    if len(case["fds"]) == 1:
        if fd["kerning"]:
            h = len(fd["kerning"]) // 2
            for part in (fd["kerning"][:h], fd["kerning"][h:]):
                yield dict(case, fds=[dict(fd, kerning=part)])
        # glyphs that nothing else refers to, removed in halves / quarters (each candidate costs two interpreters)
        used = {c[0] for g in fd["glyphs"] for c in g["components"]}
        free = [g["name"] for g in fd["glyphs"] if g["name"] not in used and g["name"] not in ("f", "i", "a", "behar", "lamar", "alefar")
                and g["name"] not in fd.get("features", "")]
        for parts in (2, 4):
            size = max(1, len(free) // parts)
            for k in range(0, len(free), size):
                drop = set(free[k:k + size])
                if drop and len(drop) < len(fd["glyphs"]):
                    yield dict(case, fds=[dict(fd, glyphs=[g for g in fd["glyphs"] if g["name"] not in drop])])


def classify_failure(res):
    """finding F1 and nothing else: the font uses the propagateAnchors filter and the ONLY deviating observations are
    inplace=True runs, which agree with each other and either compile where the reference (and every run without inplace) raises
    the TypeError of a None anchor, or differ from the reference in the layout tables (GPOS/GDEF) only"""
    req = res["req"]
    if req["op"] != "digests":
        return None
    mm = req["in"]["mismatches"]
    ref = dict(req["in"]["ref"])
    errs = ("ERR:TypeError:'NoneType' object is not subscriptable", "ERR:TypeError:cannot unpack non-iterable NoneType object")
    fd = req["case"]["fds"][0]
    has_filter = any(f.get("name") == "propagateAnchors" for f in fd.get("lib", {}).get("com.github.googlei18n.ufo2ft.filters", []))
    moved = any(isinstance(f, dict) and f["name"] == "transformations" for f in req["case"]["opts"].get("filterObjs", []))
    if not mm or not (has_filter or moved):
        return None
    layout = {"GPOS", "GDEF", "~fea"}
    for m in mm:
        if m["history"] != "inplace" or m["digest"].startswith("ERR"):
            return None
        if ref[m["kind"]].startswith("ERR"):
            if not ref[m["kind"]].startswith(errs):
                return None
        elif not {t.split(":")[-1] for t in m["first_differing_tables"]} <= layout:
            return None
    good = {}
    for m in mm:   # the inplace runs agree with each other
        if good.setdefault(m["kind"], m["digest"]) != m["digest"]:
            return None
    if moved:
        # F2: every deviating run is an inplace run whose fonts differ from the reference in the layout tables only
        return F2_SHAPE if not any(ref[m["kind"]].startswith("ERR") for m in mm) or has_filter else None
    return F1_SHAPE


LEVEL_TEXT = ("Proved for all inputs (Lean): every modelled place where the kern / mark / curs / gdef feature writers and propagateAnchors "
              "serialise a Python set or an order-carrying dict emits the same list for every iteration order (Perm-invariance; core: a key-ordered "
              "rearrangement is unique when keys are distinct), incl. script registration, class naming order, mark-class graph colouring; "
              "splitKerning's buckets, sorted by key, do not depend on the order of the kerning dict; per-call construction of the "
              "compiler object makes the n-th public call equal to a first call whenever sources are unchanged (C07); for the variable-font "
              "fontinfo overrides that hypothesis is proved, not assumed: InfoCompiler's constructor (heap model with object identity, defcon and "
              "ufoLib2 branch) writes to no Info object that existed before the call, and the temporary Info it builds is the same for both "
              "libraries (override where given, master's value elsewhere), so a history containing such variable builds returns first-call "
              "results (C08_history_vfinfo). Environment: with SOURCE_DATE_EPOCH set to ANY value (0 included) or an explicit "
              "openTypeHeadCreated, the modelled head.created is the same for every wall clock (created_pinned), and without it it is not "
              "(created_unset_clock). Filter objects: a shared TransformationsFilter instance computes origin height and matrix of every call from "
              "its options and the CURRENT font only, whatever it was used on before (C08_filter_history_free; the caching slip is refuted by "
              "cached_slip_violates). UFO library: the component promoted to base in a mark-only composite is the first one nearest to the "
              "origin for every list of bounds (closest_spec), so the two library branches of _bounds choose alike whenever they report the "
              "same corners (closest_lib_agnostic) - that they do is observed, on curves without on-curve extrema. Decisive runtime part: sha256 of "
              "fonts from fresh interpreters over hash seeds x histories x UFO library x memory/disk x inplace x container order.")
LEVEL_NOTE = ("Filter objects in filters=[...] (option objects with a call history of their own): TransformationsFilter's font-dependent "
              "state IS modelled (Model/C08Filter.lean: Origin enum incl. the ValueError of start(), get_origin_height with the capHeight / "
              "xHeight / unitsPerEm fallbacks of fontInfoData as a function of (options, fontinfo) only, set_context's matrix for Slant = 0, an "
              "instance = options + self.context, a session = one instance called on a list of fonts). Proved (Props/C08Filter.lean): "
              "C08_filter_history_free - for every options, EVERY earlier context and every list of fonts, the context (height + matrix) of "
              "call k is the one a fresh instance computes for font k; session_opts / session_after_session - a session leaves the options "
              "alone, so a later session is that of a fresh instance; origin_heights_spec - the five heights satisfy the declarative "
              "description (value or nearest-integer-half-up of 0.7 / 0.5 upm; halves thereof; baseline 0); cached_slip_violates / "
              "cached_slip_heights - kernel-checked witness that an instance which keeps the first font's height (capHeight 700 then 600 "
              "-> 700, 700) is NOT history-free, and holdsOriginHistory rejects its observation. Tie: the `origin` emitter stream (shared vs "
              "new instances on 1-4 fonts, through __call__ / set_context, both UFO libraries). NOT modelled: the other filter classes' "
              "instances, context.modified / glyph inclusion of a TransformationsFilter, Slant != 0, the double rounding of 0.7 * upm at "
              "half-integers (ASSUMED) - for those the evidence remains the sha256 of fonts compiled with instances already used on another "
              "font vs. with new instances. Trusted: Lean kernel + standard axioms; the correspondence harness; determinism of fontTools & co. is measured, not modelled; hash seeds "
              "are sampled. The Lean models cover the emitters listed in Model/C08.lean, not whole writers (those are C05/C06/C18's models). "
              "MATH / colour layers excluded here (C07 findings). The InfoCompiler model covers the constructor's Info handling only; that the "
              "name/OS2/hhea/head/post values of the variable font are a function of that temporary Info, and that nothing ELSE in a variable "
              "build writes to the masters, is observed by the digest histories (static / variable compiles after a variable build with "
              "overrides), not proved. `created`: the predicate (same result under two clocks + the date denotes the instant, counted year by "
              "year) is evaluated by the Lean driver on observed data, and the model is proved to satisfy it for EVERY epoch e >= 0 "
              "(Props/C08Calendar.lean: created_calendar = the era arithmetic of civilFromDays yields a valid date whose year-by-year / "
              "month-by-month / h:m:s count is e, incl. the 4/100/400 leap rule; created_unique = it is the only such date, so `denotes f e` "
              "<-> f = stampOf e; civil_correct / civil_roundtrip = days->civil->days and civil->days->civil are identities; created_holds = "
              "holdsCreated of the model for all inputs; daysSince1970 is structural, no fuel). What remains unproved there: that CPython's "
              "datetime is this calendar (observed), e < 0 and e > 253402300799 (outside the model). The clock is faked in-process for the emitter stream and real (interpreters "
              "seconds apart, SOURCE_DATE_EPOCH=0 and other values) in the digest stream. `closest`: the equality of defcon's Component.bounds and "
              "fontTools' BoundsPen with the exact corners is a predicate-only observation (external library behaviour), the argmin is modelled "
              "and proved.")
