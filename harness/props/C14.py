"""C14 - filters touch only what they are asked to and report what they changed."""
import math
from types import SimpleNamespace

from ufo import build, err_kind, rat
import lib_C14 as L
import lib_C14run as PR
import lib_C14special as SP

ID = "C14"
THEOREM = ("Ufo2ft.C14.C14_report / C14_footprint / C14_holds / C14_exclusive / C14_stateless / C14_skipExport_empty / "
           "C14_ifootprint / C14_ireport / C14_iholds / C14_istateless / C14_run_report / C14_run_refresh / "
           "C14_run_footprint / C14_run_route / C14_run_holds / dc_footprint / dc_report / dc_holds / dc_source_glyphs / "
           "dottedCircle_writes_source / ex_footprint / ex_holds_footprint / ex_reported_unchanged / explode_underreports / "
           "explode_writes_source / explode_adds / c2q_holds / c2q_stateless / c2q_again / c2q_converted_noop / c2q_remembered / "
           "C14_entry_given / C14_entry_holds / C14_entry_empty / C14_entry_empty_holds")
PROOF_FILES = ["C14", "C14Run", "C14Special", "C14Cu2qu", "C14Entry"]
N = {"quick": 700, "thorough": 14000}
RULE = ("every shipped filter class: decomposeComponents, decomposeTransformedComponents, flattenComponents, propagateAnchors, "
        "transformations, reverseContourDirection, sortContours, skipExportGlyphs (modelled in full, glyph content compared "
        "exactly), removeOverlaps (both back-ends), cubicToQuadratic (modelled up to the outline operation), dottedCircle "
        "(modelled in full up to the drawn outline; x options margin/sidebearing/dots x U+25CC encoded or not, encoded without "
        "outline, encoded in the font but dropped from the glyph set, an unencoded glyph named uni25CC, base/mark anchor pairs, "
        "zero-extent glyphs, a mark anchor of a mark anchor (StatisticsError), GDEF table with / without base class / already "
        "listing the glyph / canonical text / other features only, lib categories present or not), explodeColorLayerGlyphs "
        "(modelled in full; 1-2 color layers whose glyphs have components inside the layer, missing bases, cycles, code "
        "points, copies equal to the default glyph; font-level and glyph-level mappings, mapping to a missing layer / the "
        "default layer / empty; colorLayers already present; a glyph named like a layer glyph), both compared exactly: glyph "
        "set the filter worked on (read from filter.context.glyphSet), returned set, and the SOURCE font afterwards "
        "(default-layer glyphs, lib categories, GDEF base classes and whether the feature text changed; all layers' glyphs "
        "with code points, lib colorLayers; tags 'S:*'); and the five interpolatable variants on 2-3 zipped masters (same "
        "structure / sparse / structurally different) x include specs (none, name list, exclude list, 5 callables, both => "
        "ValueError for every class) x random fonts (1-13 glyphs, nested components depth<=4 with mirrored/sheared/singular "
        "matrices on a dyadic grid, mixed glyphs, open contours, off-curve starts, anchors incl. mark anchors, numbered "
        "anchors and duplicates, mark categories, ligature-mark names, missing bases, component cycles, shared bases that "
        "make getMaxComponentDepth under-count) x ufoLib2/defcon x separate glyph set (_GlyphSet copy or independent dict) "
        "or in-place x sequences of 1-3 invocations of ONE filter object on different fonts, each also run on a new object. "
        "Observed: every glyph of the glyph set(s) before/after, the returned set, a snapshot of the whole source font (all "
        "layers, lib, features, kerning, groups) before/after. non-trivial = an invocation that changed a glyph while some "
        "glyph of the set was not changed, or a reused object's 2nd/3rd invocation that changed a glyph. Tags 'br:*' count "
        "the branches of the modelled code reached. "
        "PRE-PROCESSOR LEVEL (op 'prun', n/4 further cases + harness/corpus/C14.jsonl, tags 'P:*'): "
        "BaseInterpolatablePreProcessor(ufos, inplace, filters=[shared objects, ...], instantiator).process() on a "
        "designspace of 1-4 masters (master 0 complete; later masters shifted copies, the LAST one sparse with p=0.6 - with an "
        "instantiator it may lack the bases of its composites -, differing widths / anchors / structure) x 1-3 filter steps: "
        "one object shared by all masters (a class without interpolatable variant: transformations / reverseContourDirection / "
        "sortContours; a convertible class; a BaseIFilter object) or filters declared in the UFOs' libs (8 classes, holes = only "
        "some UFOs declare it, differing options, differing include lists; include lists biased to glyphs absent from the last "
        "master, identity transformation in the last UFO) x pre/post x with (65%) / without a real Instantiator x inplace or "
        "copies x ufoLib2/defcon; 6%: anchors propagated through a mixed intermediate glyph as the first step. A pass-through "
        "wrapper around pre._run records per step: the filters it was given, all glyph sets before/after, the reported set, "
        "whether the instantiator was refreshed (a sentinel entry of instantiator.glyph_mutators is cleared by "
        "replace_source_layers); after process(): a snapshot diff of every source font, and what every master's "
        "InterpolatedLayer returns for every glyph name before and after a forced refresh. Every step is modelled from the "
        "OBSERVED state before it. non-trivial = some step changed a glyph; 'P:last-master-unchanged' counts the steps where "
        "the union over the masters matters (about 25% of the cases). "
        "HISTORIES ON ONE SOURCE FONT (n/16 further cases, tags 'c2q:*', 'again'): CubicToQuadraticFilter x rememberCurveType "
        "(75% on) x font.lib / default-layer lib saying cubic / quadratic / an unknown type / nothing x glyph set = _GlyphSet "
        "copy (has a lib of its own) / plain dict of independent copies (no lib; weight 2) / in place x 1-3 fonts per object; "
        "in 70% of the separate-glyph-set cases the SAME object is run a second time on the SAME source font with new "
        "copies of its glyphs ('again'), the reused and the new object alike. Observed in addition: the glyph set's own lib "
        "entry afterwards, the outcome of the second run; the source snapshot covers font.lib and every layer's lib. "
        "non-trivial there = a run that changed a glyph and was repeated.")
ASSUMED = [
    "glyph-set keys equal glyph names (what _GlyphSet.from_layer builds)",
    "booleanOperations/pathops union, cu2qu, fontTools BoundsPen and math.tan are external: parameters/inputs of the model",
    "double arithmetic is exact on the generators' dyadic grids (an 'inexact' stream with slant / non-dyadic scales is "
    "compared with tolerance 1e-6)",
    "the iteration order of the Python set of all glyph names in BaseIFilter.__call__ is an input of the model "
    "(the theorems hold for every order)",
    "interpolatable variants are modelled with instantiator=None; a step of the pre-processor that runs ONE interpolatable "
    "filter WITH an instantiator is not modelled: report / refresh / footprint / source / view are evaluated on its observation only",
    "pre-processor level: every filter call of the model is made on a new object (C14_stateless / C14_istateless: the state of "
    "a filter object never shows); equality of two filters' `options` is the equality of a canonical text built by the "
    "harness from the constructor arguments with the class defaults filled in; the iteration order of the name set of "
    "BaseIFilter.__call__ is an input (as above); which filter object belongs to which declaration is read from "
    "pre.preFilters / pre.postFilters",
    "the instantiator itself (fontMath / varLib interpolation) is external: 'view' compares two observations of it",
    "DottedCircleFilter: the outline and advance of the drawn circle (math.cos/sin, pens, _setGlyphMargin) are an input, "
    "obtained by calling draw_dotted_circle on a scratch font with the same font info; the glyphs' bounding boxes "
    "(glyph.getBounds) are inputs; the feature file is seen through feaLib's parser as the base classes of the "
    "GlyphClassDef statements of its GDEF blocks, 'asFea() reproduces the text' is an input; anchor positions are exact "
    "rationals in the model, doubles in the code: a difference of 1 is accepted only where the model flags a rounding tie "
    "of otRound; ufoLib2 only (glyph truthiness = number of contours, Glyph.__eq__ = content + code points + lib)",
    "ExplodeColorLayerGlyphsFilter: glyph libs carry nothing but the color layer mapping (Glyph.__eq__ compares the lib)",
    "CubicToQuadraticFilter.__call__: the curve-type entries of font.lib and of the glyph set's lib (absent lib = throw-away "
    "dict) are inputs of the model, read from the real objects before the call; cu2qu itself is external",
    "'again' (second run on the same source font with new copies) is a predicate on observations (Spec.holdsAgain); of the "
    "model it is the theorem c2q_again, for the other classes C14_stateless - the model has no access to the font",
    "C14_source (the font is only read) holds of the model by construction (the model has no write access to the font); "
    "it is checked on the implementation by observation only",
]

# entry for known_findings.json (that file is not edited by the builder of this check)
PROPOSED_KNOWN_FINDING = {
    "id": "C14-ipropagate-instantiator-source", "property": "C14", "kind": "known",
    "shape": {"filter": "I:propagate+instantiator", "shape": "anchors-appended-to-source-font-glyph-before-first-refresh"},
    "what": "PropagateAnchorsIFilter run by the interpolatable pre-processor with an instantiator and inplace=False resolves "
            "component bases through the instantiator's InterpolatedLayers, which are the SOURCE fonts' layers until the first "
            "refresh: anchors propagated to an intermediate base glyph that has contours of its own are appended to the source "
            "font's glyph (the working copy of that glyph gets none); reporting, refresh and glyph-set footprint hold",
}

TRANSPARENT = {
    "decompose": "DecomposeComponentsFilter",
    "decomposeTransformed": "DecomposeTransformedComponentsFilter",
    "flatten": "FlattenComponentsFilter",
    "propagate": "PropagateAnchorsFilter",
    "transform": "TransformationsFilter",
    "reverse": "ReverseContourDirectionFilter",
    "sort": "SortContoursFilter",
    "skipExport": "SkipExportGlyphsFilter",
}
OPAQUE = {"removeOverlaps": "RemoveOverlapsFilter", "cubicToQuadratic": "CubicToQuadraticFilter"}
DECLARED = {"dottedCircle": "DottedCircleFilter", "explodeColorLayers": "ExplodeColorLayerGlyphsFilter"}
ALLF = {**TRANSPARENT, **OPAQUE, **DECLARED}

EXACT_T = [
    {"OffsetX": 10, "OffsetY": 0}, {"OffsetX": 0, "OffsetY": -20.5}, {"OffsetX": 3, "OffsetY": 7, "ScaleX": 50},
    {"ScaleX": 50, "ScaleY": 50}, {"ScaleX": 200, "ScaleY": 100}, {"ScaleX": -100}, {"ScaleY": 25, "Origin": 0},
    {"ScaleX": 50, "ScaleY": 200, "Origin": 1}, {"ScaleX": 400, "Origin": 2, "OffsetY": 5}, {"ScaleY": 50, "Origin": 3},
    {"ScaleX": -100, "ScaleY": -100, "OffsetX": 100},
]
INEXACT_T = [{"Slant": 12}, {"ScaleX": 125}, {"ScaleX": 80, "ScaleY": 110, "Slant": -7.5, "Origin": 1}, {"Slant": 20, "OffsetX": 5}]


# ------------------------------------------------------------------------------------------------ generation

def _gen_transparent(rng, mode, fname):
    nfonts = rng.choice([1, 1, 2, 3])
    exact = True
    cyc = False
    opts = {}
    if fname == "transform":
        r = rng.random()
        if r < 0.08:
            opts = {}                                   # identity: nothing to do
        elif r < 0.13:
            opts = {"ScaleX": 0}                        # singular: ZeroDivisionError
        elif r < 0.3:
            opts = dict(rng.choice(INEXACT_T)); exact = False
        else:
            opts = dict(rng.choice(EXACT_T))
    fonts = []
    for _ in range(nfonts):
        if fname == "propagate":
            fd = L.ligature_mark_font(rng) if rng.random() < 0.3 else L.gen_font(rng, "anchors")
        elif fname in ("reverse", "sort"):
            fd = L.gen_font(rng, "mixed", pcomp=0.3)
        else:
            fd = L.gen_font(rng, rng.choice(["mixed", "plain"]))
        r = rng.random()
        p_bad = 0.12 if mode == "search" else 0.05
        if r < p_bad:
            L.inject_missing(rng, fd)
        elif r < 2 * p_bad:
            L.inject_cycle(rng, fd); cyc = True
        fonts.append(fd)
    names = [g["name"] for fd in fonts for g in fd["glyphs"]]
    names = list(dict.fromkeys(names))
    if fname == "skipExport":
        r = rng.random()
        if r < 0.06:
            opts = {"skip": []}
        else:
            pool = names + ["zzz"]
            # prefer glyphs that are used as components
            used = [b for fd in fonts for g in fd["glyphs"] for b, _ in g["components"]]
            k = rng.randrange(1, min(4, len(pool)) + 1)
            skip = rng.sample(pool, k)
            if used and rng.random() < 0.7:
                skip[0] = rng.choice(used)
            opts = {"skip": list(dict.fromkeys(skip))}
    inc = L.gen_include(rng, names)
    if mode == "search" and rng.random() < 0.5:
        # adversarial: include exactly one composite / exclude exactly one base
        comps = [g["name"] for fd in fonts for g in fd["glyphs"] if g["components"]]
        if comps:
            inc = {"kind": "names", "l": [rng.choice(comps)]}
    sep = rng.choice(["copy", "dict", "inplace"]) if fname != "skipExport" else rng.choice(["copy", "dict"])
    return {"kind": "seq", "filter": fname, "opts": opts, "inc": inc, "fonts": fonts,
            # (defcon's notification system recurses without bound while BUILDING a cyclic font)
            "ulib": "ufoLib2" if cyc else rng.choice(["ufoLib2", "ufoLib2", "defcon"]), "gsmode": sep, "exact": exact}


def _gen_opaque(rng, mode, fname):
    nfonts = rng.choice([1, 2, 3])
    fonts = []
    for _ in range(nfonts):
        fonts.append(L.rect_font(rng) if fname == "removeOverlaps" else L.gen_font(rng, "plain", kinds=("line", "curve"), pcomp=0.3))
    names = list(dict.fromkeys(g["name"] for fd in fonts for g in fd["glyphs"]))
    opts = {}
    if fname == "removeOverlaps":
        opts = {"backend": rng.choice(["booleanOperations", "pathops"])}
    else:
        opts = {"reverseDirection": rng.random() < 0.5}
    return {"kind": "seq", "filter": fname, "opts": opts, "inc": L.gen_include(rng, names), "fonts": fonts,
            "ulib": rng.choice(["ufoLib2", "defcon"]), "gsmode": rng.choice(["copy", "dict", "inplace"]), "exact": True}


C2Q_KEY = "com.github.googlei18n.cu2qu.curve_type"
EMPTY_LAYER = "C14.sparse"


def _gen_c2q(rng, mode):
    """CubicToQuadraticFilter x rememberCurveType x what the font lib / the default layer's lib say about the curve
    type x the kind of glyph set (a _GlyphSet copy has a lib of its own, a plain dict has none, None = in place)
    x 'again': the same object run a second time on the SAME source font with new copies of its glyphs"""
    case = _gen_opaque(rng, mode, "cubicToQuadratic")
    case["opts"]["rememberCurveType"] = rng.random() < 0.75
    case["gsmode"] = rng.choice(["copy", "dict", "dict", "inplace"])
    case["again"] = case["gsmode"] != "inplace" and rng.random() < 0.7
    for fd in case["fonts"]:
        for where in ("lib", "layerlib"):
            r = rng.random()
            lib = fd.setdefault(where, {})
            if r < 0.08:
                lib[C2Q_KEY] = "cubic"
            elif r < 0.18:
                lib[C2Q_KEY] = "quadratic"
            elif r < 0.23:
                lib[C2Q_KEY] = "conic"                 # NotImplementedError
    return case


def _gen_emptygs(rng, mode):
    """a SEPARATE glyph set that has no glyphs in it (what is left of a sparse layer after pruning, an empty brace
    layer handed to a pre-processor with inplace=False, a caller passing {}): 'emptycopy' = _GlyphSet.from_layer(font,
    <empty layer>, copy=True), 'emptydict' = {}.  One filter object over 1-3 fonts, each step with its own kind of glyph
    set (at least one empty, the others ordinary copies), so that empty-then-full and full-then-empty histories occur."""
    fname = rng.choice([f for f in TRANSPARENT for _ in range(3)] + list(OPAQUE))
    case = _gen_transparent(rng, mode, fname) if fname in TRANSPARENT else _gen_opaque(rng, mode, fname)
    case["gsmode"] = "copy"
    k = rng.randrange(len(case["fonts"]))
    for i, fd in enumerate(case["fonts"]):
        if i == k or rng.random() < 0.4:
            fd["gsmode"] = rng.choice(["emptycopy", "emptydict"])
        else:
            fd["gsmode"] = rng.choice(["copy", "dict"])
    case["emptygs"] = True
    return case


DC_OPTS = [{}, {}, {"margin": 40}, {"sidebearing": 100, "dots": 4}, {"dots": 1}, {"margin": 120, "sidebearing": 0}]
CLM_KEY = "com.github.googlei18n.ufo2ft.colorLayerMapping"
CL_KEY = "com.github.googlei18n.ufo2ft.colorLayers"


def _gen_dotted(rng, mode, fd, case):
    gl = fd["glyphs"]
    names = [g["name"] for g in gl]
    r = rng.random()
    enc = None
    if r < 0.55:
        enc = rng.choice(gl); enc["unicodes"] = [0x25CC]
        if rng.random() < 0.35:
            enc["contours"] = []                       # encoded, but no outline: a new glyph is drawn
        if rng.random() < 0.3:
            enc["anchors"] = []
    if rng.random() < 0.1 and "uni25CC" not in names:
        # an unencoded glyph that has the name of the glyph that would be drawn
        gl.append({"name": "uni25CC", "width": 300, "unicodes": [], "contours": [[[0, 0, "line"], [8, 0, "line"], [8, 8, "line"]]],
                   "components": [], "anchors": [["top", 4, 8]] if rng.random() < 0.5 else []})
    # make sure some base anchors have a mark counterpart (else nothing is ever added)
    bases = [g for g in gl if g is not enc and not any(a[0].startswith("_") for a in g["anchors"])]
    marks = [g for g in gl if any(a[0].startswith("_") for a in g["anchors"])]
    if rng.random() < 0.7:
        nm = rng.choice(["top", "bottom", "ogonek"])
        if bases and not any(a[0] == nm for g in bases for a in g["anchors"]):
            rng.choice(bases)["anchors"].append([nm, G_coord(rng), G_coord(rng)])
        if not any(a[0] == "_" + nm for g in gl for a in g["anchors"]):
            rng.choice(marks or gl)["anchors"].append(["_" + nm, G_coord(rng), G_coord(rng)])
    if rng.random() < 0.04:
        # a mark anchor of a mark anchor: mean([]) -> StatisticsError
        rng.choice(gl)["anchors"].append(["__top", 1, 2])
        rng.choice(gl)["anchors"].append(["_top", 3, 4])
    if rng.random() < 0.25:
        g = rng.choice(gl); g["width"] = 0            # no bounds, no width: its base anchors are skipped
        if rng.random() < 0.5:
            g["contours"] = []; g["components"] = []
    r = rng.random()
    first = gl[0]["name"]
    if r < 0.15:
        fd["features"] = "table GDEF { GlyphClassDef [%s], , , ; } GDEF;" % first
    elif r < 0.27:
        fd["features"] = "table GDEF {\n    GlyphClassDef [%s], , , ;\n} GDEF;\n" % " ".join(names[:2])    # canonical text
    elif r < 0.34:
        fd["features"] = "table GDEF { GlyphClassDef , [%s], , ; } GDEF;" % first                           # no base class
    elif r < 0.42 and enc is not None:
        fd["features"] = "table GDEF { GlyphClassDef [%s %s], , , ; } GDEF;" % (first, enc["name"])         # already a base
    elif r < 0.47:
        fd["features"] = "languagesystem DFLT dflt;\nfeature liga { sub %s by %s; } liga;" % (first, first)  # no GDEF
    cats = fd["lib"].get("public.openTypeCategories")
    if cats is None and rng.random() < 0.5:
        cats = fd["lib"]["public.openTypeCategories"] = {n: "base" for n in names if rng.random() < 0.3}
    if cats is not None and enc is not None and rng.random() < 0.3:
        cats[enc["name"]] = rng.choice(["base", "mark"])
    if enc is not None and rng.random() < 0.15:
        case["gsmode"] = "dict"; case["drop"] = [enc["name"]]       # encoded in the font, missing from the glyph set


def G_coord(rng):
    import gen as G
    return G.coord(rng, 1, 300, 0.2)


def _gen_explode(rng, mode, fd, case):
    import copy
    gl = fd["glyphs"]
    names = [g["name"] for g in gl]
    layers = {}
    for g in gl:
        if rng.random() < 0.3 and not g["unicodes"]:
            g["unicodes"] = [0xE000 + names.index(g["name"])]
    lnames = rng.sample(["color1", "color2"], rng.choice([1, 2]))
    for ln in lnames:
        lay = []
        for g in gl:
            r = rng.random()
            if r < 0.5:
                lg = {"name": g["name"], "width": g["width"], "unicodes": list(g["unicodes"]) if rng.random() < 0.5 else [],
                      "contours": g["contours"][:1], "components": [], "anchors": []}
            elif r < 0.6:
                lg = copy.deepcopy(g)                        # equal to the default-layer glyph: reported under its own name
            else:
                continue
            lay.append(lg)
        # components inside the layer: to layer glyphs, sometimes to a glyph the layer lacks, rarely a cycle
        have = [g["name"] for g in lay]
        for k, lg in enumerate(lay):
            if k > 0 and rng.random() < 0.3:
                lg["components"] = [[rng.choice(have[:k]), [1, 0, 0, 1, rng.choice([0, 8, -16]), 0]]
                                    for _ in range(rng.choice([1, 1, 2]))]
        if lay and rng.random() < 0.06:
            rng.choice(lay)["components"].append(["zzz", [1, 0, 0, 1, 0, 0]])
        if len(lay) > 1 and rng.random() < 0.04:
            lay[0]["components"].append([lay[-1]["name"], [1, 0, 0, 1, 0, 0]])
            lay[-1]["components"].append([lay[0]["name"], [1, 0, 0, 1, 0, 0]])
        layers[ln] = lay
    fd["layers"] = layers
    r = rng.random()
    if r < 0.65:
        fd["lib"][CLM_KEY] = [[ln, i] for i, ln in enumerate(sorted(layers))]
    elif r < 0.7:
        fd["lib"][CLM_KEY] = [["nolayer", 0]]                # `font.layers[...]` KeyError
    elif r < 0.75:
        fd["lib"][CLM_KEY] = [["public.default", 1]] + [[ln, 0] for ln in lnames[:1]]
    for g in gl:
        if rng.random() < 0.15:
            g.setdefault("lib", {})[CLM_KEY] = rng.choice([[[lnames[0], 3]], [], [[ln, 7] for ln in reversed(lnames)]])
    if rng.random() < 0.12:
        fd["lib"][CL_KEY] = {}
    if rng.random() < 0.06:
        # a glyph that already has the name of a color layer glyph: InvalidFontData
        nm = rng.choice(names) + "." + lnames[0]
        gl.append({"name": nm, "width": 100, "unicodes": [], "contours": [], "components": [], "anchors": []})


def _gen_declared(rng, mode, fname):
    case = {"kind": "seq", "filter": fname, "opts": {}, "ulib": "ufoLib2", "gsmode": rng.choice(["copy", "inplace"]), "exact": True}
    fonts = []
    for _ in range(rng.choice([1, 1, 2])):
        fd = L.gen_font(rng, "anchors", kinds=("line",), pcomp=0.3)
        if fname == "dottedCircle":
            _gen_dotted(rng, mode, fd, case)
        else:
            _gen_explode(rng, mode, fd, case)
        fonts.append(fd)
    if fname == "dottedCircle":
        case["opts"] = dict(rng.choice(DC_OPTS))
    names = list(dict.fromkeys(g["name"] for fd in fonts for g in fd["glyphs"]))
    case["inc"] = {"kind": "none"} if fname == "dottedCircle" else L.gen_include(rng, names)
    case["fonts"] = fonts
    return case


IFILTERS = {
    "decompose": "DecomposeComponentsIFilter",
    "decomposeTransformed": "DecomposeTransformedComponentsIFilter",
    "flatten": "FlattenComponentsIFilter",
    "propagate": "PropagateAnchorsIFilter",
    "skipExport": "SkipExportGlyphsIFilter",
}


def _masters(rng, fname, mode):
    """2-3 masters: same structure with shifted coordinates; sometimes sparse; sometimes structurally different"""
    import copy
    if fname == "propagate":
        base = L.ligature_mark_font(rng) if rng.random() < 0.3 else L.gen_font(rng, "anchors")
    else:
        base = L.gen_font(rng, rng.choice(["mixed", "plain"]))
    out = [base]
    p_struct = 0.35 if mode == "search" else 0.15
    if fname == "flatten":
        p_struct = 0.45
    for mi in range(rng.choice([1, 1, 2])):
        fd = copy.deepcopy(base)
        d = rng.choice([8, 16, -24, 40.5])
        for g in fd["glyphs"]:
            for c in g["contours"]:
                for pt in c:
                    pt[0] += d
            for a in g["anchors"]:
                a[1] += d; a[2] -= d
            for comp in g["components"]:
                comp[1][4] += d
            g["width"] += abs(d) if g["width"] else 0
        if rng.random() < 0.25:
            # sparse master: drop glyphs nobody references in this master
            used = {b for g in fd["glyphs"] for b, _ in g["components"]}
            fd["glyphs"] = [g for g in fd["glyphs"] if g["name"] in used or rng.random() < 0.6] or fd["glyphs"][:1]
        if rng.random() < 0.5:
            # make a callable include disagree between masters: width across the 'wide' threshold, anchors dropped
            g = rng.choice(fd["glyphs"])
            if rng.random() < 0.6:
                g["width"] = 250 if g["width"] >= 500 else 750
            else:
                g["anchors"] = [] if g["anchors"] else [["top", 10, 10]]
        if rng.random() < p_struct:
            comps = [g for g in fd["glyphs"] if g["components"]]
            if comps:
                g = rng.choice(comps)
                r = rng.random()
                names = [x["name"] for x in fd["glyphs"]]
                leaves = [x["name"] for x in fd["glyphs"] if not x["components"]]
                if r < 0.3:
                    g["components"] = []; g["contours"] = [[[0, 0, "line"], [10, 0, "line"], [10, 10, "line"]]]
                elif r < 0.6:
                    g["components"][0][1][0:4] = [-1, 0, 0, 1]
                elif leaves:
                    g["components"][0][0] = rng.choice(leaves)
        out.append(fd)
    if fname == "flatten" and rng.random() < 0.6:
        # masters of different nesting: in the LAST master a glyph that nests elsewhere references a leaf directly,
        # so that the per-master "flattened" flags differ (the defect repaired by 90a86ee lived here)
        fd = out[-1]
        byname = {g["name"]: g for g in fd["glyphs"]}
        nesting = [g for g in fd["glyphs"] if g["components"] and not g["contours"] and any(
            b in byname and byname[b]["components"] and not byname[b]["contours"] for b, _ in g["components"])]
        leaves = [g["name"] for g in fd["glyphs"] if not g["components"]]
        if nesting and leaves:
            g = rng.choice(nesting)
            g["components"] = [[rng.choice(leaves), c[1]] for c in g["components"]]
    return out


def _gen_interpolatable(rng, mode):
    fname = rng.choice(sorted(IFILTERS))
    calls = [_masters(rng, fname, mode) for _ in range(rng.choice([1, 1, 2]))]
    names = list(dict.fromkeys(g["name"] for ms in calls for fd in ms for g in fd["glyphs"]))
    opts = {}
    if fname == "skipExport":
        if rng.random() < 0.05:
            opts = {"skip": []}
        else:
            used = [b for ms in calls for fd in ms for g in fd["glyphs"] for b, _ in g["components"]]
            skip = rng.sample(names + ["zzz"], rng.randrange(1, min(4, len(names) + 1) + 1))
            if used and rng.random() < 0.7:
                skip[0] = rng.choice(used)
            opts = {"skip": list(dict.fromkeys(skip))}
    inc = L.gen_include(rng, names)
    if rng.random() < 0.3:
        inc = {"kind": "pred", "p": rng.choice(["wide", "hasAnchors", "hasComponents", "hasContours"])}
    return {"kind": "iseq", "filter": fname, "opts": opts, "inc": inc, "calls": calls,
            "ulib": rng.choice(["ufoLib2", "ufoLib2", "defcon"]),
            "gsmode": rng.choice(["copy", "copy", "inplace"]) if fname != "skipExport" else "copy", "exact": True}


def gen(rng, n, mode):
    names = L.NAMES[:8]
    # include / exclude handling of BaseFilter.__init__ for every class
    for fname in sorted(ALLF):
        for combo in range(4):
            inc = rng.sample(names + ["zzz"], rng.randrange(0, 5)) if combo & 1 else None
            exc = rng.sample(names + ["zzz"], rng.randrange(0, 5)) if combo & 2 else None
            yield {"kind": "init", "filter": fname, "include": inc, "exclude": exc, "probe": names + ["zzz"]}
    weights = [(f, 10) for f in TRANSPARENT] + [(f, 3) for f in OPAQUE] + [(f, 4) for f in DECLARED]
    bag = [f for f, w in weights for _ in range(w)]
    for _ in range(n):
        if rng.random() < 0.22:
            yield _gen_interpolatable(rng, mode)
            continue
        fname = rng.choice(bag)
        if fname in TRANSPARENT:
            yield _gen_transparent(rng, mode, fname)
        elif fname in OPAQUE:
            yield _gen_opaque(rng, mode, fname)
        else:
            yield _gen_declared(rng, mode, fname)
    # pre-processor level (BaseInterpolatablePreProcessor.process / _run); drawn AFTER the streams above so that
    # their cases do not depend on this one
    import random
    sub = random.Random(rng.getrandbits(64))
    for _ in range(max(8, n // 4)):
        yield PR.gen_case(sub, mode)
    # CubicToQuadraticFilter(rememberCurveType=...) on one source font, twice (drawn last: the streams above are unchanged)
    sub2 = random.Random(rng.getrandbits(64))
    for _ in range(max(12, n // 16)):
        yield _gen_c2q(sub2, mode)
    # a separate glyph set WITHOUT glyphs (drawn last: the streams above are unchanged)
    sub3 = random.Random(rng.getrandbits(64))
    for _ in range(max(16, n // 14)):
        yield _gen_emptygs(sub3, mode)


# ------------------------------------------------------------------------------------------------ running

def _guard():
    """a mutated implementation may loop or blow up (e.g. cyclic components reaching a decomposing pen):
    bound each worker's address space and each filter call's time; both surface as an observed error kind"""
    import multiprocessing, resource, signal
    try:
        if multiprocessing.current_process().name == "MainProcess":
            raise OSError      # replay / shrinking run in the main process, whose children (the Lean driver) must stay unlimited
        soft, hard = resource.getrlimit(resource.RLIMIT_AS)
        lim = 3 << 30
        if soft == resource.RLIM_INFINITY or soft > lim:
            resource.setrlimit(resource.RLIMIT_AS, (lim, hard))
    except (ValueError, OSError):
        pass

    def _alarm(signum, frame):
        raise TimeoutError("filter call exceeded its time budget")
    signal.signal(signal.SIGALRM, _alarm)


def _timed(f, *a):
    import signal
    signal.alarm(15)
    try:
        return f(*a)
    finally:
        signal.alarm(0)


RESOURCE_ERRS = ("TimeoutError", "MemoryError")


def _inconclusive(calls, fresh):
    """an invocation that ran out of the time / memory budget of the harness says nothing about the property:
    both runs of that input are recorded as the same resource error (never a statelessness failure)"""
    for i, (a, b) in enumerate(zip(calls, fresh)):
        if a["err"] in RESOURCE_ERRS or b["err"] in RESOURCE_ERRS:
            e = a["err"] if a["err"] in RESOURCE_ERRS else b["err"]
            calls[i] = {"err": e, "src": []}
            fresh[i] = {"err": e, "src": []}


def _ctor(case):
    import ufo2ft.filters as F
    cls = getattr(F, ALLF[case["filter"]])
    args, kwargs = [], {}
    o = case.get("opts", {})
    if case["filter"] == "skipExport":
        args = [list(o["skip"])]
    elif case["filter"] in ("transform", "removeOverlaps", "cubicToQuadratic", "dottedCircle"):
        kwargs = dict(o)
    return cls, args, kwargs


def _invoke_raw(filt, fd, case):
    """run one invocation; returns (observed outcome, model input for this font)"""
    import json
    from ufo2ft.util import _GlyphSet
    fd = json.loads(json.dumps(fd))        # build() hands nested lib dicts to the font: never share them between runs
    font = build(fd, case["ulib"])
    for k, v in fd.get("layerlib", {}).items():
        font.layers.defaultLayer.lib[k] = v
    mode = fd.get("gsmode", case["gsmode"])          # a step of the 'emptygs' stream names its own kind of glyph set
    if mode == "emptycopy":
        font.newLayer(EMPTY_LAYER)                  # part of the source font: created before the first snapshot

    keep = []           # (defcon glyphs reach their font through a weak reference: keep the fonts of the copies alive)

    def copies():
        if mode == "copy":
            return _GlyphSet.from_layer(font, copy=True)
        if mode == "emptycopy":
            return _GlyphSet.from_layer(font, EMPTY_LAYER, copy=True)
        if mode == "emptydict":
            return {}
        if mode == "dict":
            other = build(json.loads(json.dumps(fd)), case["ulib"])
            keep.append(other)
            return {g.name: g for g in other if g.name not in case.get("drop", ())}
        return None
    gs = copies()
    c2q = None
    if "rememberCurveType" in case.get("opts", {}):
        # what CubicToQuadraticFilter.__call__ reads besides the glyphs: inputs of the model
        c2q = {"remember": bool(case["opts"]["rememberCurveType"]), "font": str(font.lib.get(C2Q_KEY, "cubic")),
               "layer": str(getattr(gs, "lib", {}).get(C2Q_KEY, "cubic"))}
    view = gs if gs is not None else {g.name: g for g in font.layers.defaultLayer}
    before = L.snap_glyphset(view)
    src0 = L.snap_font(font)
    sp_in, text0 = None, font.features.text or ""
    if case["filter"] == "dottedCircle":
        sp_in = SP.dc_before(font, fd, case, case.get("opts", {}), view)
    elif case["filter"] == "explodeColorLayers":
        sp_in = SP.ex_before(font, view)
    err, modified = None, None
    ctx0 = getattr(filt, "context", None)
    try:
        if filt is None:
            raise MemoryError
        modified = _timed(filt, font, gs)
        modified = sorted(str(x) for x in modified)
    except Exception as e:
        err = type(e).__name__
    sp_obs = None
    if sp_in is not None and err is None:
        sp_obs = SP.dc_after(font, filt, text0) if sp_in["kind"] == "dc" else SP.ex_after(font, filt)
    after, src = None, []
    try:
        if gs is None:
            dl = font.layers.defaultLayer
            if err is None:
                after = [[g.name, L.snap_glyph(g)] for g in dl]
            ign = f"glyph:{dl.name}:"
            src = [k for k in L.diff_font(src0, L.snap_font(font)) if not k.startswith(ign) and k != f"layerkeys:{dl.name}"]
        else:
            if err is None:
                after = L.snap_glyphset(gs)
            src = L.diff_font(src0, L.snap_font(font))
    except (MemoryError, RecursionError, OverflowError, ValueError) as e:
        # a failed call of a broken implementation can leave glyphs too large to snapshot
        err = err or type(e).__name__
        src = []
    obs = {"err": err, "src": src}
    if gs is not None and sp_in is None and filt is not None:
        # which object the filter worked on: BaseFilter.__call__ stores it in self.context (None = no context was set)
        # a context that is the one of an earlier call says nothing about this one (early return / error before set_context)
        ctx = getattr(filt, "context", None)
        obs["onGiven"] = None if ctx is None or ctx is ctx0 or not hasattr(ctx, "glyphSet") else bool(ctx.glyphSet is gs)
    if err is None:
        obs["modified"] = modified
        obs["after"] = after
        if sp_obs is not None:
            obs["sp"] = sp_obs
        if c2q is not None:
            obs["gslib"] = str(gs.lib.get(C2Q_KEY, "cubic")) if hasattr(gs, "lib") else None
    if case.get("again") and gs is not None and filt is not None and err not in RESOURCE_ERRS:
        # the same object once more on the SAME source font, with new copies of its glyphs
        gs2 = copies()
        ag = {"err": None}
        try:
            ag["modified"] = sorted(str(x) for x in _timed(filt, font, gs2))
            ag["after"] = L.snap_glyphset(gs2)
        except Exception as e:
            ag = {"err": type(e).__name__}
        obs["again"] = ag
    cats = fd.get("lib", {}).get("public.openTypeCategories", {})
    fin = {"sp": sp_in, "c2q": c2q, "gs": before, "marks": sorted(k for k, v in cats.items() if v == "mark"),
           "bounds": L.bounds_oracle(before) if case["filter"] == "propagate" else [],
           "cap": rat(fd["info"].get("capHeight", 0)), "xh": rat(fd["info"].get("xHeight", 0))}
    return obs, fin


def _iinvoke_raw(filt, masters, case):
    import json
    from ufo2ft.util import _GlyphSet
    fonts = [build(json.loads(json.dumps(fd)), case["ulib"]) for fd in masters]
    if case["gsmode"] == "copy":
        gss = [_GlyphSet.from_layer(f, copy=True) for f in fonts]
        views = gss
    else:
        gss = None
        views = [{g.name: g for g in f.layers.defaultLayer} for f in fonts]
    before = [L.snap_glyphset(v) for v in views]
    order = list(set.union(*(set(v.keys()) for v in views)))      # what BaseIFilter.__call__ will iterate
    src0 = [L.snap_font(f) for f in fonts]
    err, modified = None, None
    try:
        if filt is None:
            raise MemoryError
        modified = sorted(str(x) for x in _timed(filt, fonts, gss))
    except Exception as e:
        err = type(e).__name__
    src, after = [], None
    try:
        if gss is None:
            if err is None:
                after = [[[g.name, L.snap_glyph(g)] for g in f.layers.defaultLayer] for f in fonts]
            for i, f in enumerate(fonts):
                dl = f.layers.defaultLayer
                src += [f"m{i}:{k}" for k in L.diff_font(src0[i], L.snap_font(f))
                        if not k.startswith(f"glyph:{dl.name}:") and k != f"layerkeys:{dl.name}"]
        else:
            if err is None:
                after = [L.snap_glyphset(gs) for gs in gss]
            for i, f in enumerate(fonts):
                src += [f"m{i}:{k}" for k in L.diff_font(src0[i], L.snap_font(f))]
    except (MemoryError, RecursionError, OverflowError, ValueError) as e:
        err = err or type(e).__name__
        src = []
    obs = {"err": err, "src": src}
    if err is None:
        obs["modified"] = modified
        obs["after"] = after
    cats = masters[0].get("lib", {}).get("public.openTypeCategories", {})
    fin = {"gss": before, "nameOrder": order, "marks": sorted(k for k, v in cats.items() if v == "mark"),
           "bounds": [L.bounds_oracle(b) if case["filter"] == "propagate" else [] for b in before]}
    return obs, fin


def _retrying(raw, filt, data, case):
    """a previous invocation of a broken implementation may have left the worker close to its memory limit:
    collect and retry once; if even the preparation fails, the case is inconclusive for this worker"""
    import gc
    for attempt in (0, 1):
        try:
            return raw(filt, data, case)
        except MemoryError:
            gc.collect()
    gc.collect()
    return raw(None, data, case)


def _invoke(filt, fd, case):
    return _retrying(_invoke_raw, filt, fd, case)


def _iinvoke(filt, masters, case):
    return _retrying(_iinvoke_raw, filt, masters, case)


def _run_iseq(case):
    import ufo2ft.filters as F
    cls = getattr(F, IFILTERS[case["filter"]])
    args = [list(case["opts"]["skip"])] if case["filter"] == "skipExport" else []

    def make():
        return cls(*args, **L.include_kwargs(case["inc"]))

    reused = make()
    calls, fresh, fins = [], [], []
    for masters in case["calls"]:
        o, fin = _iinvoke(reused, masters, case)
        calls.append(o); fins.append(fin)
        o2, _ = _iinvoke(make(), masters, case)
        fresh.append(o2)
    _inconclusive(calls, fresh)
    tags = ["I:" + case["filter"], "I", "inc:" + case["inc"]["kind"], case["ulib"], "gs:" + case["gsmode"],
            f"calls:{len(calls)}"]
    nontrivial = False
    for i, (fin, o) in enumerate(zip(fins, calls)):
        tags.append("err:" + str(o["err"]))
        tags.append(f"masters:{len(fin['gss'])}")
        if o["err"] is None:
            ch = set()
            for b, a in zip(fin["gss"], o["after"]):
                b, a = dict(b), dict(a)
                ch |= {k for k in set(a) | set(b) if a.get(k) != b.get(k)}
            if ch:
                tags.append("changed>0")
                if len(ch) < len(fin["nameOrder"]) or i > 0:
                    nontrivial = True
            if set(o["modified"]) - ch:
                tags.append("over-reported")
            if len({tuple(k for k, _ in b) for b in fin["gss"]}) > 1:
                tags.append("sparse")
        if o["src"]:
            tags.append("src-touched")
    return [{"op": "iseq",
             "in": {"filter": case["filter"], "opts": case["opts"], "inc": case["inc"],
                    "separate": case["gsmode"] != "inplace", "calls": fins, "impl": "I:" + case["filter"], "exact": True},
             "obs": {"calls": calls, "fresh": fresh}, "tags": tags, "nontrivial": nontrivial}]


def _run_prun(case):
    steps_in, steps_obs, src, src_detail, view, forced, outside = PR.run_case(case, _timed)
    nm = len(case["masters"])
    tags = ["prun", f"P:masters:{nm}", "P:inst" if case["inst"] else "P:noinst",
            "P:inplace" if case["inplace"] else "P:copy", case["ulib"], f"P:steps:{len(steps_obs)}"]
    if len({tuple(g["name"] for g in fd["glyphs"]) for fd in case["masters"]}) > 1:
        tags.append("P:sparse")
    if outside:
        tags.append("P:outside:" + outside)
    nontrivial = False
    for si, so in zip(steps_in, steps_obs):
        fl = si["filters"]
        present = [f for f in fl if f is not None]
        tags.append("P:" + "+".join(sorted({f["impl"] for f in present})) if len({f["impl"] for f in present}) == 1 else "P:mixed-classes")
        if any(f is None for f in fl):
            tags.append("P:holes")
        if any(f["isI"] for f in present):
            tags.append("P:ifilter-object")
        tags.append("P:err:" + str(so["err"]))
        if so["err"] is not None:
            continue
        ch = []
        for m, a in zip(si["masters"], so["after"]):
            b, a = dict(m["gs"]), dict(a)
            ch.append({k for k in set(a) | set(b) if a.get(k) != b.get(k)})
        allch = set().union(*ch) if ch else set()
        if allch:
            tags.append("P:changed>0")
            nontrivial = True
            if nm > 1 and not ch[-1]:
                tags.append("P:last-master-unchanged")         # the union over the masters matters
            if nm > 1 and any(c != ch[0] for c in ch[1:]):
                tags.append("P:masters-differ")
        if set(so["modified"]) - allch:
            tags.append("P:over-reported")
        if so["refreshed"]:
            tags.append("P:refreshed")
    if view is not None:
        tags.append("P:view")
        if any(g["a"] and g["a"][0][0].startswith("!") for row in view for _, g in row):
            tags.append("P:view-uninterpolatable")
    if src:
        tags.append("P:src-touched")
    return [{"op": "prun",
             "in": {"hasInst": bool(case["inst"]), "separate": not case["inplace"], "steps": steps_in, "impl": "prun",
                    "exact": True},
             "obs": {"steps": steps_obs, "src": src, "srcDetail": src_detail, "view": view, "forced": forced,
                     "outside": outside},
             "tags": list(dict.fromkeys(tags)), "nontrivial": nontrivial}]


def _declared_names(case, fd, fin):
    """names the two glyph-adding filters may touch, as the harness sees them (used by classify_failure only; the Lean
    footprint is Spec.dcTarget / Spec.exAllowedName)"""
    if case["filter"] == "dottedCircle":
        # the glyph encoded U+25CC, and 'uni25CC' which is drawn when there is none (or when the existing one
        # has no contours: `if not dotted_circle_glyph` tests the glyph's length)
        dc = [g["name"] for g in fd["glyphs"] if 0x25CC in g.get("unicodes", [])]
        return dc[:1] + ["uni25CC"]
    names = [g["name"] for g in fd["glyphs"]]
    return [f"{n}.{ln}" for n in names for ln in fd.get("layers", {})]


def run(case):
    import logging
    logging.disable(logging.CRITICAL)
    _guard()
    if case["kind"] == "init":
        import ufo2ft.filters as F
        cls = getattr(F, ALLF[case["filter"]])
        args = [["a"]] if case["filter"] == "skipExport" else []
        kw = {}
        if case["include"] is not None:
            kw["include"] = list(case["include"])
        if case["exclude"] is not None:
            kw["exclude"] = list(case["exclude"])
        try:
            f = cls(*args, **kw)
            obs = {"err": None, "res": [bool(f.include(SimpleNamespace(name=n))) for n in case["probe"]]}
        except Exception as e:
            obs = {"err": type(e).__name__}
        return [{"op": "init", "in": {"include": case["include"], "exclude": case["exclude"], "probe": case["probe"]},
                 "obs": obs, "nontrivial": case["include"] is not None or case["exclude"] is not None,
                 "tags": ["init", "init:" + case["filter"], "init-err:" + str(obs["err"])]}]
    if case["kind"] == "iseq":
        return _run_iseq(case)
    if case["kind"] == "prun":
        return _run_prun(case)
    cls, args, kwargs = _ctor(case)

    def make():
        return cls(*args, **kwargs, **L.include_kwargs(case["inc"]))

    reused = make()
    calls, fresh, fins = [], [], []
    for fd in case["fonts"]:
        o, fin = _invoke(reused, fd, case)
        calls.append(o); fins.append(fin)
        o2, _ = _invoke(make(), fd, case)
        fresh.append(o2)
    _inconclusive(calls, fresh)
    fname = case["filter"]
    lean_filter = fname if fname in TRANSPARENT else "opaque"
    opts = dict(case.get("opts", {}))
    inc = case["inc"]
    if fname == "transform":
        o = {"OffsetX": 0, "OffsetY": 0, "ScaleX": 100, "ScaleY": 100, "Slant": 0, "Origin": 4}
        o.update(opts)
        opts = {k: (v if k == "Origin" else rat(v)) for k, v in o.items()}
        opts["tanSlant"] = rat(math.tan(math.radians(o["Slant"]))) if o["Slant"] else "0"
    if fname in DECLARED:
        # no glyph-level model: the footprint is the declared name list, nothing is "included"
        lean_filter = "skipExport"
        declared = sorted(set(n for fd, fin in zip(case["fonts"], fins) for n in _declared_names(case, fd, fin)))
        opts = {"skip": declared}
        inc = {"kind": "names", "l": []}
    changed = []
    for fin, o in zip(fins, calls):
        if o["err"] is None:
            b, a = dict(fin["gs"]), dict(o["after"])
            changed.append(sorted(k for k in set(a) | set(b) if a.get(k) != b.get(k)))
        else:
            changed.append(None)
    tags = [fname, "inc:" + case["inc"]["kind"], case["ulib"], "gs:" + case["gsmode"], f"calls:{len(calls)}",
            "exact" if case["exact"] else "inexact"]
    for o, ch in zip(calls, changed):
        tags.append("err:" + str(o["err"]))
        if ch:
            tags.append("changed>0")
        if ch is not None and o["modified"] and set(o["modified"]) - set(ch):
            tags.append("over-reported")
        if o["src"]:
            tags.append("src-touched")
        if "again" in o:
            tags.append("again")
            if o["again"]["err"] is None and o["again"]["modified"]:
                tags.append("again:changed>0")
    for fd, fin, o in zip(case["fonts"], fins, calls):
        if "gsmode" in fd:
            tags.append("gs:" + fd["gsmode"])
            if fd["gsmode"].startswith("empty"):
                tags.append("E:empty-separate")
                if o.get("modified"):
                    tags.append("E:reported-on-empty")
        if o.get("onGiven") is not None:
            tags.append("onGiven:" + str(o["onGiven"]))
    for fin in fins:
        if fin.get("c2q"):
            tags.append("c2q:remember" if fin["c2q"]["remember"] else "c2q:plain")
            tags.append("c2q:font=%s,layer=%s" % (fin["c2q"]["font"], fin["c2q"]["layer"]))
    for fin, o in zip(fins, calls):
        tags += L.branch_tags(fname, case["inc"], opts, fin["gs"], o)
    tags = list(dict.fromkeys(tags))
    nontrivial = False
    for i, (fin, ch) in enumerate(zip(fins, changed)):
        if ch and (len(ch) < len(fin["gs"]) or i > 0):
            nontrivial = True
        if ch and "again" in calls[i]:
            nontrivial = True
    if any(fd.get("gsmode", "").startswith("empty") and fd["glyphs"] for fd in case["fonts"]):
        nontrivial = True      # an empty separate glyph set next to a source font that has glyphs
    req = {"op": "special" if fname in DECLARED else "seq",
           "in": {"filter": lean_filter, "opts": opts, "inc": inc, "separate": case["gsmode"] != "inplace",
                  "fonts": fins, "impl": fname, "exact": case["exact"], "realInc": case["inc"]},
           "obs": {"calls": calls, "fresh": fresh}, "tags": tags, "nontrivial": nontrivial}
    if fname in DECLARED:
        for fin, o in zip(fins, calls):
            req["tags"] += SP.tags(fin["sp"], o)
        req["tags"] = list(dict.fromkeys(req["tags"]))
        if any(t in req["tags"] for t in ("S:dc-drawn", "S:dc-anchors-added", "S:ex-added")):
            req["nontrivial"] = True
    return [req]


# ------------------------------------------------------------------------------------------------ comparison

def agree(req, rep):
    m, o = rep["model"], req["obs"]
    if req["op"] == "init":
        return m == {k: v for k, v in o.items()}
    impl = req["in"]["impl"]
    if req["op"] == "prun":
        return _agree_prun(req, m, o)
    if req["op"] == "iseq":
        if len(m["calls"]) != len(o["calls"]):
            return False
        for mc, oc in zip(m["calls"], o["calls"]):
            if oc["err"] in RESOURCE_ERRS:
                continue          # inconclusive (harness budget), see _inconclusive
            if mc["err"] != oc["err"]:
                return False
            if mc["err"] is not None:
                continue
            if mc["modified"] != oc["modified"]:
                return False
            if mc["after"] != oc["after"]:
                return False
        return True
    if impl in DECLARED:
        return SP.agree(impl, m, o)
    if len(m["calls"]) != len(o["calls"]):
        return False
    for mc, oc in zip(m["calls"], o["calls"]):
        if oc["err"] in RESOURCE_ERRS:
            continue              # inconclusive (harness budget), see _inconclusive
        if mc["err"] != oc["err"]:
            return False
        if mc["err"] is not None:
            continue
        if mc["modified"] != oc["modified"]:
            return False
        if oc.get("gslib") is not None and mc.get("gslib") != (oc["gslib"] if oc["gslib"] in ("cubic", "quadratic") else "other"):
            return False                  # the glyph set's own lib afterwards
        ma, oa = mc["after"], oc["after"]
        if [k for k, _ in ma] != [k for k, _ in oa]:
            return False
        for (k, mg), (_, og) in zip(ma, oa):
            if impl in OPAQUE:
                if k in oc["modified"]:
                    # the outline operation is external; everything but the contours is modelled
                    mg = dict(mg, c=None); og = dict(og, c=None)
            if mg != og:
                if req["in"]["exact"] or not L.close_glyph(mg, og):
                    return False
    return True


def _agree_prun(req, m, o):
    if o["outside"] is not None or len(m["steps"]) != len(o["steps"]):
        return False
    for si, ms, os_ in zip(req["in"]["steps"], m["steps"], o["steps"]):
        if ms is None:
            continue              # an interpolatable filter WITH an instantiator: not modelled (predicates only)
        if os_["err"] in RESOURCE_ERRS:
            continue
        if ms["err"] != os_["err"]:
            return False
        if ms["err"] is not None:
            continue
        if ms["modified"] != os_["modified"]:
            return False
        if os_["refreshed"] is not None and ms["refreshed"] != os_["refreshed"]:
            return False
        if len(ms["after"]) != len(os_["after"]):
            return False
        fl = si["filters"]
        if len(fl) != len(ms["after"]):
            fl = fl[:1] * len(ms["after"])
        for f, ma, oa in zip(fl, ms["after"], os_["after"]):
            if [k for k, _ in ma] != [k for k, _ in oa]:
                return False
            for (k, mg), (_, og) in zip(ma, oa):
                if f is not None and f["impl"] in OPAQUE and k in os_["modified"]:
                    mg = dict(mg, c=None); og = dict(og, c=None)      # the outline operation is external
                if mg != og:
                    return False
    return True


def classify_failure(res):
    """shapes of the genuine deviations of the unchanged ufo2ft from C14 (see the report)"""
    r = res["req"]
    if r["op"] == "iseq":
        return _classify_iseq(r)
    if r["op"] == "prun":
        return _classify_prun(r, res.get("info"))
    if r["op"] not in ("seq", "special"):
        return None
    impl = r["in"]["impl"]
    calls, fresh = r["obs"]["calls"], r["obs"]["fresh"]
    if [(c["err"], c.get("modified"), c.get("after")) for c in calls] != \
       [(c["err"], c.get("modified"), c.get("after")) for c in fresh]:
        return None                       # a statelessness failure is never a known shape
    parts = [c for c in ((res.get("info") or {}).get("calls") or []) if c]
    if impl in DECLARED:
        if not (res.get("info") or {}).get("stateless", False) or any(not c["footprint"] for c in parts):
            return None                   # the glyph-set footprint holds of both filters: a failure there is new
        if impl == "dottedCircle" and any(not c["report"] for c in parts):
            return None                   # DottedCircleFilter reports what it changes
    if impl == "explodeColorLayers":
        # adds '<glyph>.<layer>' glyphs but returns the names of the glyphs they were made for; writes
        # lib[colorLayers] and strips the layer glyphs' code points in the source font
        ok = True
        for fin, c in zip(r["in"]["fonts"], calls):
            if c["err"] is not None:
                continue
            b, a = dict(fin["gs"]), dict(c["after"])
            ch = [k for k in set(a) | set(b) if a.get(k) != b.get(k)]
            declared = set(r["in"]["opts"]["skip"])
            if any(k in b or k not in declared for k in ch):
                ok = False                # only additions of declared names
            if any(not (s == "lib" or s.startswith("glyph:color")) for s in c["src"]):
                ok = False
        return {"filter": "explodeColorLayers", "shape": "added-layer-glyphs-unreported+source-lib-and-layer-glyphs-written"} if ok else None
    if impl == "dottedCircle":
        ok = True
        for fin, c in zip(r["in"]["fonts"], calls):
            if c["err"] is not None:
                continue
            b, a = dict(fin["gs"]), dict(c["after"])
            ch = [k for k in set(a) | set(b) if a.get(k) != b.get(k)]
            if any(k not in c["modified"] or k not in r["in"]["opts"]["skip"] for k in ch):
                ok = False                # glyph-set footprint and reporting must hold
            if any(s not in ("lib", "features") for s in c["src"]):
                ok = False
        return {"filter": "dottedCircle", "shape": "source-lib-categories-or-features-written"} if ok else None
    return None


def _classify_prun(r, info):
    """The one genuine deviation of the unchanged ufo2ft seen at the pre-processor level (see the report):
    PropagateAnchorsIFilter resolves component bases through the instantiator's InterpolatedLayers; with inplace=False
    and before the first refresh these are still the SOURCE fonts' layers, so the anchors propagated to an intermediate
    base that has contours of its own (a truthy glyph object) are appended to the source font's glyph.
    Exactly that: only the source predicate fails, only anchors of default-layer source glyphs were written, the
    glyphs are mixed (contours + components) in their master, and an anchor-propagation step run as one interpolatable
    filter with an instantiator took place before any refresh."""
    if not info or not r["in"]["hasInst"] or not r["in"]["separate"]:
        return None
    if info["source"] is not False or info["view"] is not True:
        return None
    if any(h is not None and not (h["report"] and h["refresh"] and h["footprint"]) for h in info["steps"]):
        return None
    obs = r["obs"]
    if obs["outside"] is not None or not obs["srcDetail"]:
        return None
    # the first step that refreshed ends the window in which the instantiator still reads the source fonts
    window = []
    for si, so in zip(r["in"]["steps"], obs["steps"]):
        window.append((si, so))
        if so["err"] is not None or so.get("refreshed"):
            break
    # (the step may have been aborted by an exception of a later glyph: what it wrote before stays written)
    prop = [(si, so) for si, so in window if so["err"] not in RESOURCE_ERRS and all(
        f is not None and f["cls"] == "propagate" for f in si["filters"]) and
        len({(f["optsKey"], f["pre"]) for f in si["filters"]}) == 1]
    if not prop:
        return None
    for mi, name, fields in obs["srcDetail"]:
        if fields != ["a"]:
            return None
        ok = False
        for si, so in prop:
            g = dict(si["masters"][mi]["gs"]).get(name)
            # (in a sparse master the referencing composite may itself be an interpolated instance)
            referenced = any(b == name for m in si["masters"] for _, h in m["gs"] for b, _ in h["k"])
            if g is not None and g["c"] and g["k"] and referenced and (so["err"] is not None or name in so["modified"]):
                ok = True
        if not ok:
            return None
    return {"filter": "I:propagate+instantiator", "shape": "anchors-appended-to-source-font-glyph-before-first-refresh"}


def _incl_snapshot(inc, name, g):
    """the include predicate evaluated on a protocol glyph"""
    from fractions import Fraction
    k = inc["kind"]
    if k == "none":
        return True
    if k == "names":
        return name in inc["l"]
    if k == "exclude":
        return name not in inc["l"]
    p = inc["p"]
    return {"hasContours": bool(g["c"]), "hasComponents": bool(g["k"]), "hasAnchors": bool(g["a"]),
            "wide": Fraction(g["w"]) >= 500, "dotted": "." in name}[p]


def _classify_iseq(r):
    """Shape of the defect repaired by /repo commit 90a86ee (listed as 'fixed' in known_findings.json, so it suppresses
    nothing: if it comes back it is a VIOLATION).  FlattenComponentsIFilter.filter returned the flag of the LAST master
    that has the glyph: a glyph rewritten in an earlier master was not reported when the last one needed no flattening."""
    if r["in"]["impl"] != "I:flatten":
        return None
    calls, fresh = r["obs"]["calls"], r["obs"]["fresh"]
    if [(c["err"], c.get("modified"), c.get("after")) for c in calls] != \
       [(c["err"], c.get("modified"), c.get("after")) for c in fresh]:
        return None
    inc = r["in"]["inc"]
    seen = False
    for fin, c in zip(r["in"]["calls"], calls):
        if c["err"] is not None:
            continue
        if c["src"] and r["in"]["separate"]:
            return None
        before, after = [dict(b) for b in fin["gss"]], [dict(a) for a in c["after"]]
        for b, a in zip(before, after):
            for n in set(a) | set(b):
                if a.get(n) == b.get(n):
                    continue
                # footprint must hold: included in some master, and only the component list may differ
                if n not in a or n not in b or dict(a[n], k=None) != dict(b[n], k=None):
                    return None
                if not any(n in bb and _incl_snapshot(inc, n, bb[n]) for bb in before):
                    return None
                if n in c["modified"]:
                    continue
                last = [i for i, bb in enumerate(before) if n in bb][-1]
                if after[last].get(n) != before[last].get(n):
                    return None            # the last master did change: not this shape
                seen = True
    return {"filter": "I:flatten", "shape": "last-master-flag-overwrites-earlier-masters"} if seen else None


def _shrink_prun(case):
    masters, shared, lib = case["masters"], case["shared"], case["lib"]
    for i in range(len(shared)):
        c = dict(case); c["shared"] = shared[:i] + shared[i + 1:]; yield c
    for mi, specs in enumerate(lib):
        for i in range(len(specs)):
            c = dict(case); c["lib"] = lib[:mi] + [specs[:i] + specs[i + 1:]] + lib[mi + 1:]; yield c
    if len(masters) > 1:
        for mi in range(1, len(masters)):
            c = dict(case); c["masters"] = masters[:mi] + masters[mi + 1:]; c["lib"] = lib[:mi] + lib[mi + 1:]; yield c
    if case["inst"]:
        c = dict(case); c["inst"] = False; yield c
    allused = {b for fd in masters for g in fd["glyphs"] for b, _ in g["components"]}
    for nm in list(dict.fromkeys(g["name"] for fd in masters for g in fd["glyphs"])):
        if nm in allused:
            continue
        ms2 = [dict(fd, glyphs=[g for g in fd["glyphs"] if g["name"] != nm]) for fd in masters]
        if any(not fd["glyphs"] for fd in ms2):
            continue
        c = dict(case); c["masters"] = ms2; yield c


def shrink(case):
    if case["kind"] == "prun":
        yield from _shrink_prun(case)
        return
    if case["kind"] == "iseq":
        calls = case["calls"]
        if len(calls) > 1:
            for i in range(len(calls)):
                c = dict(case); c["calls"] = calls[:i] + calls[i + 1:]; yield c
        for ci, ms in enumerate(calls):
            if len(ms) > 2:
                for mi in range(1, len(ms)):
                    c = dict(case); c["calls"] = calls[:ci] + [ms[:mi] + ms[mi + 1:]] + calls[ci + 1:]; yield c
            allused = {b for fd in ms for g in fd["glyphs"] for b, _ in g["components"]}
            names = list(dict.fromkeys(g["name"] for fd in ms for g in fd["glyphs"]))
            for nm in names:
                if nm in allused:
                    continue
                ms2 = [dict(fd, glyphs=[g for g in fd["glyphs"] if g["name"] != nm]) for fd in ms]
                if any(not fd["glyphs"] for fd in ms2):
                    continue
                c = dict(case); c["calls"] = calls[:ci] + [ms2] + calls[ci + 1:]; yield c
        return
    if case["kind"] != "seq":
        return
    fonts = case["fonts"]
    if len(fonts) > 1:
        for i in range(len(fonts)):
            c = dict(case); c["fonts"] = fonts[:i] + fonts[i + 1:]; yield c
    for fi, fd in enumerate(fonts):
        used = {b for g in fd["glyphs"] for b, _ in g["components"]}
        for gi, g in enumerate(fd["glyphs"]):
            if g["name"] in used:
                continue
            fd2 = dict(fd); fd2["glyphs"] = fd["glyphs"][:gi] + fd["glyphs"][gi + 1:]
            if not fd2["glyphs"]:
                continue
            c = dict(case); c["fonts"] = fonts[:fi] + [fd2] + fonts[fi + 1:]; yield c
        for gi, g in enumerate(fd["glyphs"]):
            for key in ("anchors", "contours", "components"):
                if len(g[key]) > 0:
                    g2 = dict(g); g2[key] = g[key][:-1]
                    fd2 = dict(fd); fd2["glyphs"] = fd["glyphs"][:gi] + [g2] + fd["glyphs"][gi + 1:]
                    c = dict(case); c["fonts"] = fonts[:fi] + [fd2] + fonts[fi + 1:]; yield c


LEVEL_TEXT = ("Proved for all inputs (Lean, no bound on glyph count / nesting / number of masters or invocations) for the model "
              "of BaseFilter.__call__, BaseIFilter.__call__ and each shipped filter's filter(): every glyph whose entry "
              "differs after a call is in the returned set (C14_report; interpolatable, all five classes: C14_ireport) and is an "
              "included glyph, or for propagateAnchors a glyph referenced transitively from an included one, or for "
              "skipExportGlyphs a skipped glyph (C14_footprint, C14_ifootprint for all classes); the traversal order is "
              "irrelevant to both; include+exclude => ValueError, list => membership, exclude => complement, callable => "
              "itself (C14_exclusive); a reused filter object returns what a new one returns (C14_stateless, C14_istateless; "
              "SkipExportGlyphsFilter([]) never reaches set_context and raises AttributeError on every call, "
              "C14_skipExport_empty). The model is tied to the code by differential runs comparing the full glyph content. "
              "DottedCircleFilter / ExplodeColorLayerGlyphsFilter (Model/Spec/Props C14Special, 61 theorems, the SOURCE font is "
              "part of the state; all inputs): the only glyph-set entry DottedCircleFilter can change is the font's U+25CC glyph "
              "(if the glyph set has it with an outline) or uni25CC, and it reports it (dc_footprint, dc_report, dc_holds); with "
              "a separate glyph set the source font's glyphs are untouched (dc_source_glyphs); ExplodeColorLayerGlyphsFilter "
              "only ADDS entries, named <glyph>.<layer> for glyphs of the font's layers, and changes no existing entry "
              "(ex_footprint, ex_holds_footprint). The two KNOWN FINDINGS are theorems about the model: for every input whose "
              "dotted circle lacks an attachment point (decidable: dcWantsAnchor) the call writes the source font - lib "
              "categories when there is no GDEF table and the glyph is not yet a base, else the feature text is assigned and a "
              "base class lacking the glyph gets it (dottedCircle_writes_source); for every font without a colorLayers lib key a "
              "successful call leaves the key in the source lib (explode_writes_source); every glyph the filter adds is a new "
              "entry missing from the returned set, the reported glyphs are unchanged, and on every input meeting the decidable "
              "condition exWantsCopy a successful call adds a glyph, so the reporting clause is false of it "
              "(explode_underreports, ex_reported_unchanged, explode_adds). "
              "Pre-processor level (model of BaseInterpolatablePreProcessor._run incl. _try_as_interpolatable_filter, "
              "Props/C14Run.lean, 34 theorems, all inputs): whichever way a step runs its filters - one interpolatable filter for "
              "all masters or one filter per master, with missing filters - every glyph that differs in ANY master afterwards is "
              "in the set the step reports (C14_run_report: the union over the masters), the instantiator is refreshed whenever "
              "some glyph of some master changed and exactly when the reported set is non-empty (C14_run_refresh, "
              "C14_run_refresh_only), a master without a filter is unchanged and each master changes only within its own "
              "filter's footprint, or within the union of the includes when the filters are merged (C14_run_footprint, "
              "C14_run_holds); the merge happens exactly when all masters have the first filter's class / options / pre and the "
              "class has an interpolatable variant (C14_run_route); a missing filter in the FIRST master then makes the merged "
              "include dereference None (C14_run_noneFirst: AttributeError unless there is no glyph at all); "
              "perMasterLast_underreports: with 'the last filter's set' instead of the union a concrete step with a sparse last "
              "master reports nothing and never refreshes. "
              "CubicToQuadraticFilter.__call__ (Model/Spec/Props C14Cu2qu, all inputs): with rememberCurveType the lib "
              "entries only gate the call - 'quadratic' in font.lib or in the glyph set's lib => nothing changed, nothing "
              "reported (c2q_converted_noop), an unknown type => NotImplementedError (c2q_unknown), else BaseFilter.__call__; "
              "every successful call satisfies footprint + reporting (c2q_holds), the object's history never shows "
              "(c2q_stateless), a second call on the same source with new copies returns what the first returned "
              "(c2q_again), and the only lib written is the glyph set's own, which turns a later call that is handed it "
              "into a no-op (c2q_remembered).")
LEVEL_NOTE = ("Trusted: Lean kernel + propext/Classical.choice/Quot.sound; correspondence of the hand-written model with "
              "filters/*.py, util.py and the fontTools pens is differential (bounded by the generators). removeOverlaps / "
              "cubicToQuadratic are modelled with the outline operation as a parameter; dottedCircle is modelled "
              "with the drawn outline, the bounding boxes and feaLib's parse/serialise as inputs, explodeColorLayerGlyphs in "
              "full (the layer glyph OBJECT moves into the glyph set; its components are renamed one by one and its code "
              "points stripped in the source font); both are compared exactly incl. the source font afterwards, and "
              "classify_failure names the two known shapes only when the Lean verdict is 'footprint holds (and, for "
              "dottedCircle, reporting holds)'. 'The font is only read' is "
              "true of the model by construction and is checked on the implementation by before/after snapshots. Two "
              "deviations of the code are classified as known findings (dottedCircle and explodeColorLayerGlyphs write the "
              "source font / under-report added glyphs). FlattenComponentsIFilter reporting only the last master's flag was "
              "found by this check and repaired in /repo (90a86ee); its shape is still named by classify_failure and would "
              "now be a VIOLATION; the old rule survives only as the Lean theorem iflatten_lastflag_underreports. "
              "Pre-processor level: the per-step wrapper and the refresh sentinel are observation hooks on a private method / a "
              "public dataclass field (pass-through, they change nothing); steps running an interpolatable filter with an "
              "instantiator and the 'view' comparison (what a later filter reads through the instantiator == the same after a "
              "forced refresh) are PREDICATE-ONLY streams: `holds` is evaluated by the Lean driver on observed data, nothing is "
              "compared with a model there (agree = True). Third deviation of the code (found by this stream, named by "
              "classify_failure with the shape 'anchors-appended-to-source-font-glyph-before-first-refresh', see "
              "PROPOSED_KNOWN_FINDING; a VIOLATION until it is listed in known_findings.json): PropagateAnchorsIFilter with an instantiator and "
              "inplace=False appends anchors to mixed intermediate glyphs of the SOURCE fonts before the first refresh. Also "
              "modelled as it is (not a C14 violation, reported): with no filter in the first UFO and the same convertible "
              "filter in all others the step raises AttributeError. "
              "Histories on one source font: the rememberCurveType gate is modelled (lib entries as inputs) and compared "
              "exactly incl. the glyph set's lib entry afterwards; 'the source font (font.lib, layer libs, glyphs) is "
              "untouched' and 'a second run of the same object on the same source font with new copies gives the same "
              "outcome' are PREDICATES ON OBSERVATIONS (holdsSource / holdsAgain evaluated by the Lean driver) - the "
              "second run exists only for the cubicToQuadratic stream, not for the other classes.")

# ---- round 5: a separate glyph set that has no glyphs in it (entry of BaseFilter.__call__) ----
RULE += (" EMPTY SEPARATE GLYPH SET (max(16, n/14) further cases, tags 'E:*', 'gs:emptycopy' / 'gs:emptydict', 'onGiven:*'): one "
         "object of a transparent class (weight 3 each) or of removeOverlaps / cubicToQuadratic over 1-3 fonts, every step "
         "with its own kind of separate glyph set: at least one step (others with p=0.4) gets a glyph set WITHOUT glyphs - "
         "_GlyphSet.from_layer(font, <an empty extra layer of the source font>, copy=True) or {} -, the remaining steps "
         "ordinary copies (_GlyphSet copy / independent dict), so that empty-first and empty-after-full histories of one "
         "object occur; every step also on a new object. Observed in addition, for every call of the 'seq' streams with a "
         "separate glyph set: whether filter.context.glyphSet IS the object that was given ('onGiven'; not observed when "
         "the call left no new context). non-trivial there = an empty glyph set next to a source font that has glyphs.")
ASSUMED += [
    "entry of BaseFilter.__call__: the view _GlyphSet.from_layer(font) of the default layer is an input of the model "
    "(Model/C14Entry.entryGlyphSet); that the filter works on the glyph set it was given is observed as object identity "
    "filter.context.glyphSet is glyphSet (Spec.holdsEntry, predicate on observations; of the model: C14_entry_given / "
    "C14_entry_holds); the interpolatable variants and the classes with a __call__ of their own are covered by the "
    "source-font snapshot only",
]
LEVEL_TEXT += (" Entry of the call (Props/C14Entry): a glyph set that was given is the one worked on, whatever it contains "
               "(C14_entry_given, C14_entry_holds); on an EMPTY given glyph set every class returns the empty set and leaves "
               "the glyph set empty, the font's default layer playing no part (C14_entry_empty, C14_entry_empty_holds; "
               "skipExportGlyphs([]) excluded: it raises / returns the stale set before the entry, C14_skipExport_empty).")
LEVEL_NOTE += (" Empty separate glyph sets: the source font is a snapshot diff (holdsSource / holdsEmptyCall: glyph set still "
               "empty, nothing of the font changed), the object worked on is observed by identity (holdsEntry) - both are "
               "predicates on observations evaluated by the Lean driver; returned set and glyph set are compared with the "
               "model exactly. At the pre-processor level (op 'prun') no master / layer is ever empty (lib_C14run keeps at "
               "least one glyph per master): an empty sparse master in the per-master route is NOT generated.")
