"""C18 - GDEF classes, ligature carets and cursive anchors mirror the UFO data."""
import io
import json
import os

from ufo import build, err_kind, rat
import lib_C18 as L

ID = "C18"
THEOREM = ("Ufo2ft.C18.C18_all / C18_classes / C18_classes_font / C18_classes_disjoint / C18_carets / "
           "C18_carets_font / C18_carets_var_partial / caretValueOld_eq / C18_curs / C18_curs_flag / C18_ltr_extras / C18_ltr_extras_mem / C18_seq / runSeq_eq / "
           "C18_dir_set / C18_dir_seeded / C18_dir_neutral_free / closeGlyphs_grounded / C18_seq_independent / C18_user_left_alone / gdefTodoOld_eq / C18_unnamed_anchor_ignored / "
           "C18_quantize / C18_anchor / C18_categories / C18_pairs / holdsPairs_unique")
N = {"quick": 420, "thorough": 20000}
RULE = ("random small fonts (Latin, Arabic, Hebrew, Greek, common-script and unencoded glyphs; ufoLib2/defcon; TTF/OTF) with "
        "public.openTypeCategories maps (valid, invalid, 'unassigned', skipped and absent glyph names), caret_/vcaret_ anchors "
        "(equal values, values equal after rounding, half-integers, negatives, look-alike names, several caret anchors sharing a "
        "name), entry/exit anchors (one-sided, "
        "numbered and .LTR/.RTL suffixed pairs, mixed-direction repertoires, GSUB closure of direction), skipExportGlyphs, user "
        "GDEF blocks (one to three `table GDEF` blocks, GlyphClassDef / LigatureCaretByPos / ByIndex / neither in any of them, also "
        "contradicting the UFO categories), user curs feature with and without insertion marker, "
        "writers with a quantization option; compiled through compileTTF/compileOTF and read back from GDEF/GPOS and from the final "
        "feature text.  Multi-font stream (max(40, n/6) cases of 1-3 fonts, one request per compiled font): (seq) several unrelated "
        "fonts or masters of one family compiled one after the other with the SAME featureWriters list; (interp) "
        "compileInterpolatableTTFs(ufos, featureWriters=...); (ds) compileInterpolatableTTFs/OTFsFromDS on an in-memory designspace "
        "with <rule> substitutions (in 3 of 4 cases one rule is the only link between a left-to-right encoded glyph and an unencoded "
        "alternate carrying unsuffixed cursive anchors; plus random rules: chains, right-to-left sources, unknown names; designspace- "
        "level skipExportGlyphs); writers are ready-made instances (all four, or Gdef+Curs only, with or without quantization) or "
        "ufo2ft's defaults; masters differ in anchor coordinates and, in 2 of 3 cases, in their category maps (changed values, key "
        "absent, fresh map).  Variable stream (max(16, n/25) cases): compileVariableTTF on 2-3 full masters (default first, the same "
        "anchor names in every master, coordinates equal / equal after rounding / different across masters), observed: the "
        "LigatureCaretByPos statements of the final feature text (numbers and variable scalars, per master) and the default "
        "coordinates of the compiled LigCaretList.  Unit streams call _getAnchor/quantize, OpenTypeCategories.load and _getCursiveAnchorPairs directly.  "
        "non-trivial = the font has a class-bearing exported glyph or a caret glyph, and at least one cursive pair.")
ASSUMED = [
    "neutral-context stream: fontTools' subsetter closure over the compiled GSUB equals the closure over the rules the harness wrote, read as 'all glyphs of the input sequence and context present -> outputs join' (single, multiple, ligature, chaining-context format 3 with one glyph per position; measured on every case of the stream: the observed sets must equal the model's); unicodeScriptDirection per code point is an input",
    "all other streams: which code points are left-to-right and the set classifyGlyphs(cmap, GSUB)['LTR'] (cmap classification + fontTools' GSUB closure, WITHOUT the designspace rule substitutions) are inputs of the model, computed by the harness with ufo2ft.util.classifyGlyphs/unicodeScriptDirection on the compiled cmap and GSUB; the rule substitutions are taken from the designspace the harness built and applied by the model (applyExtras)",
    "feaLib compiles the emitted GlyphClassDef / LigatureCaretByPos / pos cursive statements faithfully (modelled as fontClasses/fontCarets and compared with the compiled tables on every case, not proved)",
    "the glyph objects of the feature compiler's glyph set carry the UFO glyph's anchors (no anchor-changing filter is generated)",
    "quantisation steps are positive; x/q and x+0.5 are exact in double arithmetic on the generated grids",
    "variable feature compilation is modelled for the ligature carets only (varcarets stream: full masters with the same anchor names in the same order, default source first, one axis, no quantisation option); the VariableScalar branch of _getAnchor as used by the curs writer is not modelled",
    "the deltas varLib stores for a variable caret are not read back: the variable carets are observed in the final feature text (per-master values) and the compiled table's default coordinates are compared with them",
    "a writer instance keeps only its constructor options between two write() calls (model runSeq: the context is rebuilt by setContext and deleted afterwards); measured on every multi-font case, where each font is compared with the model of a fresh build of that font",
]

_FINDINGS_FILE = os.path.join(os.path.dirname(os.path.dirname(os.path.dirname(os.path.abspath(__file__)))), "known_findings.json")
FINDING_KINDS = ("same-named-caret-anchors-collapse-to-last",)
# repaired in ufo2ft (known_findings.json kind "fixed"): its input shape is ordinary input now, and classify_failure still
# names it, so that a recurrence is reported as a VIOLATION carrying this shape
FIXED_KINDS = ("same-named-caret-anchors-collapse-to-first", "unnamed-anchor-crashes-curs-writer",
               "gdef-statement-in-later-user-block-ignored")


def enabled_findings():
    """the input shapes of genuine defects of the unchanged ufo2ft are generated only once the integrator has
    registered them (known_findings.json, kind known) or when VERIF_C18_FINDINGS=1/all/<kind,...>"""
    env = os.environ.get("VERIF_C18_FINDINGS", "")
    if env in ("1", "all"):
        return set(FINDING_KINDS)
    on = set(k for k in env.split(",") if k in FINDING_KINDS)
    try:
        for f in json.load(open(_FINDINGS_FILE))["findings"]:
            if f.get("property") == ID and f.get("kind") == "known" and isinstance(f.get("shape"), dict) \
                    and f["shape"].get("kind") in FINDING_KINDS:
                on.add(f["shape"]["kind"])
    except Exception:
        pass
    return on


# ------------------------------------------------------------------ generators

REPERTOIRE = [("a", 0x61), ("b", 0x62), ("c", 0x63), ("f_i", None), ("f_f_i", None), ("a.alt", None), ("alef-ar", 0x627),
              ("beh-ar", 0x628), ("beh-ar.init", None), ("lam_alef-ar", None), ("alef-hb", 0x5D0), ("period", 0x2E),
              ("zero", 0x30), ("alpha", 0x3B1), ("acutecomb", 0x301), ("x", None), ("y", None), ("space", 0x20),
              ("nko-a", 0x7CA), ("uni0915", 0x915)]
SUFFIXES = ["", ".1", ".2", ".LTR", ".RTL", ".2.RTL", ".alt.LTR", ".", ".x_y", ".ltr", ".LTRx"]
CARETS = ["caret_1", "caret_2", "caret_3", "caret_", "vcaret_1", "vcaret_2", "caret_x.y", "vcaret_"]
OTHERS = ["top", "_top", "bottom", "caret", "vcaret", "Caret_1", "mycaret_1", "entryway", "exits", "entry1", "exit.99",
          "entry.77", "", "ENTRY", "xcaret_1", "_caret"]
CATS_OK = ["base", "ligature", "mark", "component", "unassigned"]
CATS_BAD = ["Base", "", "marks", "LIGATURE", "none", "base ", "Mark"]
TRI = [[[0, 0, "line"], [100, 0, "line"], [50, 80, "line"]]]


def _coord(rng, mode):
    r = rng.random()
    k = rng.randrange(-300, 900)
    if mode == "search":
        return rng.choice([k + 0.5, -k - 0.5, k + 0.25, k + 0.75, 0.5, -0.5, 0, k])
    if r < 0.45:
        return k
    if r < 0.7:
        return k + 0.5
    if r < 0.8:
        return k + rng.choice([0.25, 0.375, 0.75, 0.125])
    if r < 0.9:
        return rng.choice([0, 100, 250, 250.25, 250.375, 249.5, 250.5, -0.5, 0.5])
    return -k


def gen_font(rng, mode, findings):
    n = rng.choice([1, 2, 3, 4, 5, 6, 8, 10])
    pool = list(REPERTOIRE)
    rng.shuffle(pool)
    pool = pool[:n]
    if rng.random() < 0.5 and not any(nm == "a" for nm, _ in pool):
        pool[0] = ("a", 0x61)          # make LTR fonts frequent enough
    if rng.random() < 0.25:
        pool = [p for p in pool if p[1] is None or p[1] in (0x627, 0x628, 0x5D0, 0x7CA, 0x2E, 0x30)] or pool
    if rng.random() < 0.2:
        pool.insert(rng.randrange(len(pool) + 1), (".notdef", None))
    active = rng.sample(SUFFIXES, rng.choice([0, 1, 1, 2, 2, 3]))
    pcaret = rng.choice([0, 0.2, 0.5])
    glyphs = []
    for nm, u in pool:
        anchors = []
        for s in active:
            r = rng.random()
            if r < 0.3:
                sides = ["entry", "exit"]
            elif r < 0.5:
                sides = ["entry"]
            elif r < 0.7:
                sides = ["exit"]
            else:
                sides = []
            for side in sides:
                anchors.append([side + s, _coord(rng, mode), _coord(rng, mode)])
                if rng.random() < 0.06:     # a second anchor of the same name: the first one counts
                    anchors.append([side + s, _coord(rng, mode), _coord(rng, mode)])
        if rng.random() < 0.08:
            anchors.append([rng.choice(["entry", "exit"]) + rng.choice(SUFFIXES), _coord(rng, mode), _coord(rng, mode)])
        if rng.random() < pcaret:
            vals = [_coord(rng, mode) for _ in range(3)]
            for cn in rng.sample(CARETS, rng.choice([1, 1, 2, 3, 4])):
                v = rng.choice(vals) if rng.random() < 0.5 else _coord(rng, mode)
                if rng.random() < 0.3:
                    v = rng.choice(vals) + rng.choice([0.25, 0.125, -0.25])   # equal after rounding, often
                anchors.append([cn, v, v if rng.random() < 0.3 else _coord(rng, mode)])
        if rng.random() < 0.2:
            anchors.append([rng.choice(OTHERS), _coord(rng, mode), _coord(rng, mode)])
        if rng.random() < 0.07:     # an anchor without a name: ignored by every writer (ufo2ft 87dd8ed)
            anchors.append([None, _coord(rng, mode), _coord(rng, mode)])
        rng.shuffle(anchors)
        glyphs.append({"name": nm, "width": 500, "unicodes": [] if u is None else [u],
                       "contours": TRI if rng.random() < 0.7 else [], "components": [], "anchors": anchors})
    names = [g["name"] for g in glyphs]
    # findings streams (see enabled_findings)
    # at most one finding shape per case, so that each failure has exactly one cause
    if rng.random() < 0.08:
        # several caret anchors sharing a name: each contributes its own coordinate (repaired in ufo2ft; before, the first
        # one's coordinate was read for all of them)
        g = rng.choice(glyphs)
        cn = rng.choice(CARETS)
        g["anchors"] += [[cn, _coord(rng, mode), _coord(rng, mode)] for _ in range(rng.choice([2, 2, 3]))]
        if rng.random() < 0.5:
            rng.shuffle(g["anchors"])
    skip = [nm for nm in names if nm != ".notdef" and rng.random() < 0.12] if rng.random() < 0.35 else []
    if len(skip) == len([nm for nm in names if nm != ".notdef"]):
        skip = skip[1:]
    exported = [nm for nm in names if nm not in skip]
    # categories
    cats = {}
    style = rng.random()
    if style < 0.7:
        for nm in names + ["ghost", "phantom.alt"]:
            if rng.random() < 0.55:
                cats[nm] = rng.choice(CATS_OK) if rng.random() < 0.85 else rng.choice(CATS_BAD)
    elif style < 0.78:
        for nm in names:
            if rng.random() < 0.5:
                cats[nm] = "unassigned"
    elif style < 0.86:
        for nm in skip + ["ghost"]:
            cats[nm] = rng.choice(CATS_OK)
    elif style < 0.9:
        for nm in names:
            cats[nm] = rng.choice(CATS_BAD)
    items = list(cats.items())
    rng.shuffle(items)
    fd = {"upm": 1000, "glyphs": glyphs, "info": {}, "lib": {}, "glyphOrder": None}
    if items or rng.random() < 0.1:
        fd["lib"]["public.openTypeCategories"] = dict(items)
    if skip:
        fd["lib"]["public.skipExportGlyphs"] = skip
    if rng.random() < 0.3:
        go = list(names)
        rng.shuffle(go)
        fd["glyphOrder"] = go[:rng.randrange(len(go) + 1)]
    # user GDEF blocks
    blocks = []
    # any number of `table GDEF` blocks is ordinary input: the writer scans all of them (repaired in ufo2ft; before, a
    # statement in a later block did not stop it) and appends to the first
    if rng.random() < 0.45 and exported:
        nb = rng.choice([1, 1, 1, 2, 2, 3])
        kinds = []
        for k in range(nb):
            kinds.append({"classdef": rng.random() < 0.45, "carets": rng.choice([None, None, "pos", "index"])})
        # at most one block of each kind, to keep the user's own statements conflict-free
        seen_cd = seen_car = False
        for kd in kinds:
            if kd["classdef"] and seen_cd:
                kd["classdef"] = False
            if kd["carets"] and seen_car:
                kd["carets"] = None
            seen_cd = seen_cd or kd["classdef"]
            seen_car = seen_car or bool(kd["carets"])
        for kd in kinds:
            b = {"classdef": None, "carets": None, "caretKind": kd["carets"]}
            if kd["classdef"]:
                gl = [nm for nm in exported if rng.random() < 0.6]
                cd = [[], [], [], []]
                for nm in gl:
                    cd[rng.randrange(4)].append(nm)
                b["classdef"] = cd
            if kd["carets"]:
                gl = rng.sample(exported, min(len(exported), rng.choice([1, 1, 2])))
                b["carets"] = [[nm, sorted(set(rng.randrange(1, 40) * (1 if kd["carets"] == "index" else 10)
                                              for _ in range(rng.choice([1, 2, 3]))))] for nm in sorted(gl)]
            blocks.append(b)
    gsub = []
    if rng.random() < 0.3 and len(exported) >= 2:
        for _ in range(rng.choice([1, 1, 2])):
            a, b = rng.sample(exported, 2)
            if a != ".notdef" and b != ".notdef" and not any(x[0] == a for x in gsub):
                gsub.append([a, b])
    r = rng.random()
    user_curs = None
    if r < 0.1 and exported:
        user_curs = "plain"
    elif r < 0.18 and exported:
        user_curs = "marker"
    quant = rng.choice([1, 2, 5, 10, 0.5, 4]) if rng.random() < 0.25 else None
    return {"kind": "font", "fd": fd, "otf": rng.random() < 0.4, "lib": rng.choice(["ufoLib2", "ufoLib2", "defcon"]),
            "quant": quant, "blocks": blocks, "gsub": gsub, "userCurs": user_curs}


LTR_CPS = (0x61, 0x62, 0x63, 0x3B1, 0x915)


def _fc(c):
    return {k: c[k] for k in ("fd", "blocks", "gsub", "userCurs", "gsubx") if k in c}


def _derive_master(rng, fc, mode):
    """another master of the same family: same glyphs, anchor names, features; other coordinates and (often) another
    public.openTypeCategories map"""
    fc = json.loads(json.dumps(fc))
    for g in fc["fd"]["glyphs"]:
        for a in g["anchors"]:
            if rng.random() < 0.7:
                a[1] = _coord(rng, mode)
            if rng.random() < 0.7:
                a[2] = _coord(rng, mode)
    lib = fc["fd"]["lib"]
    names = [g["name"] for g in fc["fd"]["glyphs"]]
    r = rng.random()
    if r < 0.35:
        pass
    elif r < 0.65:
        cats = dict(lib.get("public.openTypeCategories", {}))
        for nm in rng.sample(names + ["ghost"], min(len(names) + 1, rng.choice([1, 1, 2, 3]))):
            if nm in cats and rng.random() < 0.3:
                del cats[nm]
            else:
                cats[nm] = rng.choice(CATS_OK + CATS_OK + CATS_BAD)
        lib["public.openTypeCategories"] = cats
    elif r < 0.8:
        lib.pop("public.openTypeCategories", None)
    else:
        lib["public.openTypeCategories"] = {nm: rng.choice(CATS_OK) for nm in names if rng.random() < 0.6}
    return fc


def _force_rule_alternate(rng, fc):
    """make the font one in which a designspace rule is the ONLY link between a left-to-right encoded glyph and an
    unencoded alternate that has cursive anchors of a pair without direction suffix; returns the rule's substitutions"""
    gl = fc["fd"]["glyphs"]
    enc = [g for g in gl if g["unicodes"] and g["unicodes"][0] in LTR_CPS]
    if not enc:
        nm, u = rng.choice([("a", 0x61), ("b", 0x62), ("alpha", 0x3B1)])
        if any(g["name"] == nm for g in gl):
            nm, u = "c", 0x63
        gl.append({"name": nm, "width": 500, "unicodes": [u], "contours": TRI, "components": [], "anchors": []})
        enc = [gl[-1]]
    left = rng.choice(enc)
    targets = {b for _, b in fc["gsub"]}
    alts = [g for g in gl if not g["unicodes"] and g["name"] != ".notdef" and g["name"] not in targets]
    if alts and rng.random() < 0.7:
        right = rng.choice(alts)
    else:
        nm = next(n for n in (left["name"] + ".alt", left["name"] + ".ss01", "x.alt") if not any(g["name"] == n for g in gl))
        gl.append({"name": nm, "width": 500, "unicodes": [], "contours": TRI, "components": [], "anchors": []})
        right = gl[-1]
    sfx = rng.choice(["", "", "", ".1", ".2", ".x_y"])
    have = {a[0] for g in gl for a in g["anchors"]}
    sides = rng.choice([["entry"], ["exit"], ["entry", "exit"]])
    for side in sides:
        if not any(a[0] == side + sfx for a in right["anchors"]):
            right["anchors"].append([side + sfx, rng.randrange(-50, 700), rng.randrange(-50, 300)])
    for side in ("entry", "exit"):      # the pair must be present in the font
        if side + sfx not in have and not any(a[0] == side + sfx for g in gl for a in g["anchors"]):
            rng.choice([left, right] + gl)["anchors"].append([side + sfx, rng.randrange(-50, 700), rng.randrange(-50, 300)])
    lib = fc["fd"]["lib"]
    if "public.skipExportGlyphs" in lib:
        lib["public.skipExportGlyphs"] = [n for n in lib["public.skipExportGlyphs"] if n not in (left["name"], right["name"])]
        if not lib["public.skipExportGlyphs"]:
            del lib["public.skipExportGlyphs"]
    if fc["userCurs"] == "plain":
        fc["userCurs"] = None
    return [[left["name"], right["name"]]]


NEUTRALS = [("period", 0x2E), ("space", 0x20), ("zero", 0x30), ("hyphen", 0x2D), ("zwj", 0x200D)]
LTR_LETTERS = [("a", 0x61), ("b", 0x62), ("c", 0x63), ("alpha", 0x3B1), ("uni0915", 0x915)]


def _rule_need(r):
    return list(r["back"]) + list(r["in"]) + list(r["ahead"])


def gen_ctx(rng, mode):
    """a font whose GSUB reaches an unencoded glyph with unsuffixed cursive anchors from a left-to-right letter ONLY
    through a rule that has a script-neutral glyph (period, space, digit, hyphen, ZWJ) in its input or context: a
    ligature with a neutral component, or a contextual substitution with a neutral glyph as backtrack/lookahead; plus
    random other rules (single, multiple, ligature, contextual; chains; right-to-left and neutral sources)"""
    c = gen_font(rng, mode, set())
    fd = c["fd"]
    gl = fd["glyphs"]
    fd["lib"].pop("public.skipExportGlyphs", None)
    gl[:] = [g for g in gl if g["name"] != ".notdef"]
    c["gsub"] = []
    if c["userCurs"] == "plain":
        c["userCurs"] = None
    for b in c["blocks"]:      # the blocks may name a removed .notdef
        if b["classdef"]:
            b["classdef"] = [[n for n in cl if n != ".notdef"] for cl in b["classdef"]]
        if b["carets"]:
            b["carets"] = [e for e in b["carets"] if e[0] != ".notdef"] or None
            if b["carets"] is None:
                b["caretKind"] = None

    def have(nm):
        return next((g for g in gl if g["name"] == nm), None)

    def add(nm, u):
        g = have(nm)
        if g is None:
            g = {"name": nm, "width": 500, "unicodes": [] if u is None else [u], "contours": TRI, "components": [], "anchors": []}
            gl.append(g)
        return g
    letters = [g for g in gl if g["unicodes"] and g["unicodes"][0] in LTR_CPS]
    if not letters or rng.random() < 0.3:
        letters.append(add(*rng.choice(LTR_LETTERS)))
    neutrals = [g for g in gl if g["unicodes"] and g["unicodes"][0] in (0x2E, 0x20, 0x30, 0x2D, 0x200D)]
    if not neutrals or rng.random() < 0.3:
        neutrals.append(add(*rng.choice(NEUTRALS)))
    sfx = rng.choice(["", "", "", ".1", ".2", ".x_y"])
    rules = []
    used_targets = set()
    for k in range(rng.choice([1, 1, 2, 3])):
        left, neu = rng.choice(letters), rng.choice(neutrals)
        form = rng.choice(["liga", "liga-first", "ahead", "back", "both", "chain"])
        nm = next(n for n in (left["name"] + rng.choice([".fina", ".init", ".swash"]), left["name"] + "_" + neu["name"],
                              "t%d.alt" % k) if have(n) is None)
        tgt = add(nm, None)
        sides = rng.choice([["entry"], ["exit"], ["entry", "exit"]])
        for side in sides:
            tgt["anchors"].append([side + sfx, rng.randrange(-50, 700), rng.randrange(-50, 300)])
        used_targets.add(nm)
        if form == "liga":
            rules.append({"back": [], "in": [left["name"], neu["name"]], "ahead": [], "out": [nm]})
        elif form == "liga-first":
            rules.append({"back": [], "in": [neu["name"], left["name"]], "ahead": [], "out": [nm]})
        elif form == "ahead":
            rules.append({"back": [], "in": [left["name"]], "ahead": [neu["name"]], "out": [nm]})
        elif form == "back":
            rules.append({"back": [neu["name"]], "in": [left["name"]], "ahead": [], "out": [nm]})
        elif form == "both":
            rules.append({"back": [rng.choice(letters)["name"]], "in": [left["name"]], "ahead": [neu["name"]], "out": [nm]})
        else:       # two steps: a plain alternate of the letter, then the neutral-context rule from the alternate
            mid = add(next(n for n in (left["name"] + ".alt", left["name"] + ".ss01", "m%d.alt" % k) if have(n) is None or not have(n)["unicodes"]), None)
            used_targets.add(mid["name"])
            rules.append({"back": [], "in": [left["name"]], "ahead": [], "out": [mid["name"]]})
            rules.append({"back": [], "in": [mid["name"]], "ahead": [neu["name"]], "out": [nm]})
    for side in ("entry", "exit"):      # the pair must be present in the font
        if not any(a[0] == side + sfx for g in gl for a in g["anchors"]):
            rng.choice(gl)["anchors"].append([side + sfx, rng.randrange(-50, 700), rng.randrange(-50, 300)])
    names = [g["name"] for g in gl]
    for _ in range(rng.choice([0, 0, 1, 2, 3])):     # any other rules
        form = rng.choice(["single", "single", "mult", "liga", "ctx"])
        a, b, x, y = (rng.choice(names) for _ in range(4))
        if form != "single" and rng.random() < 0.5:
            x = rng.choice(neutrals)["name"]
        outs = [n for n in names if n not in used_targets or rng.random() < 0.2] or names
        o = rng.choice(outs)
        if form == "single":
            r = {"back": [], "in": [a], "ahead": [], "out": [o]}
        elif form == "mult":
            r = {"back": [], "in": [a], "ahead": [], "out": [o, rng.choice(outs)]}
        elif form == "liga":
            r = {"back": [], "in": [a, x], "ahead": [], "out": [o]}
        else:
            r = {"back": [y] if rng.random() < 0.4 else [], "in": [a], "ahead": [x], "out": [o]}
        rules.insert(rng.randrange(len(rules) + 1), r)
    c["gsubx"] = rules
    c["otf"] = rng.random() < 0.25
    return c


def gen_multi(rng, mode):
    via = rng.choice(["seq", "seq", "interp", "ds", "ds"])
    writers = rng.choice(["instances", "instances", "instances", "gdef-curs-only", "default"])
    quant = rng.choice([1, 2, 5, 10, 0.5, 4]) if writers == "instances" and rng.random() < 0.2 else None
    case = {"kind": "multi", "via": via, "otf": via != "interp" and rng.random() < 0.3, "lib": rng.choice(["ufoLib2", "ufoLib2", "defcon"]),
            "writers": writers, "quant": quant, "rules": [], "dsSkip": None}
    if via == "seq" and rng.random() < 0.65:
        # unrelated fonts, compiled one after the other with the same featureWriters list
        case["fonts"] = [_fc(gen_font(rng, mode, set())) for _ in range(rng.choice([2, 2, 3]))]
        return case
    base = _fc(gen_font(rng, mode, set()))
    if via == "ds":
        rules = []
        if rng.random() < 0.75:
            rules.append(_force_rule_alternate(rng, base))
        names = [g["name"] for g in base["fd"]["glyphs"] if g["name"] != ".notdef"]
        for _ in range(rng.choice([0, 0, 1, 2])):     # any other rules: chains, right-to-left sources, unknown names
            subs = []
            for _ in range(rng.choice([1, 1, 2])):
                l, r = rng.choice(names + ["ghost"]), rng.choice(names + ["ghost.alt"])
                if l != r:
                    subs.append([l, r])
            if subs:
                rules.insert(rng.randrange(len(rules) + 1), subs)
        case["rules"] = rules
        skip = base["fd"]["lib"].get("public.skipExportGlyphs")
        case["dsSkip"] = list(skip) if skip and rng.random() < 0.8 else None
    n = rng.choice([1, 2, 2, 2, 3]) if via == "ds" else rng.choice([2, 2, 3])
    fonts = [base]
    while len(fonts) < n:
        fonts.append(_derive_master(rng, fonts[rng.randrange(len(fonts))] if rng.random() < 0.3 else base, mode))
    if rng.random() < 0.3:
        rng.shuffle(fonts)
    case["fonts"] = fonts
    return case


def gen_var(rng, mode, findings):
    """a designspace of 2-3 full masters (default first) for compileVariableTTF: the same anchor names in the same order
    in every master, caret names distinct within a glyph unless the known shape is enabled"""
    nm = rng.choice([2, 2, 3])
    dup = "same-named-caret-anchors-collapse-to-last" in findings and rng.random() < 0.15
    glyphs = []
    for gname in rng.sample(["f_i", "f_f_i", "lam_alef-ar", "x", "a.alt"], rng.choice([1, 2, 3])):
        names = rng.sample(CARETS, rng.choice([0, 1, 2, 3, 4]))
        if rng.random() < 0.4:
            names.append(rng.choice(OTHERS[:12]))
        if dup and names:
            names += [rng.choice([n_ for n_ in names if n_ in CARETS] or CARETS)] * rng.choice([1, 2])
            dup = False
        rng.shuffle(names)
        base = [[n_, _coord(rng, mode), _coord(rng, mode)] for n_ in names]
        per = []
        for k in range(nm):
            al = []
            for n_, x, y in base:
                r = rng.random()
                if k == 0 or r < 0.3:      # equal in all masters: collapses to a plain number
                    al.append([n_, x, y])
                elif r < 0.45:             # equal after rounding only
                    al.append([n_, x + rng.choice([0.25, -0.25, 0.125]), y + rng.choice([0.25, -0.25])])
                else:
                    al.append([n_, _coord(rng, mode), _coord(rng, mode)])
            per.append(al)
        glyphs.append([gname, per])
    return {"kind": "var", "masters": nm, "dflt": 0, "glyphs": glyphs}


def gen(rng, n, mode):
    findings = enabled_findings()
    # fixed witnesses of the branches first
    for c in witnesses(findings):
        yield c
    for i in range(n):
        yield gen_font(rng, mode, findings)
    for i in range(max(40, n // 6)):
        yield gen_multi(rng, mode)
    for i in range(max(36, n // 10)):
        yield gen_ctx(rng, mode)
    for i in range(max(16, n // 25)):
        yield gen_var(rng, mode, findings)
    for i in range(max(20, n // 6)):
        anchors = [[rng.choice(["entry", "exit", "caret_1", "top", "", None] if i % 7 == 0 else ["entry", "exit", "caret_1", "top", ""]),
                    _coord(rng, "search" if i % 2 else mode), _coord(rng, mode)] for _ in range(rng.choice([0, 1, 2, 3, 4]))]
        yield {"kind": "anchor", "anchors": anchors, "name": rng.choice(["entry", "exit", "caret_1", "top", "", "nope"]),
               "quant": rng.choice([None, 1, 2, 5, 10, 0.5, 4, 3, 20, 0.25])}
    for i in range(max(10, n // 20)):
        items = {}
        for nm in rng.sample(["a", "b", "c", "d", "e", "f", "g", "h"], rng.randrange(0, 8)):
            items[nm] = rng.choice(CATS_OK + CATS_OK + CATS_BAD)
        yield {"kind": "cats", "categories": [[k, v] for k, v in items.items()]}
    for i in range(max(10, n // 20)):
        glyphs = []
        for k in range(rng.randrange(0, 4)):
            names = [rng.choice(["entry", "exit"]) + rng.choice(SUFFIXES) if rng.random() < 0.8 else rng.choice(OTHERS + CARETS)
                     for _ in range(rng.randrange(0, 5))]
            if rng.random() < 0.15:
                names.insert(rng.randrange(len(names) + 1), None)
            glyphs.append(["g%d" % k, [[nm, 0, 0] for nm in names]])
        yield {"kind": "pairs", "glyphs": glyphs}


def _g(name, anchors=(), u=None):
    return {"name": name, "width": 500, "unicodes": [] if u is None else [u], "contours": TRI, "components": [],
            "anchors": [list(a) for a in anchors]}


def witnesses(findings):
    base = {"kind": "font", "otf": False, "lib": "ufoLib2", "quant": None, "blocks": [], "gsub": [], "userCurs": None}
    mixed = [_g("a", [("entry", 10.5, 0), ("exit", 100, -0.5)], 0x61), _g("b", [("exit", 3, 4)], 0x62),
             _g("alef-ar", [("entry", 1, 2), ("entry.1", 5, 5)], 0x627),
             _g("beh-ar", [("exit", 7, 8), ("exit.1", 9, 9), ("entry.LTR", 1, 1)], 0x628),
             _g("x", [("exit.LTR", 2, 2), ("entry.2.RTL", 4, 4), ("exit.2.RTL", 4, 5)]), _g("period", [("entry", 0, 0)], 0x2E),
             _g("f_i", [("caret_1", 250.25, 0), ("caret_2", 250.375, 0), ("vcaret_1", 0, 300.5), ("caret_", -5.5, 0)])]
    cats = {"a": "base", "f_i": "ligature", "x": "mark", "b": "component", "period": "unassigned", "ghost": "base", "alef-ar": "Base"}
    yield dict(base, fd={"glyphs": mixed, "lib": {"public.openTypeCategories": cats}})
    yield dict(base, fd={"glyphs": mixed, "lib": {"public.openTypeCategories": cats, "public.skipExportGlyphs": ["a"]}}, otf=True)
    yield dict(base, fd={"glyphs": mixed, "lib": {"public.openTypeCategories": {"ghost": "mark"}}}, quant=5)
    yield dict(base, fd={"glyphs": mixed, "lib": {"public.openTypeCategories": cats}}, gsub=[["a", "x"]],
               blocks=[{"classdef": [["b"], [], ["x"], []], "carets": [["b", [10, 20]]], "caretKind": "pos"}])
    yield dict(base, fd={"glyphs": mixed, "lib": {"public.openTypeCategories": cats}}, userCurs="plain",
               blocks=[{"classdef": None, "carets": [["b", [1]]], "caretKind": "index"}])
    # several user GDEF blocks are ordinary input (the reproducers of the repaired first-block-only scan: a later block's
    # statements stand alone, also where they contradict the UFO categories)
    yield dict(base, fd={"glyphs": mixed, "lib": {"public.openTypeCategories": cats}},
               blocks=[{"classdef": None, "carets": None, "caretKind": None},
                       {"classdef": [["period"], [], [], []], "carets": None, "caretKind": None}])
    yield dict(base, fd={"glyphs": mixed, "lib": {"public.openTypeCategories": cats}}, otf=True,
               blocks=[{"classdef": None, "carets": None, "caretKind": None},
                       {"classdef": [["f_i", "x"], [], ["a"], []], "carets": [["f_i", [100]]], "caretKind": "pos"}])
    yield dict(base, fd={"glyphs": mixed, "lib": {"public.openTypeCategories": cats}},
               blocks=[{"classdef": [["a"], ["f_i"], [], []], "carets": None, "caretKind": None},
                       {"classdef": None, "carets": None, "caretKind": None},
                       {"classdef": None, "carets": [["f_i", [2]]], "caretKind": "index"}])
    # caret anchors sharing a name are ordinary input (the reproducer of the repaired collapse, and a mixed glyph)
    yield dict(base, fd={"glyphs": [_g("f_i", [("caret_1", 100, 0), ("caret_1", 200, 0)])], "lib": {}})
    yield dict(base, fd={"glyphs": [_g("a", [], 0x61), _g("f_f_i", [("vcaret_1", 0, 50.5), ("caret_2", 300, 7), ("caret_1", 100.5, 0),
                                                                   ("caret_2", 99.5, 0), ("vcaret_1", 3, 20), ("caret_2", 300.25, 1)])],
                         "lib": {}}, otf=True, quant=5)
    yield {"kind": "var", "masters": 2, "dflt": 0,
           "glyphs": [["f_i", [[["caret_1", 100, 0], ["caret_2", 200.5, 0], ["vcaret_1", 0, 50], ["top", 5, 5]],
                               [["caret_1", 110, 0], ["caret_2", 230, 0], ["vcaret_1", 0, 50], ["top", 6, 6]]]],
                      ["f_f_i", [[["caret_2", 300, 0], ["caret_1", 100, 0]], [["caret_2", 250, 0], ["caret_1", 120, 0]]]],
                      ["x", [[["entry", 1, 1]], [["entry", 2, 2]]]]]}
    if "same-named-caret-anchors-collapse-to-last" in findings:
        yield {"kind": "var", "masters": 2, "dflt": 0,
               "glyphs": [["f_i", [[["caret_1", 100, 0], ["caret_1", 200, 0]], [["caret_1", 110, 0], ["caret_1", 230, 0]]]]]}
    # the same writer instances for several fonts; designspace rules as the only link to a left-to-right glyph
    multi = {"kind": "multi", "otf": False, "lib": "ufoLib2", "writers": "instances", "quant": None, "rules": [], "dsSkip": None}
    plain = {"blocks": [], "gsub": [], "userCurs": None}
    cats2 = {"a": "ligature", "f_i": "base", "x": "base", "alef-ar": "mark", "period": "component"}
    yield dict(multi, via="seq", fonts=[dict(plain, fd={"glyphs": mixed, "lib": {"public.openTypeCategories": cats}}),
                                        dict(plain, fd={"glyphs": mixed, "lib": {"public.openTypeCategories": cats2}}),
                                        dict(plain, fd={"glyphs": mixed[:3], "lib": {}})])
    yield dict(multi, via="interp", writers="gdef-curs-only",
               fonts=[dict(plain, fd={"glyphs": mixed, "lib": {}}),
                      dict(plain, fd={"glyphs": mixed, "lib": {"public.openTypeCategories": cats2}}),
                      dict(plain, fd={"glyphs": mixed, "lib": {"public.openTypeCategories": cats}})])
    ruled = mixed + [_g("y", [("entry", 3, 3), ("exit.1", 8, 8)]), _g("z", [("exit", 4, 4)])]
    yield dict(multi, via="ds", otf=True, writers="default", rules=[[["b", "y"], ["y", "z"]], [["beh-ar", "x"]]],
               fonts=[dict(plain, fd={"glyphs": ruled, "lib": {"public.openTypeCategories": cats}}),
                      dict(plain, fd={"glyphs": ruled, "lib": {"public.openTypeCategories": cats}})])
    # unnamed anchors are ordinary input: the reproducer of the repaired crash and a mixed font
    yield dict(base, fd={"glyphs": [_g("a", [(None, 100, 0)], 0x61)], "lib": {}})
    yield dict(base, fd={"glyphs": [_g("a", [(None, 1, 1), ("entry", 10.5, 0), (None, 2, 2)], 0x61), _g("b", [("exit", 3, 4), (None, 5, 5)], 0x62),
                                    _g("f_i", [(None, 9, 9), ("caret_1", 250, 0)])], "lib": {}}, otf=True)


# ------------------------------------------------------------------ running the implementation

def _features_text(case, exported):
    parts, n_user = [], []
    for b in case["blocks"]:
        lines = []
        if b["classdef"] is not None:
            lines.append("GlyphClassDef " + ", ".join("[" + " ".join(c) + "]" if c else "" for c in b["classdef"]) + ";")
        if b["carets"] is not None:
            kw = "LigatureCaretByIndex" if b["caretKind"] == "index" else "LigatureCaretByPos"
            for g, vals in b["carets"]:
                lines.append("%s %s %s;" % (kw, g, " ".join(str(v) for v in vals)))
        if not lines:
            lines.append("Attach %s 1;" % exported[0])
        n_user.append(len(lines))
        parts.append("table GDEF {\n" + "\n".join("    " + l for l in lines) + "\n} GDEF;")
    if case["gsub"]:
        parts.append("feature calt {\n" + "\n".join("    sub %s by %s;" % (a, b) for a, b in case["gsub"]) + "\n} calt;")
    for k, r in enumerate(case.get("gsubx") or []):
        # one feature block (hence one lookup) per rule
        tag = ("calt", "liga", "salt", "rlig", "ss01", "clig")[k % 6]
        if r["back"] or r["ahead"]:
            body = "sub %s by %s;" % (" ".join(r["back"] + [g + "'" for g in r["in"]] + r["ahead"]), " ".join(r["out"]))
        else:
            body = "sub %s by %s;" % (" ".join(r["in"]), " ".join(r["out"]))
        parts.append("feature %s {\n    %s\n} %s;" % (tag, body, tag))
    if case["userCurs"] == "plain":
        parts.append("feature curs {\n    pos cursive %s <anchor %d 0> <anchor NULL>;\n} curs;" % (exported[0], L.SENTINEL))
    elif case["userCurs"] == "marker":
        parts.append("feature curs {\n    # Automatic Code\n} curs;")
    return "\n".join(parts), n_user


def _writers(quant):
    if quant is None:
        return None
    from ufo2ft.featureWriters import CursFeatureWriter, GdefFeatureWriter, KernFeatureWriter, MarkFeatureWriter

    class QCurs(CursFeatureWriter):
        options = dict(quantization=1)

    class QGdef(GdefFeatureWriter):
        options = dict(quantization=1)
    return [QCurs(quantization=quant), KernFeatureWriter, MarkFeatureWriter, QGdef(quantization=quant)]


def _skip_of(fc):
    return list(fc["fd"].get("lib", {}).get("public.skipExportGlyphs", []))


def _prepare(fc, lib, skip):
    """the UFO of one font description (`fc` = {fd, blocks, gsub, userCurs}); skip = the glyphs the build will not export"""
    fd = fc["fd"]
    names = [g["name"] for g in fd["glyphs"]]
    exported = [n for n in names if n not in skip]
    text, n_user = _features_text(fc, exported)
    fd = dict(fd, features=text)
    return build(fd, lib), fd, exported, n_user


def _observe(fc, fd, exported, n_user, tt, fea_text, err, quant, extras, tags):
    """one "font" request: the model input taken from the UFO description, the observation from the compiled font
    `tt` (already saved and re-read) and from the final feature text"""
    skip = [g["name"] for g in fd["glyphs"] if g["name"] not in exported]
    src = {g["name"]: g for g in fd["glyphs"]}
    order = tt.getGlyphOrder() if tt is not None else exported
    glyphs = [[n, [[a[0], rat(a[1]), rat(a[2])] for a in src[n]["anchors"]] if n in src else []] for n in order]
    cats = fd.get("lib", {}).get("public.openTypeCategories", {})
    any_ltr, ltr = False, None
    closure, dir_obs = None, None
    if tt is not None:
        from ufo2ft.util import classifyGlyphs, unicodeScriptDirection
        cmap = tt.getBestCmap() or {}
        any_ltr = any(unicodeScriptDirection(uv) == "LTR" for uv in cmap)
        if any_ltr:
            # cmap classification + GSUB closure only: the designspace rule substitutions are applied by the model
            d = classifyGlyphs(unicodeScriptDirection, cmap, tt.get("GSUB"))
            ltr = sorted(d["LTR"]) if "LTR" in d else None
        if fc.get("gsubx") is not None:
            # the rules the harness wrote + the cmap classification: the model computes the left-to-right set itself
            from ufo2ft.util import closeGlyphsOverGSUB
            rules = [[[a], [b]] for a, b in fc["gsub"]] + [[_rule_need(r), list(r["out"])] for r in fc["gsubx"]]
            ltr0 = sorted({g for uv, g in cmap.items() if unicodeScriptDirection(uv) == "LTR"})
            neu0 = sorted({g for uv, g in cmap.items() if unicodeScriptDirection(uv) is None})
            closure = {"rules": rules, "ltr0": ltr0, "neutral0": neu0}
            nobs = set(neu0)
            if "GSUB" in tt and nobs:
                closeGlyphsOverGSUB(tt["GSUB"], nobs)
            dir_obs = {"ltr": ltr or [], "neutral": sorted(nobs)}
    ucls, ucar = [], []
    for b in fc["blocks"]:
        if b["classdef"] is not None:
            for code, gl in zip((1, 2, 3, 4), b["classdef"]):
                ucls += [[g, code] for g in gl]
        if b["carets"] is not None:
            ucar += [[g, [v + (100000 if b["caretKind"] == "index" else 0) for v in vals]] for g, vals in b["carets"]]
    inp = {"glyphs": glyphs, "categories": [[k, v] for k, v in cats.items()],
           "blocks": [[b["classdef"] is not None, b["carets"] is not None] for b in fc["blocks"]],
           "userClasses": sorted(ucls), "userCarets": sorted(ucar),
           "quant": None if quant is None else rat(quant), "anyLtrCp": any_ltr, "ltr": ltr,
           "extras": [list(e) for e in extras], "cursTodo": fc["userCurs"] != "plain"}
    if closure is not None:
        inp["closure"] = closure
    tags = list(tags) + ["quant" if quant is not None else "noquant", "userblocks:%d" % len(fc["blocks"]),
                         "usercurs:%s" % fc["userCurs"], "skip" if skip else "noskip"]
    if err is None:
        try:
            cd, carets, problems = L.fea_gdef(fea_text, order, n_user)
        except Exception as e:      # the final feature text must be parseable
            cd, carets, problems = None, None, ["feature text: " + err_kind(e)]
        if carets is not None and any(not isinstance(v, int) for _, vs in carets for v in vs):
            problems.append("non-integer caret in feature text")
        if problems:
            err = "Malformed:" + problems[0]
    if err is not None:
        return {"op": "font", "in": inp, "obs": {"err": err}, "tags": tags + ["err:" + err], "nontrivial": True}
    lookups = [l for l in L.font_cursive(tt) if not L.is_user_lookup(l[1])]
    obs = {"err": None, "fea": {"classDef": cd, "carets": carets},
           "font": {"classes": L.font_classes(tt), "carets": L.font_carets(tt)},
           "curs": [[bool(f & 1), recs] for f, recs, _ in lookups],
           "flags": [f for f, _, _ in lookups], "inCurs": all(c for _, _, c in lookups)}
    if closure is not None:
        obs["dir"] = dir_obs
        tags.append("gsub-context-rules")
        # distribution: a glyph with unsuffixed-pair cursive anchors that is left-to-right only because script-neutral glyphs
        # take part in the closure (reference closure over the written rules, with and without the neutral glyphs)
        def close_(s0):
            s0 = set(s0)
            while True:
                add_ = {o for need, out in closure["rules"] if set(need) <= s0 for o in out} - s0
                if not add_:
                    return s0
                s0 |= add_
        nclosed = close_(closure["neutral0"])
        with_n = close_(set(closure["ltr0"]) | nclosed) - nclosed
        without_n = close_(closure["ltr0"])
        only = with_n - without_n
        if only:
            tags.append("ltr-through-neutral-context")
        if any_ltr and any(n in only and any(a[0] and (a[0] in ("entry", "exit") or a[0].startswith(("entry.", "exit."))) and
                                             not a[0].endswith((".LTR", ".RTL")) for a in al) for n, al in glyphs):
            tags.append("curs-ltr-through-neutral-context")
    # distribution
    tags.append("classdef:" + ("user" if any(b[0] for b in inp["blocks"]) else "emitted" if cd is not None and any(cd) else
                               "emitted-empty" if cd is not None else "none"))
    tags.append("carets:" + ("user" if any(b[1] for b in inp["blocks"]) else "emitted" if carets else "none"))
    if carets and any(len(set(v)) < len(v) for _, v in carets):
        tags.append("carets:equal-after-rounding")
    tags.append("curs-lookups:%d" % min(len(lookups), 4))
    tags.append("split" if any_ltr else "nosplit")
    for f, recs, _ in lookups:
        tags.append("lookup:rtl" if f & 1 else "lookup:ltr")
        if any(r[1] is None or r[2] is None for r in recs):
            tags.append("rec:one-sided")
        if any(r[1] is not None and r[2] is not None for r in recs):
            tags.append("rec:two-sided")
    anames = {a[0] for _, al in glyphs for a in al if a[0]}
    for s in (".LTR", ".RTL"):
        if any(a.startswith("entry.") and a.endswith(s) and ("exit." + a[6:]) in anames for a in anames):
            tags.append("pair-suffix:" + s)
    if ltr and any(n not in ltr for n, al in glyphs if any(a[0] in ("entry", "exit") for a in al)):
        tags.append("mixed-direction")
    if ltr is not None and extras:
        # a glyph with cursive anchors that is left-to-right ONLY because a designspace rule substitutes it for one
        by_rule = {r for l, r in extras if l in ltr and r not in ltr}
        if any(n in by_rule and any(a[0] and (a[0] == "entry" or a[0] == "exit" or a[0].startswith(("entry.", "exit.")))
                                    for a in al) for n, al in glyphs):
            tags.append("ltr-by-rule-only")
    nontrivial = bool(lookups) and (bool(carets) or (cd is not None and any(cd)))
    return {"op": "font", "in": inp, "obs": obs, "tags": sorted(set(tags)), "nontrivial": nontrivial}


def _reread(tt):
    from fontTools.ttLib import TTFont
    buf = io.BytesIO()
    tt.save(buf)
    return TTFont(io.BytesIO(buf.getvalue()))


def _run_font(case):
    import logging
    logging.disable(logging.CRITICAL)
    skip = _skip_of(case)
    font, fd, exported, n_user = _prepare(case, case["lib"], skip)
    dbg = io.StringIO()
    err, tt = None, None
    try:
        import ufo2ft
        kw = dict(featureWriters=_writers(case["quant"]), debugFeatureFile=dbg)
        tt = ufo2ft.compileOTF(font, optimizeCFF=0, **kw) if case["otf"] else ufo2ft.compileTTF(font, **kw)
        tt = _reread(tt)
    except Exception as e:
        err = err_kind(e)
        tt = None
    tags = ["otf" if case["otf"] else "ttf", case["lib"]]
    return [_observe(case, fd, exported, n_user, tt, dbg.getvalue(), err, case["quant"], [], tags)]


# ---- several fonts through the same compile call / the same writer instances

def _writer_instances(mode, quant):
    """None (ufo2ft's defaults, instantiated afresh for every font) or a list of ready-made INSTANCES, which ufo2ft
    uses as they are for every font they are passed with"""
    if mode == "default":
        return None
    from ufo2ft.featureWriters import CursFeatureWriter, GdefFeatureWriter, KernFeatureWriter, MarkFeatureWriter
    if quant is not None:
        class QCurs(CursFeatureWriter):
            options = dict(quantization=1)

        class QGdef(GdefFeatureWriter):
            options = dict(quantization=1)
        return [QCurs(quantization=quant), KernFeatureWriter(), MarkFeatureWriter(), QGdef(quantization=quant)]
    ws = [CursFeatureWriter(), KernFeatureWriter(), MarkFeatureWriter(), GdefFeatureWriter()]
    return ws[-1:] + ws[:1] if mode == "gdef-curs-only" else ws


def _split_debug(text, n):
    """compileInterpolatable* writes `### family-style ###` before each master's feature text"""
    import re
    parts = re.split(r"(?m)^### .* ###$", text)
    return parts[1:] if len(parts) == n + 1 else None


def _designspace(ufos, rules):
    from fontTools.designspaceLib import AxisDescriptor, DesignSpaceDocument, RuleDescriptor, SourceDescriptor
    ds = DesignSpaceDocument()
    ax = AxisDescriptor()
    ax.name, ax.tag = "Weight", "wght"
    ax.minimum, ax.default, ax.maximum = 100, 100, 100 + 100 * max(1, len(ufos) - 1)
    ds.addAxis(ax)
    for k, u in enumerate(ufos):
        sd = SourceDescriptor()
        sd.name = "master%d" % k
        sd.font = u
        sd.familyName, sd.styleName = "C18", "M%d" % k
        sd.location = {"Weight": 100 + 100 * k}
        ds.addSource(sd)
    for k, subs in enumerate(rules):
        rd = RuleDescriptor()
        rd.name = "rule%d" % k
        rd.conditionSets = [[{"name": "Weight", "minimum": 150, "maximum": ax.maximum}]]
        rd.subs = [tuple(p) for p in subs]
        ds.addRule(rd)
    return ds


def _run_multi(case):
    """via = "seq": one compileTTF/OTF call per font, all with the SAME featureWriters list;
    "interp": compileInterpolatableTTFs/OTFs(ufos, featureWriters=...); "ds": compileInterpolatable*FromDS on a
    designspace whose <rule> substitutions reach the writers as compiler.extraSubstitutions"""
    import logging
    logging.disable(logging.CRITICAL)
    import ufo2ft
    via, fonts = case["via"], case["fonts"]
    otf = case["otf"] and via != "interp"       # there is no compileInterpolatableOTFs
    quant = case["quant"] if case["writers"] == "instances" else None
    writers = _writer_instances(case["writers"], quant)
    rules = case["rules"] if via == "ds" else []
    extras = [p for subs in rules for p in subs]
    if via == "seq":
        skips = [_skip_of(fc) for fc in fonts]
    elif via == "interp":      # union of the masters' lib keys
        u = []
        for fc in fonts:
            u += [n for n in _skip_of(fc) if n not in u]
        skips = [u] * len(fonts)
    else:                      # the designspace's lib key; the masters' keys are ignored
        skips = [list(case.get("dsSkip") or [])] * len(fonts)
    prep = [_prepare(fc, case["lib"], sk) for fc, sk in zip(fonts, skips)]
    for k, (u, _, _, _) in enumerate(prep):
        u.info.familyName, u.info.styleName = "C18", "M%d" % k
    tts, texts, errs = [None] * len(fonts), [""] * len(fonts), [None] * len(fonts)
    if via == "seq":
        for k, (u, _, _, _) in enumerate(prep):
            dbg = io.StringIO()
            try:
                kw = dict(featureWriters=writers, debugFeatureFile=dbg)
                tts[k] = _reread(ufo2ft.compileOTF(u, optimizeCFF=0, **kw) if otf else ufo2ft.compileTTF(u, **kw))
            except Exception as e:
                errs[k] = err_kind(e)
            texts[k] = dbg.getvalue()
    else:
        dbg = io.StringIO()
        try:
            kw = dict(featureWriters=writers, debugFeatureFile=dbg)
            ufos = [u for u, _, _, _ in prep]
            if via == "interp":
                out = list(ufo2ft.compileInterpolatableTTFs(ufos, **kw))
            else:
                ds = _designspace(ufos, rules)
                if case.get("dsSkip") is not None:
                    ds.lib["public.skipExportGlyphs"] = list(case["dsSkip"])
                res = (ufo2ft.compileInterpolatableOTFsFromDS if otf else ufo2ft.compileInterpolatableTTFsFromDS)(ds, **kw)
                out = [s.font for s in res.sources]
            tts = [_reread(t) for t in out]
            parts = _split_debug(dbg.getvalue(), len(fonts))
            if parts is None:
                errs = ["Malformed:debug feature file not one section per master"] * len(fonts)
            else:
                texts = parts
        except Exception as e:
            errs = [err_kind(e)] * len(fonts)
            tts = [None] * len(fonts)
    reqs = []
    for k, (fc, (_, fd, exported, n_user)) in enumerate(zip(fonts, prep)):
        tags = ["multi", "via:" + via, "writers:" + case["writers"], "otf" if otf else "ttf", case["lib"],
                "font#%d" % min(k, 3)]
        if k > 0 and fc["fd"].get("lib", {}).get("public.openTypeCategories") != \
                fonts[k - 1]["fd"].get("lib", {}).get("public.openTypeCategories"):
            tags.append("categories-differ-from-previous-font")
        if extras:
            tags.append("ds-rules")
        reqs.append(_observe(fc, fd, exported, n_user, tts[k] if errs[k] is None else None, texts[k], errs[k], quant,
                             extras, tags))
    return reqs


def _run_var(case):
    """compileVariableTTF (variable feature compilation: the writers see the designspace, context.isVariable) on full
    masters; observed: the LigatureCaretByPos statements of the final feature text, each caret a number or a variable
    scalar (its value per master), and the default coordinates of the compiled GDEF"""
    import logging
    import re
    logging.disable(logging.CRITICAL)
    import ufo2ft
    nm = case["masters"]
    ufos = []
    for k in range(nm):
        gl = [{"name": "a", "width": 500, "unicodes": [0x61], "contours": TRI, "components": [], "anchors": []}]
        for gname, per in case["glyphs"]:
            gl.append({"name": gname, "width": 500 + 10 * k, "unicodes": [], "contours": TRI, "components": [], "anchors": per[k]})
        u = build({"upm": 1000, "glyphs": gl, "info": {}, "lib": {}, "glyphOrder": None}, "ufoLib2")
        u.info.familyName, u.info.styleName = "C18", "M%d" % k
        ufos.append(u)
    order = list(range(nm))
    order.remove(case["dflt"])
    order.insert(0, case["dflt"])          # the default source is listed first
    ds = _designspace([ufos[k] for k in order], [])
    wght = {100 + 100 * j: j for j in range(nm)}     # location of the j-th source
    inp = {"dflt": 0, "glyphs": [[gname, [[[a[0], rat(a[1]), rat(a[2])] for a in per[k]] for k in order]]
                                 for gname, per in case["glyphs"]]}
    tags = ["var", "masters:%d" % nm]
    dbg = io.StringIO()
    try:
        vf = ufo2ft.compileVariableTTF(ds, debugFeatureFile=dbg)
        vf = _reread(vf)
    except Exception as e:
        return [{"op": "varcarets", "in": inp, "obs": {"err": err_kind(e)}, "tags": tags + ["err:" + err_kind(e)], "nontrivial": True}]
    obs, bad = [], None
    for line in dbg.getvalue().splitlines():
        m = re.match(r"\s*LigatureCaretByPos (\S+) (.*);\s*$", line)
        if not m:
            if "LigatureCaret" in line:
                bad = line
            continue
        carets = []
        for tok in re.findall(r"\([^)]*\)|[^\s()]+", m.group(2)):
            if tok.startswith("("):
                vals = [None] * nm
                for part in tok[1:-1].split():
                    loc, v = part.rsplit(":", 1)
                    mm = re.fullmatch(r"wght=(-?\d+(?:\.\d+)?)", loc)
                    if not mm or float(mm.group(1)) not in wght or not re.fullmatch(r"-?\d+", v):
                        bad = line
                        continue
                    vals[wght[float(mm.group(1))]] = int(v)
                carets.append(vals)
            elif re.fullmatch(r"-?\d+", tok):
                carets.append(int(tok))
            else:
                bad = line
        obs.append([m.group(1), carets])
    if bad is not None:
        return [{"op": "varcarets", "in": inp, "obs": {"err": "Malformed:caret statement"}, "tags": tags + ["err:malformed"], "nontrivial": True}]
    font = dict(L.font_carets(vf))
    # the writer walks the compiler's ordered glyph set
    pos = {g: k for k, g in enumerate(vf.getGlyphOrder())}
    inp["glyphs"].sort(key=lambda e: pos.get(e[0], 1 << 30))
    for g, cs in obs:
        if any(isinstance(c, list) for c in cs):
            tags.append("caret:variable")
        if any(isinstance(c, int) for c in cs):
            tags.append("caret:collapsed")
    req = {"op": "varcarets", "in": inp, "obs": obs, "tags": sorted(set(tags)), "nontrivial": bool(obs)}
    # the compiled table's default coordinates are those of the statements (checked in agree)
    req["fontDefault"] = [[g, font.get(g)] for g, _ in obs] + [[g, v] for g, v in sorted(font.items()) if g not in dict(obs)]
    return [req]


class _A:
    def __init__(self, name, x, y):
        self.name, self.x, self.y = name, x, y


class _Gl:
    def __init__(self, name, anchors):
        self.name = name
        self.anchors = [_A(*a) for a in anchors]


def _run_anchor(case):
    from types import SimpleNamespace
    from ufo2ft.featureWriters import BaseFeatureWriter
    w = BaseFeatureWriter()
    if case["quant"] is not None:
        w.options = SimpleNamespace(quantization=case["quant"])
    w.context = SimpleNamespace(isVariable=False, font={"g": _Gl("g", case["anchors"])})
    try:
        r = w._getAnchor("g", case["name"])
        obs = None if r is None else [rat(r[0]), rat(r[1])]
    except Exception as e:
        obs = ["err:" + err_kind(e), "0"]
    inp = {"anchors": [[a[0], rat(a[1]), rat(a[2])] for a in case["anchors"]], "name": case["name"],
           "quant": None if case["quant"] is None else rat(case["quant"])}
    return [{"op": "anchor", "in": inp, "obs": obs, "tags": ["unit:anchor", "quant" if case["quant"] else "noquant"],
             "nontrivial": obs is not None}]


def _run_cats(case):
    from types import SimpleNamespace
    from ufo2ft.util import OpenTypeCategories
    import logging
    logging.disable(logging.CRITICAL)
    font = SimpleNamespace(lib={"public.openTypeCategories": dict(case["categories"])},
                           info=SimpleNamespace(familyName="f", styleName="s"))
    c = OpenTypeCategories.load(font)
    obs = [sorted(c.unassigned), sorted(c.base), sorted(c.ligature), sorted(c.mark), sorted(c.component)]
    return [{"op": "cats", "in": {"categories": case["categories"]}, "obs": obs, "tags": ["unit:cats"],
             "nontrivial": any(obs)}]


def _run_pairs(case):
    from ufo2ft.featureWriters import CursFeatureWriter
    glyphs = [(n, _Gl(n, al)) for n, al in case["glyphs"]]
    try:
        ps = CursFeatureWriter._getCursiveAnchorPairs(glyphs)
        obs = {"err": None, "pairs": [list(p) for p in ps]}
    except Exception as e:
        obs = {"err": err_kind(e)}
    inp = {"glyphs": [[n, [[a[0], "0", "0"] for a in al]] for n, al in case["glyphs"]]}
    return [{"op": "pairs", "in": inp, "obs": obs, "tags": ["unit:pairs"], "nontrivial": bool(obs.get("pairs"))}]


def run(case):
    k = case["kind"]
    if k == "font":
        return _run_font(case)
    if k == "multi":
        return _run_multi(case)
    if k == "var":
        return _run_var(case)
    if k == "anchor":
        return _run_anchor(case)
    if k == "cats":
        return _run_cats(case)
    return _run_pairs(case)


def agree(req, rep):
    m, o = rep["model"], req["obs"]
    if req["op"] == "varcarets":
        if isinstance(o, dict):
            return False        # the model never fails
        def canon_(l):
            # carets with equal sort key come out in set-iteration order: compare them as a multiset
            return [[g, sorted(cs, key=lambda c: json.dumps(c))] for g, cs in l]
        def keys_(l):
            return [[g, [c if isinstance(c, int) else next(v for v in c if v is not None) for c in cs]] for g, cs in l]
        dflt = [[g, [c if isinstance(c, int) else c[0] for c in cs]] for g, cs in o]
        return canon_(m) == canon_(o) and keys_(m) == keys_(o) and \
            [[g, sorted(v or [])] for g, v in req.get("fontDefault", [])] == [[g, sorted(v)] for g, v in dflt]
    if req["op"] != "font":
        return json.dumps(m, sort_keys=True) == json.dumps(o, sort_keys=True)
    if m.get("err") is not None or o.get("err") is not None:
        return m.get("err") == o.get("err")
    if m["fea"] != o["fea"] or m["curs"] != o["curs"]:
        return False
    if m.get("dir") is not None and (o.get("dir") is None or m["dir"]["neutral"] != o["dir"]["neutral"] or
                                     (req["in"]["anyLtrCp"] and m["dir"]["ltr"] != o["dir"]["ltr"])):
        return False
    if m["font"]["classes"] is not None and sorted(m["font"]["classes"]) != o["font"]["classes"]:
        return False
    if m["font"]["carets"] is not None and sorted(m["font"]["carets"]) != o["font"]["carets"]:
        return False
    # every generated lookup has IgnoreMarks (+ RightToLeft) and nothing else, and hangs off a 'curs' feature
    return all(f == (9 if l[0] else 8) for f, l in zip(o["flags"], o["curs"])) and o["inCurs"]


def classify_failure(res):
    """recognise exactly the shapes of the genuine defects described in the report"""
    req = res["req"]
    if req["op"] == "varcarets":
        # variable path: `_getAnchor` looks caret anchors up by NAME in every source; of several of one name in a source the
        # last one's coordinate is emitted (once per anchor of that name), the others are lost
        info = res.get("info") or {}
        def dup(al):
            seen = {}
            for n, x, y in al:
                if n and (n.startswith("caret_") or n.startswith("vcaret_")):
                    v = x if n.startswith("caret_") else y
                    if n in seen and seen[n] != v:
                        return True
                    seen[n] = v
            return False
        if not isinstance(req["obs"], dict) and res["agree"] and info.get("holdsIfLastNamedOnly") \
                and any(dup(al) for _, per in req["in"]["glyphs"] for al in per):
            return {"kind": "same-named-caret-anchors-collapse-to-last", "path": "variable"}
        return None
    if req["op"] != "font":
        return None
    inp, obs, model = req["in"], req["obs"], res["model"]
    if obs.get("err") is not None:
        if obs["err"] == "FeatureLibError" and model.get("err") is None and len(inp["blocks"]) >= 2 \
                and not inp["blocks"][0][0] and any(b[0] for b in inp["blocks"][1:]):
            # the class definition emitted into the first block contradicts the user's one in a later block
            code = {"base": 1, "ligature": 2, "mark": 3, "component": 4}
            cats = dict((g, code.get(c)) for g, c in inp["categories"])
            exported = {g for g, _ in inp["glyphs"]}
            if any(g in exported and cats.get(g) is not None and cats[g] != c for g, c in inp["userClasses"]):
                return {"kind": "gdef-statement-in-later-user-block-ignored"}
        return None
    parts = model.get("_parts")
    if not parts:
        return None
    bad = sorted(k for k in ("classesFea", "caretsFea", "classesFont", "caretsFont", "curs", "dir") if not parts.get(k, True))
    # the static shape repaired in ufo2ft (kind "fixed" in known_findings.json): named whether or not the model agrees - the
    # model follows the repaired code, so a recurrence disagrees with it - and therefore always a VIOLATION
    if bad and set(bad) <= {"caretsFea", "caretsFont"} and parts["caretsIfFirstNamed"]:
        def dup(al):
            seen = {}
            for n, x, y in al:
                if n and (n.startswith("caret_") or n.startswith("vcaret_")):
                    v = x if n.startswith("caret_") else y
                    if n in seen and seen[n] != v:
                        return True
                    seen.setdefault(n, v)
            return False
        if any(dup(al) for _, al in inp["glyphs"]):
            return {"kind": "same-named-caret-anchors-collapse-to-first"}
    # the shape repaired in ufo2ft (first-block-only scan; kind "fixed"): named whether or not the model agrees, see above
    if bad and set(bad) <= {"classesFea", "caretsFea", "classesFont", "caretsFont"} and parts["gdefIfFirstBlockOnly"] \
            and len(inp["blocks"]) >= 2:
        first = inp["blocks"][0]
        later_cd = any(b[0] for b in inp["blocks"][1:]) and not first[0]
        later_car = any(b[1] for b in inp["blocks"][1:]) and not first[1]
        want = set()
        if later_cd:
            want |= {"classesFea", "classesFont"}
        if later_car:
            want |= {"caretsFea", "caretsFont"}
        if want and set(bad) <= want:
            return {"kind": "gdef-statement-in-later-user-block-ignored"}
    return None


def _shrink_fc(fc, keep=(), glyph_removal=True):
    """smaller versions of one font description (a "font" case itself, or one font of a "multi" case)"""
    fd = fc["fd"]
    gl = fd["glyphs"]
    used = {n for b in fc["blocks"] for c in (b["classdef"] or []) for n in c} | \
           {g for b in fc["blocks"] for g, _ in (b["carets"] or [])} | {n for p in fc["gsub"] for n in p} | set(keep) | \
           {n for r in (fc.get("gsubx") or []) for n in _rule_need(r) + list(r["out"])}
    gx = fc.get("gsubx") or []
    for i in range(len(gx)):
        yield dict(fc, gsubx=gx[:i] + gx[i + 1:])
    for key in ("gsub", "blocks"):
        if fc[key]:
            yield dict(fc, **{key: []})
    if fc["userCurs"]:
        yield dict(fc, userCurs=None)
    if glyph_removal:
        for i, g in enumerate(gl):
            if g["name"] not in used and len(gl) > 1 and (i > 0 or fc["userCurs"] is None and not fc["blocks"]):
                yield dict(fc, fd=dict(fd, glyphs=gl[:i] + gl[i + 1:]))
    lib = fd.get("lib", {})
    for k in list(lib):
        yield dict(fc, fd=dict(fd, lib={a: b for a, b in lib.items() if a != k}))
    cats = lib.get("public.openTypeCategories", {})
    for k in list(cats):
        yield dict(fc, fd=dict(fd, lib=dict(lib, **{"public.openTypeCategories": {a: b for a, b in cats.items() if a != k}})))
    for i, g in enumerate(gl):
        for j in range(len(g["anchors"])):
            g2 = dict(g, anchors=g["anchors"][:j] + g["anchors"][j + 1:])
            yield dict(fc, fd=dict(fd, glyphs=gl[:i] + [g2] + gl[i + 1:]))
    if fd.get("glyphOrder"):
        yield dict(fc, fd=dict(fd, glyphOrder=None))


def _shrink_multi(case):
    fonts = case["fonts"]
    if case["rules"]:
        yield dict(case, rules=[])
        for i in range(len(case["rules"])):
            yield dict(case, rules=case["rules"][:i] + case["rules"][i + 1:])
        for i, subs in enumerate(case["rules"]):
            for j in range(len(subs)):
                if len(subs) > 1:
                    yield dict(case, rules=case["rules"][:i] + [subs[:j] + subs[j + 1:]] + case["rules"][i + 1:])
    for k in range(len(fonts) - 1, -1, -1):
        if len(fonts) > 1:
            yield dict(case, fonts=fonts[:k] + fonts[k + 1:])
    if case["quant"] is not None:
        yield dict(case, quant=None)
    if case.get("dsSkip"):
        yield dict(case, dsSkip=None)
    keep = {n for subs in case["rules"] for p in subs for n in p}
    same_glyphs = case["via"] != "seq"
    if same_glyphs:
        # masters of one compile call keep the same glyph set: a glyph is removed from all of them at once
        common = [g["name"] for g in fonts[0]["fd"]["glyphs"]]
        for i, nm in enumerate(common):
            if i == 0 or nm in keep:
                continue
            if any(nm in {n for b in fc["blocks"] for c in (b["classdef"] or []) for n in c} |
                   {g for b in fc["blocks"] for g, _ in (b["carets"] or [])} | {n for p in fc["gsub"] for n in p} for fc in fonts):
                continue
            yield dict(case, fonts=[dict(fc, fd=dict(fc["fd"], glyphs=[g for g in fc["fd"]["glyphs"] if g["name"] != nm]))
                                    for fc in fonts])
        for key in ("gsub", "blocks"):
            if any(fc[key] for fc in fonts):
                yield dict(case, fonts=[dict(fc, **{key: []}) for fc in fonts])
    for k, fc in enumerate(fonts):
        for c in _shrink_fc(fc, keep, glyph_removal=not same_glyphs):
            if same_glyphs and (c["gsub"] != fc["gsub"] or c["blocks"] != fc["blocks"]):
                continue
            yield dict(case, fonts=fonts[:k] + [c] + fonts[k + 1:])


def _shrink_var(case):
    gl = case["glyphs"]
    for i in range(len(gl)):
        if len(gl) > 1:
            yield dict(case, glyphs=gl[:i] + gl[i + 1:])
    for i, (g, per) in enumerate(gl):
        for j in range(len(per[0])):     # the same anchor position in every master
            yield dict(case, glyphs=gl[:i] + [[g, [al[:j] + al[j + 1:] for al in per]]] + gl[i + 1:])
    if case["masters"] > 2:
        yield dict(case, masters=2, glyphs=[[g, per[:2]] for g, per in gl])


def shrink(case):
    if case["kind"] == "var":
        yield from _shrink_var(case)
        return
    if case["kind"] == "multi":
        yield from _shrink_multi(case)
        return
    if case["kind"] != "font":
        if case["kind"] == "anchor":
            for i in range(len(case["anchors"])):
                yield dict(case, anchors=case["anchors"][:i] + case["anchors"][i + 1:])
        if case["kind"] == "pairs":
            for i in range(len(case["glyphs"])):
                yield dict(case, glyphs=case["glyphs"][:i] + case["glyphs"][i + 1:])
        if case["kind"] == "cats":
            for i in range(len(case["categories"])):
                yield dict(case, categories=case["categories"][:i] + case["categories"][i + 1:])
        return
    if case["quant"] is not None:
        yield dict(case, quant=None)
    yield from _shrink_fc(case)


LEVEL_TEXT = ("Proved for all inputs (Lean, unbounded glyph sets / anchor lists / category maps): the GlyphClassDef the GDEF writer emits "
              "lists, per class, exactly the exported glyphs with that category, strictly sorted, classes disjoint, invalid categories and "
              "foreign names contributing nothing, and nothing is emitted when any of the user's GDEF blocks defines it; the compiled class "
              "of every glyph is the code of its category; each caret list is increasing and has exactly the otRound(quantize(.)) values of "
              "ALL the glyph's caret_/vcaret_ anchors, also of anchors sharing a name (strictly increasing, de-duplicated in the compiled "
              "font); in a variable build (masters with the same anchor names, caret names distinct within a glyph) the emitted carets "
              "take in every master exactly that master's rounded caret coordinates, ordered by the first master; every glyph with an entry or exit anchor of a "
              "present pair has its record with exactly the rounded coordinates and NULL for the missing side, in a lookup whose RightToLeft "
              "flag follows the suffix/LTR rule, where a glyph is left-to-right iff it is in the GSUB-closed left-to-right set or a designspace "
              "rule substitutes it for a glyph of that set (one step; C18_ltr_extras, C18_curs_flag), and the GSUB-closed left-to-right set itself "
              "(classifyDir, model of util.classifyGlyphs over an abstract rule list) contains the encoded left-to-right glyphs, is closed under "
              "every rule whose input and context glyphs are left-to-right OR script-neutral, holds no neutral-only glyph and nothing that no "
              "applicable rule produces (C18_dir_set, given that the closure rounds reached their fixed point, which the driver checks per "
              "input), with no other records and one record per "
              "(pair, glyph); writer instances used for a sequence of fonts give every font the output of a fresh build of that font "
              "(C18_seq, C18_seq_independent); quantize returns the nearest multiple (ties up).  Tied to the code by random fonts compiled "
              "end to end (single UFOs, sequences sharing writer instances, interpolatable masters, designspaces with rules) and read back "
              "from GDEF/GPOS and the feature text.")
LEVEL_NOTE = ("Trusted: Lean kernel + standard axioms; the correspondence harness and fontTools' decompilers/feaLib parser; direction data "
              "(LTR code points, GSUB closure) is an input taken from ufo2ft's own classifyGlyphs called without rule substitutions - the "
              "rule step itself is modelled and proved - EXCEPT in the neutral-context stream, where the closure is the model's own "
              "(classifyDir over the rules the harness wrote; fontTools' subsetter is external: that its closure of the compiled GSUB is the "
              "rule closure is observed there, predicate holdsDirSet evaluated by the Lean driver on the sets ufo2ft returned, not proved); a "
              "defect of classifyGlyphs' GSUB step outside the generated rule shapes (reverse-chaining, class-based contexts, alternates, "
              "feature-variation lookups) would not be seen; feaLib's compilation of the emitted statements is modelled and measured, not proved; "
              "static compilation is modelled (single UFOs and the per-master fonts of compileInterpolatable*) plus, of variable feature "
              "compilation, the ligature carets only (varcarets stream; the VariableScalar anchors of the curs writer are not).  That a writer instance carries nothing but its options from one write() to "
              "the next is the model's reading of BaseFeatureWriter.write (runSeq) and is measured, per font, on every multi-font case; "
              "a state leak that does not reach GDEF classes, carets or cursive lookups would not be seen.  One input shape on "
              "which the code departs from the property is a theorem hypothesis and a known finding: in the VARIABLE path only, caret anchors "
              "sharing a name (caretLast: _getAnchor looks them up by name per source and the last one wins).  Three shapes were repaired in "
              "ufo2ft and are ordinary inputs now: an unnamed anchor crashed the curs writer (87dd8ed, theorem C18_unnamed_anchor_ignored); "
              "in static builds same-named caret anchors collapsed to the first (aa2c05a: _getLigatureCarets hands the anchor to _getAnchor; "
              "old function caretValueOld); and GdefFeatureWriter.setContext scanned only the first user `table GDEF` block (now all blocks: "
              "C18_classes / C18_carets / C18_user_left_alone / C18_all have no block hypothesis any more; old function gdefTodoOld with a "
              "labelled counterexample).  classify_failure still names the repaired shapes so that a recurrence is a VIOLATION.")
