"""C06 - generated mark features make matching anchors coincide."""
import io
import re

import gpos
from ufo import build, err_kind, rat

ID = "C06"
PROOF_FILES = ["C06Parse", "C06Lists", "C06Classes", "C06Color", "C06Entries", "C06Inv", "C06Cov", "C06Exist", "C06Build", "C06Pipe", "C06Attach", "C06AttachBase", "C06AttachLig", "C06AttachMkmk", "C06Sound", "C06Complete", "C06Order", "C06OrderLig", "C06OrderMkmk", "C06", "C06Session"]
THEOREM = ("Ufo2ft.C06.C06_offset / C06_candidate / C06_sound / C06_ligature / C06_complete / C06_holds / C06_error / "
           "groups_no_shared_mark / colorGraph_is_proper / firstAvailable_smallest / C06_parse_shape / C06_parse_mark / "
           "C06_parse_lig / C06_parse_null / C06_candidate_order_partial / C06_offset_general / C06_ctx_offset / C06_ctx_holds / "
           "C06_frame / C06_plain_lookups_have_no_contextual_anchor / C06_ctx_split / C06_ctx_error / C06_modelX_error / C06_objectLibs_old_counterexample / C06_ctx_skip / C06_ctx_keyError_old_counterexample / C06_classes_injective / C06_collision_old_counterexample / C06_complete_general / C06_holds_general / C06_ctx_complete / C06_ctx_complete_holds / C06_ctx_ligature_last_wins_counterexample / C06_session_history_free / C06_session_holds / C06_candidate_order_base_partial / C06_candidate_order_mark_partial / C06_candidate_order_lig_partial / C06_candidate_order_lig_unique_partial / C06_candidate_order_mark_lig_partial / C06_candidate_order_mkmk_partial / C06_candidate_order_mkmk_feature_partial")
N = {"quick": 400, "thorough": 12000}
RULE = ("random 'anchor fonts': 2-10 glyphs in the roles base / ligature / mark / Indic-Khmer base+mark / odd, each with a random "
        "set of named anchors (plain, '_'-prefixed, numbered 'x_N' incl. gaps, key-less '_N', 'top.alt'-style, keys ending in a digit, "
        "duplicates, unnamed, ignorable, contextual-without-data, a few malformed names that must raise), coordinates on the 1/8 grid "
        "with x.5 values, quantization in {1,5,10,2.5,0.5}, groupMarkClasses on/off, GDEF classes absent / from public.openTypeCategories / "
        "from a GDEF table in the feature file (with deliberately inconsistent categories), Devanagari/Kannada/Khmer/multi-script code "
        "points with or without languagesystem statements (abvm/blwm routing), ufoLib2 and defcon; in a third of the fonts contextual anchors "
        "('*key', '*key.alt', '*key_N' with object-lib data GPOS_Context = '* X' / 'X * Y' / '* [X Y]' / '* @class' / 'lookupflag ...; * X', also "
        "empty libs, libs without the key, identifiers without lib entry, identifiers on glyphs without public.objectLibs, two-';' contexts, object libs on plain anchors).  The font is compiled with compileTTF "
        "and the MarkFeatureWriter, saved and reloaded; harness/gpos.py evaluates MarkBasePos/MarkLigPos/MarkMarkPos for EVERY ordered "
        "(glyph, glyph, component) triple, per feature (abvm, blwm, mark, mkmk) and over all four in lookup order (last wins).  The model's "
        "tables must be equal; `holds` (offset = qround(base) - qround(mark) of a matching source anchor pair; nothing else attached; every "
        "eligible pair attached) is evaluated on the observed tables.  non-trivial = at least one attachment and (a pair with two or more "
        "candidate keys, or a ligature attachment, or a mark-to-mark attachment, or an abvm/blwm lookup).  WRITER-HISTORY stream (40 % of the cases, "
        "second request of the case, tags reuse:* / prior:*): ONE MarkFeatureWriter instance first processes a PRIOR font - another master "
        "of the family: the same glyphs with every anchor moved (shift), some glyphs missing (subset), an extra glyph (superset), the same "
        "font (same) or a font whose write() raises (raises) - and then the case's font, either stand-alone (writer.write(font, feaFile) "
        "without FeatureCompiler; the generated text is compiled with feaLib into a bare TTFont) or through compileTTF(featureWriters=[w]) "
        "twice; kind fresh = stand-alone write with a new instance.  The model input is the case's font ALONE (no history), the tables must "
        "be equal and `holds` is evaluated on what the reused instance generated; non-trivial there additionally needs a prior that differs.")
ASSUMED = [
    "feaLib compiles `pos base|ligature|mark` statements and markClass definitions as written (one MarkArray per lookup from the classes it references; a later anchor for the same class in one statement overrides an earlier one) - exercised on every case through the compiled font",
    "the ordered glyph set, the GDEF glyph classes and the abvm / not-abvm glyph sets (Unicode script extensions) are inputs of the model; the harness computes them independently from the case description and fontTools.unicodedata",
    "the writer instance carries no per-font state between runs (write() creates self.context and deletes it in `finally`): the model is a function of the current font and the options only - not proved about the Python object, but exercised by the writer-history stream (same instance after another master / after a failed write, stand-alone and under compileTTF)",
    "anchor names are ASCII (Python's \\d and str.isalpha are Unicode-aware); pre-existing mark/mkmk/abvm/blwm feature blocks in the feature file (hand-written markClass definitions ARE modelled: input `pre`; the theorems assume none), variable fonts and GSUB closure of the abvm glyph set are not modelled",
]

BASE_KEYS = ["top", "bottom", "top.alt", "ogonek", "nukta", "bottomleft", "candra", "center", "top2", "topalt", "bottom.alt", "bottomcenter"]
ODD_KEYS = ["top-alt", "top+alt"]          # characters ast.makeFeaClassName strips (but feaLib can lex in a lookup name)
UNLEXABLE_KEY = "bottom'"                  # a character the feaLib lexer does not accept inside a name
BAD_NAMES = ["_", "_top_1", "top_0", "*", "__2", "*.x", "_0"]
QUIET_NAMES = ["*top", "*top.ctx", "1top", "#exit", "_1top", "", None, "entry", "exit", "top_", "_top2"]

BASES = [("a", 0x61), ("e", 0x65), ("o", 0x6F), ("c", 0x63), ("u", None), ("a.sc", None)]
LIGS = [("f_i", 0xFB01), ("f_f_i", 0xFB03), ("lam_alef", None), ("c_t", None)]
MARKS = [("acutecomb", 0x301), ("gravecomb", 0x300), ("dotbelowcomb", 0x323), ("tildecomb", 0x303), ("ogonekcomb", 0x328),
         ("acutecomb.case", None)]
INDIC = [("kaDeva", 0x915), ("nuktaDeva", 0x93C), ("candrabinduDeva", 0x901), ("kaKnda", 0xC95), ("kaKhmer", 0x1780),
         ("danda", 0x964), ("dottedCircle", 0x25CC), ("iMatraDeva", 0x93F), ("k_ssDeva", None)]


def _coord(rng):
    k = rng.randrange(-200, 801)
    r = rng.random()
    if r < 0.3:
        return k + 0.5
    if r < 0.45:
        return k + rng.randrange(8) / 8
    if r < 0.55:
        return 5 * (k // 5) + 2.5
    return k


def _anchor(rng, name):
    return [name, _coord(rng), _coord(rng)]


def gen(rng, n, mode):
    for idx in range(n):
        search = mode == "search"
        keys = rng.sample(BASE_KEYS, rng.choice([1, 2, 2, 3, 4]))
        collide = rng.random() < (0.03 if not search else 0.0)
        if collide:
            keys = list(dict.fromkeys(keys + ["topalt", rng.choice(ODD_KEYS)]))
        elif rng.random() < 0.03:
            keys.append(rng.choice(ODD_KEYS))
        elif rng.random() < (0.015 if not search else 0.0):
            keys.append(UNLEXABLE_KEY)
        indic = rng.random() < 0.35
        pools = [(BASES, "base", rng.choice([1, 1, 2, 3])), (LIGS, "lig", rng.choice([0, 0, 1, 2])),
                 (MARKS, "mark", rng.choice([1, 2, 2, 3, 4]))]
        if indic:
            pools.append((INDIC, "indic", rng.choice([1, 2, 3, 4])))
        glyphs = []
        for pool, role, k in pools:
            for nm, uv in rng.sample(pool, min(k, len(pool))):
                g = {"name": nm, "unicodes": [uv] if uv is not None and rng.random() < 0.9 else [], "role": role, "anchors": []}
                an = g["anchors"]
                r = role
                if role == "indic":
                    r = "mark" if nm in ("nuktaDeva", "candrabinduDeva", "iMatraDeva") else ("lig" if nm == "k_ssDeva" else "base")
                if rng.random() < 0.08:
                    r = rng.choice(["base", "lig", "mark"])      # a glyph that does not look like its role
                if r == "base":
                    for k_ in keys:
                        if rng.random() < 0.7:
                            an.append(_anchor(rng, k_))
                    if rng.random() < 0.15:
                        an.append(_anchor(rng, "_" + rng.choice(keys + ["lonely"])))   # looks like a mark
                    if rng.random() < 0.1:
                        an.append(_anchor(rng, rng.choice(keys) + "_" + str(rng.choice([1, 2]))))
                elif r == "lig":
                    ncomp = rng.choice([2, 2, 3, 4])
                    for c in range(1, ncomp + 1):
                        rr = rng.random()
                        if rr < 0.12:
                            an.append(_anchor(rng, "_%d" % c))
                            if rng.random() < 0.3:
                                an.insert(rng.randrange(len(an) + 1), _anchor(rng, rng.choice(keys) + "_%d" % c))
                        elif rr < 0.22:
                            pass                                   # a gap
                        else:
                            for k_ in keys:
                                if rng.random() < 0.6:
                                    num = "%d" % c if rng.random() < 0.93 else "0%d" % c
                                    an.append(_anchor(rng, k_ + "_" + num))
                    if rng.random() < 0.25:
                        an.append(_anchor(rng, rng.choice(keys)))
                    if rng.random() < 0.07:
                        an.append(_anchor(rng, "_" + rng.choice(keys)))
                else:
                    for k_ in rng.sample(keys, rng.choice([1, 1, 1, 2, min(3, len(keys))]) if len(keys) > 1 else 1):
                        an.append(_anchor(rng, "_" + k_))
                    if rng.random() < 0.4:
                        for k_ in keys:
                            if rng.random() < 0.5:
                                an.append(_anchor(rng, k_))          # mark-to-mark
                    if rng.random() < 0.05:
                        an.append(_anchor(rng, rng.choice(keys) + "_1"))
                if an and rng.random() < 0.12:
                    d = rng.choice(an)
                    an.insert(rng.randrange(len(an) + 1), _anchor(rng, d[0]))      # duplicate name, other position
                if rng.random() < 0.15:
                    an.insert(rng.randrange(len(an) + 1), _anchor(rng, rng.choice(QUIET_NAMES)))
                rng.shuffle(an) if rng.random() < 0.3 else None
                glyphs.append(g)
        if rng.random() < (0.25 if search else 0.04) and glyphs:
            g = rng.choice(glyphs)
            g["anchors"].insert(rng.randrange(len(g["anchors"]) + 1), _anchor(rng, rng.choice(BAD_NAMES)))
        rng.shuffle(glyphs) if rng.random() < 0.5 else None
        gm = rng.choice(["none", "none", "cats", "cats", "table"])
        cats = {}
        if gm != "none":
            for g in glyphs:
                r = rng.random()
                role = {"indic": "base"}.get(g["role"], g["role"])
                if g["name"] in ("nuktaDeva", "candrabinduDeva", "iMatraDeva"):
                    role = "mark"
                if g["name"] == "k_ssDeva":
                    role = "lig"
                if r < 0.8:
                    cats[g["name"]] = {"base": "base", "lig": "ligature", "mark": "mark"}[role]
                elif r < 0.9:
                    cats[g["name"]] = rng.choice(["base", "ligature", "mark", "component", "unassigned"][:3 if gm == "table" else 5])
        langsys = []
        if indic and rng.random() < 0.4:
            langsys = rng.choice([["DFLT", "dev2"], ["DFLT", "latn"], ["DFLT", "knd2", "khmr"], ["dev2"]])
        for g in glyphs:
            g.pop("role")
        # hand-written markClass definitions under the writer's own class names (@MC_<key>): same anchor -> reused, different
        # anchor (x or y) -> the writer must define a fresh class with the UFO's anchor
        premark = []
        quant = rng.choice([1, 1, 1, 5, 5, 10, 2.5, 0.5])
        if gm == "none" and rng.random() < 0.35:
            # (only without GDEF classes: a hand-written class naming a glyph that GDEF says is no mark is the user's own business)
            from fractions import Fraction
            import math
            qf = Fraction(quant)
            rnd = lambda v: math.floor(qf * math.floor(Fraction(v) / qf + Fraction(1, 2)) + Fraction(1, 2))
            for g in glyphs:
                for k_ in keys:
                    if re.fullmatch(r"[A-Za-z0-9.]+", k_) and [a[0] for a in g["anchors"]].count("_" + k_) == 1 and rng.random() < 0.7:
                        a = [a for a in g["anchors"] if a[0] == "_" + k_][0]
                        dx, dy = rng.choice([(0, 0), (0, 0), (0, 50), (0, -7), (30, 0), (5, 5)])
                        premark.append([g["name"], k_, rnd(a[1]) + dx, rnd(a[2]) + dy])
        case = {"glyphs": glyphs, "premark": premark, "quant": quant, "gdef": gm, "cats": cats,
                "group": rng.random() < 0.5, "lib": rng.choice(["ufoLib2", "ufoLib2", "defcon"]), "langsys": langsys,
                "writerLib": rng.random() < 0.2}
        if rng.random() < 0.35:
            _add_contextual(rng, case, keys, search)
        if rng.random() < 0.4:
            _add_reuse(rng, case, keys)
        yield case


def _add_reuse(rng, case, keys):
    """writer-history stream: ONE MarkFeatureWriter instance first processes a PRIOR font (another master of the family: same
    glyph names with all anchors moved / some glyphs missing / an extra glyph / the same font / a font whose write() raises)
    and then the case's font; `mode` = "write" (stand-alone writer.write(font, feaFile), no compiler) or "compile"
    (compileTTF(featureWriters=[w]) twice); kind "fresh" = stand-alone write with a new instance (no history)"""
    kind = rng.choice(["shift", "shift", "shift", "subset", "superset", "same", "raises", "fresh"])
    prior = []
    if kind != "fresh":
        for g in case["glyphs"]:
            an = [[a[0], a[1], a[2]] if kind == "same" else _anchor(rng, a[0]) for a in g["anchors"]]
            prior.append({"name": g["name"], "unicodes": list(g["unicodes"]), "anchors": an})
        if kind == "subset" and len(prior) > 1:
            for _ in range(rng.choice([1, 1, 2])):
                if len(prior) > 1:
                    prior.pop(rng.randrange(len(prior)))
        if kind == "superset":
            have = {g["name"] for g in prior}
            extra = [(nm, role) for pool, role in ((BASES, "base"), (MARKS, "mark")) for nm, _ in pool if nm not in have]
            for nm, role in rng.sample(extra, min(len(extra), rng.choice([1, 2]))):
                an = [_anchor(rng, ("_" if role == "mark" else "") + k_) for k_ in keys if rng.random() < 0.8]
                prior.insert(rng.randrange(len(prior) + 1), {"name": nm, "unicodes": [], "anchors": an})
        if kind == "raises" and prior:
            g = rng.choice(prior)
            g["anchors"].append(_anchor(rng, rng.choice(BAD_NAMES)))
    case["reuse"] = {"kind": kind, "mode": "write" if kind == "fresh" else rng.choice(["write", "write", "compile"]),
                     "prior": prior}


def _add_contextual(rng, case, keys, search):
    """contextual anchors: '*key[_N][.suffix]' with object-lib data {"GPOS_Context": "<context>"} (4th element of the anchor:
    {"ctx": str} | "nokey" (non-empty lib without the key) | "empty" ({}: counts as no data) | "idonly" (identifier, no entry)
    | "idnolib" (identifier on a glyph without public.objectLibs: no lib data)); contexts name glyphs / a class of the font"""
    glyphs = case["glyphs"]
    names = [g["name"] for g in glyphs]
    if len(names) < 2:
        return
    case["ctxclass"] = rng.sample(names, min(len(names), rng.choice([1, 2, 3]))) if rng.random() < 0.5 else []

    def context():
        x, y = rng.choice(names), rng.choice(names)
        t = rng.choice(["* X", "* X", "X *", "X * Y", "* & X", "* X &", "* [X Y]", " * X ", "X * & Y", "* @ctxcls",
                        "lookupflag UseMarkFilteringSet [X Y]; * X"])
        if "@ctxcls" in t and not case["ctxclass"]:
            t = "* X"
        if rng.random() < (0.02 if not search else 0.1):
            t = rng.choice(["a; b; * X", "   ", ""])
        return t.replace("X", x).replace("Y", y)

    pool = [context() for _ in range(rng.choice([1, 2, 2, 3]))]
    for g in glyphs:
        an = g["anchors"]
        plain = [a[0] for a in an if a[0] and re.fullmatch(r"[A-Za-z][A-Za-z0-9.]*", a[0])]
        lig = [a[0] for a in an if a[0] and re.fullmatch(r"[A-Za-z][A-Za-z0-9.]*_\d+", a[0])]
        if rng.random() < 0.6:
            for _ in range(rng.choice([1, 1, 2, 3])):
                r = rng.random()
                if lig and r < 0.5:
                    base = rng.choice(lig) if rng.random() < 0.7 else rng.choice(keys) + "_%d" % rng.choice([1, 2, 3])
                    stem, num = base.rsplit("_", 1)
                    nm = "*" + stem.split(".")[0] + "_" + num
                else:
                    k_ = rng.choice(plain) if plain and rng.random() < 0.6 else rng.choice(keys)
                    nm = "*" + k_.split(".")[0]
                if rng.random() < 0.5:
                    nm += rng.choice([".alt", ".ctx", ".a.b"])
                spec = rng.choice([{"ctx": rng.choice(pool)}] * 7 + ["nokey", "empty", "idonly"])
                an.insert(rng.randrange(len(an) + 1), _anchor(rng, nm) + [spec])
        if an and rng.random() < 0.1:
            a = rng.choice(an)
            if len(a) == 3:
                a.append(rng.choice([{"ctx": rng.choice(pool)}, "idonly", "nokey"]))      # object lib on a plain anchor: ignored
    if rng.random() < 0.08:
        # two contextual ligature anchors with the same context and key on different components (finding proposal: feaLib keeps
        # only the last `pos ligature` statement of the glyph in the referenced lookup)
        ligs = [g for g in glyphs if any(re.fullmatch(r"[A-Za-z][A-Za-z0-9.]*_\d+", a[0] or "") for a in g["anchors"])]
        if ligs:
            g = rng.choice(ligs)
            k_ = rng.choice(keys).split(".")[0]
            ctx = rng.choice(pool)
            for num in (1, 2):
                g["anchors"].append(_anchor(rng, "*%s_%d" % (k_, num)) + [{"ctx": ctx}])
    if rng.random() < 0.3:
        # anchors with an identifier on a glyph WITHOUT "public.objectLibs" (ordinary input since the repair of _getAnchorLists:
        # no lib data; a '*' anchor there is dropped like any contextual anchor without data)
        g = rng.choice(glyphs)
        for a in g["anchors"]:
            del a[3:]
        if rng.random() < 0.5:
            g["anchors"].insert(rng.randrange(len(g["anchors"]) + 1), _anchor(rng, "*" + rng.choice(keys).split(".")[0]))
        for a in rng.sample(g["anchors"], min(len(g["anchors"]), rng.choice([1, 1, 2]))):
            a.append("idnolib")


# ------------------------------------------------------------------ implementation side

def _fea(case):
    lines = [f"languagesystem {t} dflt;" for t in case["langsys"]]
    if case.get("ctxclass"):
        lines.append("@ctxcls = [%s];" % " ".join(case["ctxclass"]))
    have = {(g["name"], a[0]) for g in case["glyphs"] for a in g["anchors"]}
    for g, k, x, y in case.get("premark") or []:
        if (g, "_" + k) in have:
            lines.append("markClass %s <anchor %d %d> @MC_%s;" % (g, x, y, k))
    if case["gdef"] == "table":
        cls = {"base": [], "ligature": [], "mark": []}
        for g in case["glyphs"]:
            c = case["cats"].get(g["name"])
            if c in cls:
                cls[c].append(g["name"])
        f = lambda l: ("[" + " ".join(l) + "]") if l else ""
        lines.append("table GDEF { GlyphClassDef %s, %s, %s, ; } GDEF;" % (f(cls["base"]), f(cls["ligature"]), f(cls["mark"])))
    return "\n".join(lines)


def _pre_classes(case):
    """feaFile.markClasses as the hand-written `markClass` lines of _fea define them: [[class name, [[glyph, x, y], ...]], ...]
    in order of first appearance"""
    have = {(g["name"], a[0]) for g in case["glyphs"] for a in g["anchors"]}
    out = {}
    for g, k, x, y in case.get("premark") or []:
        if (g, "_" + k) in have:
            out.setdefault("MC_" + k, []).append([g, int(x), int(y)])
    return [[n, recs] for n, recs in out.items()]


def _gdef_input(case):
    if case["gdef"] == "none" or (case["gdef"] == "cats" and not any(
            c in ("unassigned", "base", "ligature", "mark", "component") for c in case["cats"].values())):
        return None
    names = [g["name"] for g in case["glyphs"]]
    pick = lambda c: [n for n in names if case["cats"].get(n) == c]
    return {"base": pick("base"), "lig": pick("ligature"), "mark": pick("mark")}


def _abvm_sets(case, order):
    """independent re-statement of MarkFeatureWriter._getAbvmGlyphs for fonts without GSUB:
    (abvm glyphs, not-abvm glyphs) from the Unicode script extensions of the mapped code points"""
    from fontTools import unicodedata as ud
    from ufo2ft.constants import INDIC_SCRIPTS, USE_SCRIPTS
    allabvm = set(INDIC_SCRIPTS) | set(USE_SCRIPTS) | {"Khmr"}
    scripts = set(allabvm)
    fs = {ud.ot_tag_to_script(t) for t in case["langsys"] if t != "DFLT"}
    if fs:
        scripts &= fs
    cmap = {}
    for g in case["glyphs"]:
        for u in g["unicodes"]:
            cmap[u] = g["name"]
    sx = lambda u: set(ud.script_extension(chr(u)))
    isabvm = lambda u: None if "Zyyy" in sx(u) else bool(sx(u) & scripts)
    if scripts and any(isabvm(u) for u in cmap):
        abvm = {g for u, g in cmap.items() if isabvm(u)}
        notabvm = {g for u, g in cmap.items() if sx(u) - allabvm} | (set(order) - abvm)
        return [g for g in order if g in abvm], [g for g in order if g in notabvm]
    return [], list(order)


FEATS = ["abvm", "blwm", "mark", "mkmk"]


def _trailing(name):
    name = name or ""
    if name.startswith("*"):
        name = name[1:].split(".")[0]
    m = re.search(r"(\d+)$", name)
    return int(m.group(1)) if m else 0


def _observe(tt, order, K):
    tabs = {f: [] for f in FEATS + ["all"]}
    lig = []
    if "GPOS" not in tt:
        return tabs, lig
    t = tt["GPOS"].table
    byfeat = {f: set() for f in FEATS}
    for fr in t.FeatureList.FeatureRecord:
        if fr.FeatureTag in byfeat:
            byfeat[fr.FeatureTag].update(fr.Feature.LookupListIndex)
    sets = {f: sorted(byfeat[f]) for f in FEATS}
    sets["all"] = sorted(set().union(*byfeat.values()))
    for f, idx in sets.items():
        if not idx:
            continue
        for b in order:
            for m in order:
                for c in [None] + list(range(K)):
                    off, _ = gpos.mark_attach(tt, idx, b, m, c)
                    if off is not None:
                        tabs[f].append([b, m, c, off[0], off[1]])
    for g in order:
        n = gpos.lig_component_count(tt, sets["all"], g)
        if n:
            lig.append([g, n])
    return tabs, lig


def _make_font(case, glyphs):
    names = [g["name"] for g in glyphs]
    order = [".notdef"] + names
    sq = [[[0, 0, "line"], [100, 0, "line"], [100, 100, "line"]]]
    sub = dict(case, glyphs=glyphs, ctxclass=[n for n in (case.get("ctxclass") or []) if n in names])
    fd = {"glyphs": [{"name": ".notdef", "width": 500, "contours": sq}] +
          [{"name": g["name"], "width": 500, "unicodes": g["unicodes"], "contours": sq,
            "anchors": [[a[0], a[1], a[2]] for a in g["anchors"]]} for g in glyphs],
          "glyphOrder": order, "features": _fea(sub), "lib": {}}
    if case["gdef"] == "cats" and case["cats"]:
        fd["lib"]["public.openTypeCategories"] = {k: v for k, v in case["cats"].items() if k in names}
    font = build(fd, case["lib"])
    _apply_object_libs(font, sub)
    return font, order


def _standalone_write(writer, font):
    """the writer used without a FeatureCompiler: parse the font's features, writer.write(font, feaFile), return the text"""
    from ufo2ft.featureCompiler import parseLayoutFeatures
    feaFile = parseLayoutFeatures(font)
    writer.write(font, feaFile)
    return feaFile.asFea()


def _compiler_text(font, writers):
    """the feature text the writer generated, as the FeatureCompiler sees it"""
    from ufo2ft.featureCompiler import FeatureCompiler
    fc = FeatureCompiler(font, featureWriters=writers)
    fc.setupFeatures()
    return fc.features


def run(case):
    from fontTools.ttLib import TTFont
    from ufo2ft import compileTTF
    from ufo2ft.featureWriters import MarkFeatureWriter
    import logging
    logging.getLogger("ufo2ft").setLevel(logging.CRITICAL)
    logging.getLogger("fontTools").setLevel(logging.CRITICAL)
    q = case["quant"]
    q = int(q) if float(q).is_integer() else q
    font, order = _make_font(case, case["glyphs"])
    kw = {}
    if case.get("writerLib"):
        font.lib["com.github.googlei18n.ufo2ft.featureWriters"] = [
            {"class": "MarkFeatureWriter", "options": {"quantization": q, "groupMarkClasses": case["group"]}}]
    else:
        kw["featureWriters"] = [MarkFeatureWriter(quantization=q, groupMarkClasses=case["group"])]
    K = max([1] + [n for g in case["glyphs"] for a in g["anchors"] for n in [_trailing(a[0])] if n <= 6])
    abvm, notabvm = _abvm_sets(case, order)
    inp = {"glyphs": [[".notdef", []]] + [[g["name"], [_anchor_input(g, a) for a in g["anchors"]]] for g in case["glyphs"]],
           "gdef": _gdef_input(case), "quant": rat(q), "group": case["group"], "abvm": abvm, "notAbvm": notabvm, "K": K,
           "pre": _pre_classes(case)}

    def compiled():
        tt = compileTTF(font, **kw)
        buf = io.BytesIO(); tt.save(buf)
        tt = TTFont(io.BytesIO(buf.getvalue()))
        return tt, lambda: _compiler_text(font, kw.get("featureWriters"))

    reqs = [_request(case, inp, order, K, abvm, notabvm, compiled, [])]
    ru = case.get("reuse")
    if ru:
        # the SAME font again, but produced by a writer instance with a history: the model (a function of this font alone) must
        # still agree and the predicate (offsets from THIS font's anchors) must hold of what the reused instance generates
        w = MarkFeatureWriter(quantization=q, groupMarkClasses=case["group"])
        prior_err = None
        if ru["kind"] != "fresh":
            pfont, _ = _make_font(case, ru["prior"])
            try:
                if ru["mode"] == "write":
                    _standalone_write(w, pfont)
                else:
                    compileTTF(pfont, featureWriters=[w])
            except Exception as e:
                prior_err = err_kind(e)
        font2, _ = _make_font(case, case["glyphs"])

        def reused():
            if ru["mode"] == "write":
                from fontTools.feaLib.builder import addOpenTypeFeaturesFromString
                txt = _standalone_write(w, font2)
                tt = TTFont()
                tt.setGlyphOrder(list(order))
                addOpenTypeFeaturesFromString(tt, txt)
                return tt, lambda: txt
            tt = compileTTF(font2, featureWriters=[w])
            buf = io.BytesIO(); tt.save(buf)
            tt = TTFont(io.BytesIO(buf.getvalue()))
            return tt, lambda: _compiler_text(font2, [w])

        differs = ru["kind"] not in ("fresh", "same")
        extra = ["reuse:" + ru["mode"], "prior:" + ru["kind"]] + (["prior-raised:" + prior_err] if prior_err else [])
        r2 = _request(case, inp, order, K, abvm, notabvm, reused, extra)
        r2["nontrivial"] = r2["nontrivial"] and differs
        reqs.append(r2)
    return reqs


def _request(case, inp, order, K, abvm, notabvm, produce, extra_tags):
    err = None
    try:
        tt, txt = produce()
        tabs, lig = _observe(tt, order, K)
        obs = {"err": None, "tables": tabs, "ligCount": lig, "ctx": _observe_ctx(tt, txt, order, K, case)}
    except Exception as e:
        err = err_kind(e)
        obs = {"err": err}
        if err == "KeyError":
            obs["errMsg"] = str(e)[:80]
    q = case["quant"]
    q = int(q) if float(q).is_integer() else q
    tags = ["gdef:" + case["gdef"], "group" if case["group"] else "single", "quant:%s" % q, case["lib"]] + list(extra_tags)
    if case.get("premark"):
        tags.append("predefined-markClass")
    specs = [_spec(a) for g in case["glyphs"] for a in g["anchors"] if _spec(a) is not None]
    if specs:
        tags.append("object-libs")
    for sp in specs:
        t = "objlib:" + ("context" if isinstance(sp, dict) else sp)
        if t not in tags:
            tags.append(t)
    nontrivial = False
    if err is not None:
        tags.append("err:" + err)
        nontrivial = True
    else:
        al = tabs["all"]
        tags.append("attachments:%s" % ("0" if not al else "1-9" if len(al) < 10 else "10+"))
        for f in FEATS:
            if tabs[f]:
                tags.append("feature:" + f)
        if any(e[2] is not None for e in al):
            tags.append("lig-attach")
        if tabs["mkmk"]:
            tags.append("mkmk-attach")
        if abvm:
            tags.append("abvm-glyphs")
        multi = _multi_candidate(case)
        if multi:
            tags.append("multi-candidate")
        if _collision(case):
            tags.append("class-name-collision")
        if any(re.fullmatch(r"_\d+", a[0] or "") for g in case["glyphs"] for a in g["anchors"]):
            tags.append("null-anchor")
        if any(len({a[0] for a in g["anchors"]}) < len(g["anchors"]) for g in case["glyphs"]):
            tags.append("dup-name")
        tags += _branch_tags(case, tt, abvm, notabvm)
        for f in ("mark", "mkmk"):
            c = obs["ctx"][f]
            if c["ref"]:
                tags.append("contextual:%s" % f)
                if any(any(e[2] is not None for e in t_) for t_ in c["ref"]):
                    tags.append("contextual:ligature")
                if len(c["disp"]) > 1 or any(d[0] for d in c["disp"]):
                    tags.append("contextual:lookupflag-dispatch")
                if any(t_ for t_ in c["ref"]):
                    nontrivial = True
        if _ctx_lig_collapse(case):
            tags.append("proposal:contextual-ligature-anchors-same-context-on-two-components")
        if obs["ctx"]["checked"]:
            tags.append("contextual:compiled-rules-checked-against-text")
        if obs["ctx"]["unparsed"]:
            tags.append("contextual:statement-outside-harness-grammar")
        nontrivial = bool(al) and (multi or "lig-attach" in tags or bool(tabs["mkmk"]) or bool(tabs["abvm"]) or bool(tabs["blwm"]))
    return {"op": "font", "in": inp, "obs": obs, "tags": tags, "nontrivial": nontrivial}


def _spec(a):
    return a[3] if len(a) > 3 else None


def _glyph_has_objectlibs(g):
    return any(_spec(a) is not None and _spec(a) != "idnolib" for a in g["anchors"])


def _anchor_input(g, a):
    """[name, x, y, lib, idNoLib]: lib = the GPOS_Context of a non-empty object lib ("" without the key), else null"""
    sp = _spec(a)
    lib = sp["ctx"] if isinstance(sp, dict) else ("" if sp == "nokey" else None)
    return [a[0] or "", rat(a[1]), rat(a[2]), lib, sp == "idnolib" and not _glyph_has_objectlibs(g)]


def _apply_object_libs(font, case):
    for g in case["glyphs"]:
        glyph = font[g["name"]]
        for i, a in enumerate(g["anchors"]):
            sp = _spec(a)
            if sp is None:
                continue
            anc = glyph.anchors[i]
            anc.identifier = "anchor%02d" % i
            if sp in ("idnolib",):
                continue
            libs = glyph.lib.setdefault("public.objectLibs", {})
            if sp == "idonly":
                continue
            libs[anc.identifier] = {"GPOS_Context": sp["ctx"]} if isinstance(sp, dict) else ({"com.example.other": 1} if sp == "nokey" else {})


def _parse_pos_text(text, classes):
    """restricted reader of a dispatch statement `pos A [B C] @MC_x' lookup NAME D;` ->
    (backtrack sets, input set, lookahead sets, lookup name); None when the statement is outside the restricted grammar"""
    m = re.fullmatch(r"pos (.*);", text.strip())
    if not m:
        return None
    toks = re.findall(r"\[[^\]]*\]'?|[^\s\[\]]+", m.group(1))
    back, inp, ahead, name = [], None, [], None
    i = 0
    while i < len(toks):
        t = toks[i]
        marked = t.endswith("'")
        t0 = t[:-1] if marked else t
        if t0.startswith("["):
            st = set()
            for x in t0[1:-1].split():
                if x.startswith("@"):
                    if x[1:] not in classes:
                        return None
                    st |= classes[x[1:]]
                else:
                    st.add(x)
        elif t0.startswith("@"):
            if t0[1:] not in classes:
                return None
            st = set(classes[t0[1:]])
        else:
            st = {t0}
        if marked:
            if inp is not None or i + 2 >= len(toks) or toks[i + 1] != "lookup":
                return None
            inp, name = st, toks[i + 2]
            i += 3
            continue
        (back if inp is None else ahead).append(st)
        i += 1
    if inp is None:
        return None
    return back, inp, ahead, name


def _expand(back, inp, ahead, nested):
    import itertools
    out = set()
    for b in itertools.product(*[sorted(x) for x in back]):
        for m in sorted(inp):
            for a in itertools.product(*[sorted(x) for x in ahead]):
                out.add((b, m, a, nested))
    return out


def _observe_ctx(tt, txt, order, K, case):
    """contextual part: the dispatch lookups as the writer wrote them (feature text), the attachment table of every
    referenced lookup in the compiled GPOS (via the chaining rules that refer to it), and whether the compiled chaining
    rules say what the text says"""
    out = {f: {"ref": [], "disp": []} for f in ("mark", "mkmk")}
    out["compiledOK"] = True
    out["checked"] = 0
    out["unparsed"] = 0
    if "GPOS" not in tt:
        return out
    t = tt["GPOS"].table
    lookups = t.LookupList.Lookup
    feat_chain = {"mark": [], "mkmk": []}
    for fr in t.FeatureList.FeatureRecord:
        if fr.FeatureTag in feat_chain:
            for li in fr.Feature.LookupListIndex:
                lk = lookups[li]
                typ = lk.SubTable[0].ExtensionLookupType if lk.LookupType == 9 else lk.LookupType
                if typ == 8 and li not in feat_chain[fr.FeatureTag]:
                    feat_chain[fr.FeatureTag].append(li)
    if not any(feat_chain.values()):
        return out
    # the text the writer generated
    txt = txt()
    classes = {}
    for m in re.finditer(r"markClass (\S+) <anchor [^>]*> @(\S+);", txt):
        classes.setdefault(m.group(2), set()).add(m.group(1))
    if case.get("ctxclass"):
        classes["ctxcls"] = set(case["ctxclass"])
    for f, prefix in (("mark", "ContextualMark"), ("mkmk", "ContextualMarkToMark")):
        chains = sorted(feat_chain[f])
        compiled = []
        nested = []
        for li in chains:
            rs = gpos.chain_rules(tt, li)
            compiled.append(rs)
            for r in rs:
                for _, ni in r["records"]:
                    if ni not in nested:
                        nested.append(ni)
        nested.sort()
        for ni in nested:
            tab = []
            for b in order:
                for m in order:
                    for c in [None] + list(range(K)):
                        off, _ = gpos.mark_attach(tt, [ni], b, m, c)
                        if off is not None:
                            tab.append([b, m, c, off[0], off[1]])
            out[f]["ref"].append(tab)
        blocks = re.findall(r"lookup (%sDispatch_\d+) \{\n(.*?)\n\} \1;" % prefix, txt, flags=re.S)
        for bi, (nm, body) in enumerate(blocks):
            lines = [l.strip() for l in body.split("\n") if l.strip()]
            before = ""
            if lines and not lines[0].startswith("#"):
                before = lines[0][:-1] if lines[0].endswith(";") else lines[0]
                lines = lines[1:]
            pairs = [[lines[j], lines[j + 1]] for j in range(0, len(lines) - 1, 2)]
            out[f]["disp"].append([before, pairs])
            # compiled rules against the text (restricted grammar)
            want = set()
            okparse = True
            for _, pos in pairs:
                p = _parse_pos_text(pos, classes)
                if p is None:
                    okparse = False
                    break
                back, inp, ahead, name = p
                want |= _expand(back, inp, ahead, int(name.rsplit("_", 1)[1]))
            if not okparse:
                out["unparsed"] += 1
            if okparse:
                out["checked"] += 1
                got = set()
                if bi < len(compiled):
                    for r in compiled[bi]:
                        if len(r["input"]) != 1 or len(r["records"]) != 1 or r["records"][0][0] != 0:
                            out["compiledOK"] = False
                            continue
                        got |= _expand(r["back"], r["input"][0], r["ahead"], nested.index(r["records"][0][1]))
                # feaLib drops glyph sequences a previous rule of the same lookup already covers: compare what applies first
                if got != want:
                    out["compiledOK"] = False
                    out["compiledDiff"] = [sorted(map(repr, got - want))[:3], sorted(map(repr, want - got))[:3]]
        if len(blocks) != len(chains):
            out["compiledOK"] = False
    return out


def _branch_tags(case, tt, abvm, notabvm):
    """which corners of the writer the case reaches (from the case description and the compiled lookups)"""
    out = []
    for g in case["glyphs"]:
        names = [a[0] or "" for a in g["anchors"]]
        for i, n in enumerate(names):
            m = re.fullmatch(r"_(\d+)", n)
            if m and any(re.fullmatch(r"[A-Za-z].*_0*%d" % int(m.group(1)), x) for x in names[:i]):
                out.append("branch:null-anchor-resets-component")
        if len({n for n in names if n.startswith("_") and len(n) > 1 and not n[1:].isdigit()}) >= 2:
            out.append("branch:mark-glyph-with-2+-mark-anchors")
        if case["gdef"] != "none" and any(n.startswith("_") and len(n) > 1 for n in names) and case["cats"].get(g["name"]) != "mark":
            out.append("branch:underscore-anchor-on-non-GDEF-mark")
    if set(abvm) & set(notabvm):
        out.append("branch:glyph-both-abvm-and-not")
    if "GPOS" in tt:
        nb = nl = nm = 0; maxcls = 0
        for lk in tt["GPOS"].table.LookupList.Lookup:
            for st in lk.SubTable:
                typ = lk.LookupType
                if typ == 9:
                    typ, st = st.ExtensionLookupType, st.ExtSubTable
                if typ in (4, 5, 6):
                    maxcls = max(maxcls, st.ClassCount)
                nb += typ == 4; nl += typ == 5; nm += typ == 6
        for nm_, x in (("base", nb), ("lig", nl), ("mkmk", nm)):
            out.append("lookups-%s:%s" % (nm_, x if x < 3 else "3+"))
        if maxcls >= 2:
            out.append("branch:lookup-with-2+-mark-classes")
    san = {}
    for g in case["glyphs"]:
        ns = {a[0] for a in g["anchors"] if (a[0] or "").startswith("_") and len(a[0]) > 1}
        cl = {}
        for n in ns:
            cl.setdefault(re.sub(r"[^A-Za-z0-9._]", "", n), set()).add(n)
        if any(len(v) > 1 for v in cl.values()):
            out.append("branch:colliding-mark-anchors-on-one-glyph")
    return sorted(set(out))


def _keys_of(g, mark):
    out = set()
    for a in g["anchors"]:
        n = a[0] or ""
        if mark and n.startswith("_") and len(n) > 1:
            out.add(n[1:])
        if not mark and n and not n.startswith("_"):
            out.add(re.sub(r"_\d+$", "", n))
    return out


def _multi_candidate(case):
    """some (glyph, mark) pair shares two or more anchor keys"""
    for b in case["glyphs"]:
        kb = _keys_of(b, False)
        for m in case["glyphs"]:
            if len(kb & _keys_of(m, True)) >= 2:
                return True
    return False


def _collision(case):
    """two different '_'-anchor names that ast.makeFeaClassName maps to the same mark class name"""
    names = {a[0] for g in case["glyphs"] for a in g["anchors"] if (a[0] or "").startswith("_") and len(a[0]) > 1}
    san = {}
    for n in names:
        san.setdefault(re.sub(r"[^A-Za-z0-9._]", "", n), set()).add(n)
    return any(len(v) > 1 for v in san.values())


def agree(req, rep):
    m, o = rep["model"], req["obs"]
    if (o.get("err") == "FeatureLibError" and m.get("err") is None
            and _unlexable_mkmk(req.get("case", {"glyphs": []}))):
        # finding "mkmk-lookup-name-unlexable": the crash happens inside feaLib's lexer, which the model does not contain;
        # the request still FAILS (holds = false) and is matched against known_findings.json
        return True
    if m.get("err") is not None or o.get("err") is not None:
        return m.get("err") == o.get("err")
    key = lambda e: (e[0], e[1], -1 if e[2] is None else e[2])
    for f in FEATS + ["all"]:
        if sorted(m["tables"][f], key=key) != sorted(o["tables"][f], key=key):
            return False
    # contextual part: the dispatch statements as text, the referenced lookups as attachment tables (same order), and the
    # compiled chaining rules must say what the text says
    oc, mc = o["ctx"], m["ctx"]
    if not oc.get("compiledOK", True):
        return False
    for f in ("mark", "mkmk"):
        if mc[f]["disp"] != oc[f]["disp"] or len(mc[f]["ref"]) != len(oc[f]["ref"]):
            return False
        for a, b in zip(mc[f]["ref"], oc[f]["ref"]):
            if sorted(a, key=key) != sorted(b, key=key):
                return False
    return sorted(m["ligCount"]) == sorted(o["ligCount"])


NAME_CONT = set("ABCDEFGHIJKLMNOPQRSTUVWXYZabcdefghijklmnopqrstuvwxyz0123456789_.+*:^~!/-")


def _unlexable_mkmk(case):
    """an anchor key with a character feaLib cannot lex in a name, used for mark-to-mark: some glyph has `_k`, and some
    glyph carrying a '_' anchor also carries `k` (the writer names the lookup "mark2mark_" + k without sanitising)"""
    allnames = {a[0] for g in case["glyphs"] for a in g["anchors"] if a[0]}
    for g in case["glyphs"]:
        names = [a[0] or "" for a in g["anchors"]]
        if not any(n.startswith("_") and len(n) > 1 for n in names):
            continue
        for n in names:
            if n and not n.startswith("_") and set(n) - NAME_CONT and ("_" + n) in allnames:
                return True
    return False


def _ctx_key_error(case, msg):
    """`KeyError: 'k'` where some glyph carries a contextual anchor '*k[_N][.suffix]' with GPOS_Context data"""
    m = re.fullmatch(r"'([^']*)'", msg.strip())
    if not m:
        return False
    for g in case["glyphs"]:
        for a in g["anchors"]:
            n = a[0] or ""
            if n.startswith("*") and isinstance(_spec(a), dict):
                stem = n[1:].split(".")[0]
                if re.sub(r"_\d+$", "", stem) == m.group(1):
                    return True
    return False


def _ctx_lig_collapse(case):
    """finding PROPOSAL (not listed): two contextual ligature anchors of one glyph with the same GPOS_Context and the same key
    on DIFFERENT components ('*top_1', '*top_2', both "* x"): _makeMarkFeature makes one `pos ligature G …` statement per
    anchor (only its own component filled) in ONE referenced lookup, feaLib keeps the last statement of a glyph, so the
    earlier component loses its contextual attachment (C06_ctx_ligature_last_wins_counterexample)"""
    out = []
    for g in case["glyphs"]:
        seen = {}
        for a in g["anchors"]:
            n = a[0] or ""
            if not (n.startswith("*") and isinstance(_spec(a), dict)):
                continue
            stem = n[1:].split(".")[0]
            m = re.fullmatch(r"(.*)_(\d+)", stem)
            if not m or not _spec(a)["ctx"].strip():
                continue
            k = (m.group(1), _spec(a)["ctx"].strip())
            seen.setdefault(k, set()).add(int(m.group(2)))
        out += [(g["name"],) + k for k, nums in seen.items() if len(nums) > 1]
    return out


def _premark_collision(case):
    """a hand-written `markClass … @MC_k` and a mark anchor name '_k2' (k2 != k) with makeFeaClassName("MC_k2") == "MC_k"""
    have = {(g["name"], a[0]) for g in case["glyphs"] for a in g["anchors"]}
    pre = {k for g, k, x, y in (case.get("premark") or []) if (g, "_" + k) in have}
    names = {a[0] for g in case["glyphs"] for a in g["anchors"] if (a[0] or "").startswith("_") and len(a[0]) > 1}
    for n in names:
        k2 = n[1:]
        for k in pre:
            if k2 != k and re.sub(r"[^A-Za-z0-9._]", "", "MC" + n) == "MC_" + k:
                return True
    return False


def classify_failure(res):
    """names the shape of a failure from the observation and the case (never from what the model predicts): the one finding
    still open - FeatureLibError because "mark2mark_<key>" is not a lexable lookup name - and the three repaired ones, which
    known_findings.json lists as "fixed" so that a recurrence is a VIOLATION"""
    r = res["req"]
    # crashes (KeyError) on well-formed fonts with object-lib data / contextual anchors
    # (the first one is REPAIRED: the model no longer predicts it; it is named from the observation alone, so that - listed as
    # "fixed" in known_findings.json - a recurrence of `KeyError: 'public.objectLibs'` is reported as a VIOLATION)
    if r["obs"].get("err") == "KeyError" and "public.objectLibs" in r["obs"].get("errMsg", ""):
        return {"finding": "anchor-identifier-without-objectLibs"}
    # (REPAIRED as well, named from the observation alone: KeyError with a bare anchor key out of the compile, and the font has
    # a contextual anchor with lib data of that key)
    if r["obs"].get("err") == "KeyError" and _ctx_key_error(r["case"], r["obs"].get("errMsg", "")):
        return {"finding": "contextual-anchor-without-mark-class"}
    if res["model"].get("err") is not None:
        return None
    if r["obs"].get("err") == "FeatureLibError" and _unlexable_mkmk(r["case"]):
        return {"finding": "mkmk-lookup-name-unlexable"}
    if r["obs"].get("err") is not None:
        return None
    # residue of the same root cause that the repair does not reach: a HAND-WRITTEN class @MC_k of the feature file and a
    # different mark anchor name '_k2' whose sanitised class name is also MC_k - the writer puts the '_k2' marks into the user's class
    if _premark_collision(r["case"]):
        return {"finding": "handwritten-markclass-name-collision"}
    # (REPAIRED: two different mark anchor names that ast.makeFeaClassName reduces to the same class name used to share one
    # mark class; named from the case - colliding names present - and a failing predicate on a font that compiled)
    if _collision(r["case"]):
        return {"finding": "markclass-name-collision"}
    # finding proposal (never listed here): the predicate excludes this shape (C06_ctx_complete has the proviso), so a failure
    # on such a font is named after it only to make a future, stricter predicate report it recognisably
    if r["obs"].get("err") is None and _ctx_lig_collapse(r["case"]):
        return {"finding": "contextual-ligature-last-statement-wins"}
    return None


def shrink(case):
    gl = case["glyphs"]
    # a glyph that a context string or the context class names cannot be removed (feaLib would reject the font)
    used = set(case.get("ctxclass") or [])
    for g in gl:
        for a in g["anchors"]:
            if isinstance(_spec(a), dict):
                used.update(re.findall(r"[A-Za-z_][A-Za-z0-9_.]*", _spec(a)["ctx"]))
    for i in range(len(gl)):
        if gl[i]["name"] in used:
            continue
        c = dict(case); c["glyphs"] = gl[:i] + gl[i + 1:]
        yield c
    for i, g in enumerate(gl):
        for j in range(len(g["anchors"])):
            g2 = dict(g); g2["anchors"] = g["anchors"][:j] + g["anchors"][j + 1:]
            c = dict(case); c["glyphs"] = gl[:i] + [g2] + gl[i + 1:]
            yield c
    ru = case.get("reuse")
    if ru and ru["prior"]:
        pr = ru["prior"]
        for i in range(len(pr)):
            c = dict(case); c["reuse"] = dict(ru, prior=pr[:i] + pr[i + 1:])
            yield c
        for i, g in enumerate(pr):
            for j in range(len(g["anchors"])):
                g2 = dict(g); g2["anchors"] = g["anchors"][:j] + g["anchors"][j + 1:]
                c = dict(case); c["reuse"] = dict(ru, prior=pr[:i] + [g2] + pr[i + 1:])
                yield c
    if case["gdef"] != "none":
        c = dict(case); c["gdef"] = "none"; c["cats"] = {}
        yield c
    if case["langsys"]:
        c = dict(case); c["langsys"] = []
        yield c
    if case["quant"] != 1:
        c = dict(case); c["quant"] = 1
        yield c


LEVEL_TEXT = ("Proved in Lean for ALL inputs (any number of glyphs/anchors/classes) about the model of the MarkFeatureWriter under "
              "'last lookup wins' shaper semantics: every attachment produced by the generated mark/mkmk/abvm/blwm lookups (all of them or "
              "any sub-list) is qround(anchor on b) - qround(anchor on m) for source anchors named k (or k_N for ligature component N) and _k "
              "(C06_offset/C06_candidate/C06_ligature); no matching names => no attachment, incl. NULL ligature gaps (C06_sound); every "
              "eligible pair is attached, through mark-to-base, mark-to-mark or mark-to-ligature, in default and groupMarkClasses mode, with "
              "abvm/blwm routing (C06_complete); the Bool predicates evaluated on observed fonts hold of the model's tables (C06_holds); the "
              "writer rejects exactly the fonts with a malformed anchor name (C06_error); greedy colouring is proper and total and no lookup "
              "group holds two classes sharing a mark glyph; parseAnchorName is characterised in both directions. Tied to /repo by compiling "
              "random anchor fonts and evaluating the compiled GPOS with harness/gpos.py for every (glyph, glyph, component) triple, per "
              "feature and over all features - also for the second and later fonts written by one writer instance (stand-alone write() and "
              "compileTTF with a shared instance), where the same single-font model and predicates must hold.")
LEVEL_NOTE = ("Writer re-use (one instance, several fonts) is covered by correspondence + predicate on observed output only: the model has "
              "no instance state to carry over, so a memo that survives `del self.context` shows as a failing input of the unchanged "
              "single-font predicates (offset not from this font's anchors / eligible pair unattached / attachment without source anchors); "
              "in the stand-alone mode the GPOS is built by feaLib from the writer's text into a bare TTFont (in memory, no save/reload). "
              "Hypothesis `wf`: glyph names distinct, every glyph in the abvm or the not-abvm set, no hand-written mark class, no object-lib "
              "data; anchor names are arbitrary - names that ast.makeFeaClassName reduces to the same class name get different classes "
              "(C06_classes_injective; the old merging is kept as C06_collision_old_counterexample). One finding is open: a key that "
              "feaLib cannot lex in a lookup name breaks mark-to-mark. WHICH candidate wins when several keys match (the property allows "
              "any): proved for the mark-to-base lookups of any one feature in the default mode (Props/C06Order.lean, "
              "C06_candidate_order_base_partial, and for all lookups of the `mark` feature C06_candidate_order_mark_partial: the lookups are one per anchor key in ascending key order, the last applicable lookup "
              "wins, so the pair of the GREATEST matching key that passes the feature's anchor filter is attached, at exactly its "
              "anchor difference; hypotheses on the anchor lists of _getAnchorLists; non-vacuity example with keys top / top.alt). The same "
              "is proved for the mark-to-ligature lookups of any one feature in the default mode, per component number (Props/C06OrderLig.lean, "
              "C06_candidate_order_lig_partial: for (ligature, component N, mark) the attachment goes through a plain anchor k_N of the GREATEST matching key k; "
              "hypothesis: component N is not reset by a key-less `_N` anchor; because `top_1` and `top_01` are two anchors of the same key and number the "
              "conclusion is `some anchor of that key and number`, and exactly the given pair when that anchor is unique - C06_candidate_order_lig_unique_partial; "
              "C06_candidate_order_mark_lig_partial = all lookups of the `mark` feature for a component query), and for the mark-to-mark lookups of any one "
              "feature in BOTH modes (these lookups are per key in either mode; Props/C06OrderMkmk.lean, C06_candidate_order_mkmk_partial, and the whole "
              "`mkmk` feature C06_candidate_order_mkmk_feature_partial); each with a two-key non-vacuity example. Not "
              "proved: the winner in groupMarkClasses mode for mark-to-base / mark-to-ligature (out of scope: depends on the greedy colouring; last colour group in sort order), "
              "which of several same-key same-number ligature anchors wins, ligature components reset by `_N`, the composition across features (abvm, blwm, mark, mkmk order) and the restatement on source "
              "anchors - those are tied by correspondence only (C06_candidate_order_partial gives the key order of the groups). Trusted: Lean kernel "
              "+ standard axioms; the correspondence harness and harness/gpos.py; feaLib's compilation of the generated statements; GDEF "
              "classes / abvm glyph sets / glyph order are inputs. Contextual anchors ('*' + GPOS_Context object-lib data) are modelled (Model/C06Ctx.lean): proved are the soundness of every contextual attachment (C06_ctx_offset), that plain lookups never use a contextual anchor and stay sound in their presence (C06_offset_general), the exact frame without object-lib data (C06_frame) and the error conditions; completeness of the contextual lookups (C06_ctx_complete: referenced lookup of the right feature attaches, context dispatched; proviso: no second contextual anchor of the glyph with the same context and key - otherwise false, C06_ctx_ligature_last_wins_counterexample) and of the plain lookups when object-lib data is present (C06_complete_general); both predicates are also evaluated on the observed font. The dispatch (chaining) statements are compared as generated feature TEXT; the compiled ChainContextPos rules are checked against that text by the harness (restricted grammar) and the referenced lookups are evaluated in the compiled GPOS. Not modelled: contexts without '*' (feaLib rejects them), append mode and "
              "variable fonts, GSUB closure of abvm glyphs. Hand-written markClass definitions are modelled (compared exactly) but outside `wf`: the theorems assume the feature file defines none.")
