"""C13 - non-exported glyphs vanish without altering the remaining glyphs."""
import io

from gen import outline_font
from geom import fd_glyphs_json, snap_glyphset
from ufo import build, rat

ID = "C13"
PROOF_FILES = ["Geom", "Reverse", "Render", "GoodCert", "C13"]
THEOREM = "Ufo2ft.C13.C13_render / C13_resolve / C13_order_listed (+ Render.runFilter_sameRender)"
N = {"quick": 240, "thorough": 4000}
RULE = ("(a) SkipExportGlyphsFilter applied to random component graphs (depth<=4, mirrors/shears/rotations, shared bases) with random skip "
        "subsets biased to glyphs used as components, compared glyph-for-glyph with the Lean model; (b) compileOTF / compileTTF with and "
        "without the skip list (argument or lib; default layer or a second layer via layerName): glyph order, hmtx, cmap and (CFF) every "
        "remaining glyph's contour multiset; (c) skip-list resolution through compileInterpolatableTTFs on several UFOs with different "
        "lib lists, with/without argument, and through a designspace lib. non-trivial = some skipped glyph is used as a component of a "
        "remaining glyph (directly or nested).")
ASSUMED = ["TrueType outlines of a glyph that stays composite in one build and is decomposed in the other are rounded at different stages: TTF outlines are not compared exactly (order, metrics and cmap are)",
           "generated kerning / mark positioning between remaining glyphs is covered by the C05/C06 checks"]


def _font(rng, quadfree=True):
    mats = ["id", "id", "mirrorx", "mirrory", "rot90", "swap", "half", "shear", "sc15", "mirrorshear"]
    fd = outline_font(rng, nglyphs=rng.choice([3, 4, 6, 9]), kinds=("line", "line", "curve"), grid=8, half=0.3, mats=mats,
                      maxdepth=4, pcomp=0.6, mixed=0.3, offstart=True, offgrid=8, widthhalf=0.2)
    used = [c[0] for g in fd["glyphs"] for c in g["components"]]
    names = [g["name"] for g in fd["glyphs"]]
    skip = [n for n in names if (n in used and rng.random() < 0.5) or rng.random() < 0.15]
    cps = iter(range(0x41, 0x80))
    for g in fd["glyphs"]:
        if rng.random() < 0.7:
            g["unicodes"] = [next(cps)]
    return fd, names, skip


def gen(rng, n, mode):
    for i in range(n):
        kind = ["filter", "compile", "compile", "resolve"][i % 4]
        fd, names, skip = _font(rng)
        if kind == "filter":
            if rng.random() < 0.1:
                skip = skip + ["absent.glyph"]
            if not skip:
                # an empty list never reaches the filter on the public paths (`if skipExportGlyphs:` in from_layer); called
                # directly with [] a fresh filter object raises AttributeError - that is C14's statelessness finding
                skip = [names[-1]]
            yield {"kind": kind, "fd": fd, "skip": skip, "lib": rng.choice(["ufoLib2", "defcon"])}
        elif kind == "compile":
            layer = rng.random() < 0.3
            if layer:
                alt = []
                for g in fd["glyphs"]:
                    g2 = dict(g)
                    g2["contours"] = [[[x + 7, y - 3, t] for x, y, t in c] for c in g["contours"]]
                    g2["width"] = g["width"] + 10
                    alt.append(g2)
                fd["layers"] = {"alt": alt}
            yield {"kind": kind, "fd": fd, "skip": skip, "lib": rng.choice(["ufoLib2", "defcon"]), "via": rng.choice(["arg", "lib"]),
                   "otf": rng.random() < 0.7, "layer": layer, "tol": rng.choice([None, 0.25])}
        else:
            k = rng.choice([2, 3])
            libs = [[nm for nm in names if rng.random() < 0.25] for _ in range(k)]
            arg = None if rng.random() < 0.6 else [nm for nm in names if rng.random() < 0.25]
            ds = rng.random() < 0.35
            dslib = [nm for nm in names if rng.random() < 0.25] if ds else None
            for g in fd["glyphs"]:   # keep masters trivially compatible and decomposition-free
                g["components"] = []
                if not g["contours"]:
                    g["contours"] = [[[0, 0, "line"], [10, 0, "line"], [5, 8, "line"]]]
            yield {"kind": kind, "fd": fd, "libs": libs, "arg": arg, "dsLib": dslib}


def _ops(tt, name):
    from props.C01 import _ops as f
    return f(tt, name)


def run(case):
    import ufo2ft
    from fontTools.ttLib import TTFont
    fd = case["fd"]
    if case["kind"] == "filter":
        from ufo2ft.filters.skipExportGlyphs import SkipExportGlyphsFilter
        from ufo2ft.util import _GlyphSet
        font = build(fd, case["lib"])
        gs = _GlyphSet.from_layer(font, copy=True)
        before = snap_glyphset(gs)
        obs = {"err": None}
        try:
            mod = SkipExportGlyphsFilter(list(case["skip"]))(font, gs)
            obs["glyphs"] = snap_glyphset(gs); obs["modified"] = sorted(mod)
        except Exception as e:
            obs = {"err": type(e).__name__}
        used = {c[0] for g in fd["glyphs"] if g["name"] not in case["skip"] for c in g["components"]}
        return [{"op": "filter", "in": {"glyphs": before, "skip": case["skip"]}, "obs": obs,
                 "tags": ["filter", case["lib"], "err:" + str(obs.get("err"))],
                 "nontrivial": bool(used & set(case["skip"]))}]
    if case["kind"] == "compile":
        skip = case["skip"]
        res = {}
        for which in ("full", "skip"):
            font = build(fd, case["lib"])
            kw = {"useProductionNames": False}
            if case["otf"]:
                kw["optimizeCFF"] = 0
                if case["tol"] is not None:
                    kw["roundTolerance"] = case["tol"]
            if case["layer"]:
                kw["layerName"] = "alt"
            if which == "skip":
                if case["via"] == "arg":
                    kw["skipExportGlyphs"] = list(skip)
                else:
                    font.lib["public.skipExportGlyphs"] = list(skip)
            try:
                tt = (ufo2ft.compileOTF if case["otf"] else ufo2ft.compileTTF)(font, **kw)
                buf = io.BytesIO(); tt.save(buf); buf.seek(0)
                res[which] = TTFont(buf)
            except Exception as e:
                res[which] = type(e).__name__
        src = fd["layers"]["alt"] if case["layer"] else fd["glyphs"]
        tol = 0.5 if case["tol"] is None else case["tol"]
        if isinstance(res["full"], str):
            return []   # the font does not compile even without a skip list: not a C13 case
        full = res["full"]
        inp = {"tol": rat(tol), "glyphs": fd_glyphs_json({"glyphs": src}), "skip": skip, "orderFull": full.getGlyphOrder(),
               "advFull": [[g, full["hmtx"][g][0]] for g in full.getGlyphOrder()],
               "cmapFull": sorted([u, g] for u, g in full.getBestCmap().items()), "outlines": bool(case["otf"])}
        if isinstance(res["skip"], str):
            obs = {"err": res["skip"]}
        else:
            tt = res["skip"]
            order = tt.getGlyphOrder()
            obs = {"err": None, "order": order, "adv": [[g, tt["hmtx"][g][0]] for g in order],
                   "cmap": sorted([u, g] for u, g in tt.getBestCmap().items()),
                   "glyphs": [[g, _ops(tt, g)] for g in order if g != ".notdef"] if case["otf"] else []}
        used = {c[0] for g in src if g["name"] not in skip for c in g["components"]}
        return [{"op": "compile", "in": inp, "obs": obs,
                 "tags": ["compile", "otf" if case["otf"] else "ttf", "via:" + case["via"], "layer" if case["layer"] else "default",
                          case["lib"], "err:" + str(obs.get("err"))],
                 "nontrivial": bool(used & set(skip))}]
    # resolve
    from fontTools.designspaceLib import AxisDescriptor, DesignSpaceDocument, SourceDescriptor
    fonts = []
    for lib in case["libs"]:
        f = build(fd, "ufoLib2")
        if lib:
            f.lib["public.skipExportGlyphs"] = list(lib)
        fonts.append(f)
    names = [g["name"] for g in fd["glyphs"]]
    try:
        if case["dsLib"] is not None:
            ds = DesignSpaceDocument()
            a = AxisDescriptor(); a.name = "Weight"; a.tag = "wght"; a.minimum = 0; a.maximum = len(fonts) - 1; a.default = 0
            ds.addAxis(a)
            for i, f in enumerate(fonts):
                s = SourceDescriptor(); s.font = f; s.location = {"Weight": i}; s.name = "m%d" % i
                ds.addSource(s)
            ds.lib["public.skipExportGlyphs"] = list(case["dsLib"])
            out = ufo2ft.compileInterpolatableTTFsFromDS(ds, useProductionNames=False)
            tts = [s.font for s in out.sources]
        else:
            kw = {} if case["arg"] is None else {"skipExportGlyphs": list(case["arg"])}
            tts = list(ufo2ft.compileInterpolatableTTFs(fonts, useProductionNames=False, **kw))
        effs = [sorted(set(names) - set(t.getGlyphOrder())) for t in tts]
        obs = effs[0] if all(e == effs[0] for e in effs) else ["<masters disagree>"] + effs[0]
    except Exception as e:
        obs = ["<error %s>" % type(e).__name__]
    return [{"op": "resolve", "in": {"arg": case["arg"], "libs": case["libs"], "dsLib": case["dsLib"]}, "obs": obs,
             "tags": ["resolve", "ds" if case["dsLib"] is not None else ("arg" if case["arg"] is not None else "libs")],
             "nontrivial": len({tuple(l) for l in case["libs"]}) > 1}]


def agree(req, rep):
    m, o = rep["model"], req["obs"]
    if req["op"] == "resolve":
        return m == o
    if m.get("err") is not None or o.get("err") is not None:
        return (m.get("err") is not None) == (o.get("err") is not None)
    if req["op"] == "filter":
        return m["glyphs"] == o["glyphs"] and m["modified"] == o["modified"]
    return m["order"] == o["order"] and m["adv"] == o["adv"] and m["cmap"] == o["cmap"] and \
        [list(g) for g in m["glyphs"]] == [list(g) for g in o["glyphs"]]


def shrink(case):
    if case["kind"] == "resolve":
        return
    gl = case["fd"]["glyphs"]
    for i in range(len(gl) - 1, -1, -1):
        nm = gl[i]["name"]
        if any(c[0] == nm for g in gl for c in g["components"]):
            continue
        c = dict(case); c["fd"] = dict(case["fd"]); c["fd"]["glyphs"] = gl[:i] + gl[i + 1:]
        if "layers" in case["fd"]:
            c["fd"]["layers"] = {"alt": [g for g in case["fd"]["layers"]["alt"] if g["name"] != nm]}
        c["skip"] = [s for s in case["skip"] if s != nm]
        yield c


LEVEL_TEXT = ("Proved (Lean, all inputs): for any skip list over an acyclic glyph set with non-singular components and closed contours, the "
              "model of SkipExportGlyphsFilter leaves exactly the non-skipped names in the same relative order; every remaining glyph keeps "
              "advance, height and anchors, references no skipped glyph, and draws the same multiset of contours as before (any traversal "
              "order); skip-list resolution rule; the listed part of the glyph order commutes with filtering. Tied to the code by applying "
              "the real filter and by compiling with and without skip lists (argument/lib/layerName/several UFOs/designspace).")
LEVEL_NOTE = ("Trusted: Lean kernel + standard axioms; correspondence harness; TTF outlines with/without skipping are not compared exactly "
              "(rounding happens at different stages); kerning/marks between remaining glyphs belong to C05/C06.")
