"""C16 - any valid font info compiles; explicit values win, absent ones fall back; generated PostScript names are clean."""
import io
import unicodedata

import lib_C16 as L
from ufo import err_kind, rat

ID = "C16"
PROOF_FILES = ["C16", "C16Seq", "C16Names"]
THEOREM = ("Ufo2ft.C16.deps_rank / C16_total / C16_fuel_irrelevant / C16_explicit_attr / C16_fallback_system / "
           "C16_fallback_unique / C16_rows / C16_explicit / C16_fallback / C16_derived / C16_names / C16_names_compile / "
           "C16_gasp / C16_font / C16_psname / C16_psname_string / C16_psname_ascii / "
           "C16_intListToNum / C16_compiles_partial / C16_compiles_false / C16_infocompiler_total / "
           "C16_infocompiler_rows / C16_infocompiler_missing_table / C16_infocompiler_seq / C16_infocompiler_seq_source / "
           "C16_infocompiler_seq_rows / C16_infocompiler_seq_plain / C16_infocompiler_seq_total / "
           "C16_names_merge / C16_names_merge_lookup / C16_names_merge_order / C16_names_merge_update / C16_names_update / "
           "C16_names_override / C16_infocompiler_names / C16_infocompiler_names_merge")
N = {"quick": 260, "thorough": 6000}
EXHAUSTIVE = True
RULE = ("exhaustive: normalizeNameForPostscript on every Unicode scalar value (1 112 064 code points, NFKD of each supplied "
        "to the model), intListToNum on every subset of 10 bits x three (start, length) windows, the fallback call graph "
        "observed by tracing getAttrWithFallback; random: subsets of the 96 font-info attributes (inclusion probability "
        "0/8/25/50/80/100 %) with UFO3-valid values (ufoLib's validators are applied to every generated value): names from "
        "ASCII / Latin-1 / beyond Latin-1 / astral / NFKD-leaky pools, zero values, fractional values where the spec allows "
        "floats, bit lists, zone lists, name and gasp records; each info goes (a) through getAttrWithFallback for every "
        "attribute and (b) through compileTTF or compileOTF with ufoLib2 or defcon, observed in memory and after save+reload; "
        "plus InfoCompiler overrides on a compiled font (an empty override set is not applied, as in PostProcessor); HISTORIES on the "
        "same source objects: 2-3 fonts post-processed from one source with mostly disjoint override sets, some later ones "
        "empty - two thirds through compileVariableTTFs/compileVariableCFF2s on a two-master designspace (custom axis) with "
        "one <variable-font> element per override set (public.fontInfo), one third by compile + InfoCompiler on the same UFO "
        "object, ufoLib2 (75 %) or defcon - each font checked against (original source info + ITS OWN overrides), then the "
        "source's info read back (must be unchanged) and the same object compiled once more (must be the compile of the "
        "original info); random strings through normalizeStringForPostscript, IEEE "
        "double arithmetic samples, and a small malformed stream (odd zone lists, short panose, wrong family class). "
        "non-trivial = at least 5 explicit attributes and at least 5 special fallbacks taken.")
ASSUMED = [
    "unicodedata.normalize('NFKD', c), math.tan(math.radians(x)) and time.strptime are inputs to the model (computed by the harness with the same library calls)",
    "IEEE binary64 rounding is modelled by `fl` on exact rationals (measured against Python floats on every run; overflow/subnormals not modelled; numeric attributes below 2^53)",
    "str.lower()/title() are modelled on ASCII only: no non-ASCII character lowercases to a letter of the four style-map names (checked over all of Unicode by the harness)",
    "fontTools' binary packers accept the generated magnitudes (16-bit fields); CFF PrivateDict defaults are fontTools'",
    "public.openTypePostUnderlinePosition lib key absent",
    "variable-font histories: what fontTools.varLib does to a merged font is not modelled (fvar/STAT name records are left out of the observation; a custom axis tag is used because varLib.build overwrites usWeightClass / usWidthClass / italicAngle for wght / wdth / slnt); those requests are predicate-only (agree = True); the predicates evaluated there (rows, holdsNamesOverride, PostScript name) are proved of the model's InfoCompiler applied to a plain compile of the source info, not of varLib's merged font",
    "the order of name records is observed only in memory on the direct InfoCompiler path (fontTools sorts the table at save; varLib fonts are compared as sorted lists); record lists with duplicate keys never reach InfoCompiler from a compile, so that part of C16_names_merge is not exercised by the correspondence",
]

SPECIALS = None


def _specials():
    global SPECIALS
    if SPECIALS is None:
        from ufo2ft import fontInfoData as F
        SPECIALS = list(F.specialFallbacks)
    return SPECIALS


# ------------------------------------------------------------------ generation

BLOCK = 1024


def gen(rng, n, mode):
    thorough = n > 1000
    # exhaustive: every scalar value through normalizeNameForPostscript
    los = [lo for lo in range(0, 0x110000, BLOCK) if not (0xD800 <= lo < 0xE000)]
    for i in range(0, len(los), 16):
        yield {"kind": "chars", "los": los[i:i + 16]}
    yield {"kind": "graph"}
    yield {"kind": "bits", "width": 10 if not thorough else 12}
    yield {"kind": "float", "seed": rng.randrange(1 << 30), "n": 300 if not thorough else 3000}
    for i in range(max(4, n // 8)):
        yield {"kind": "norm", "seed": rng.randrange(1 << 30)}
    for i in range(n):
        otf = rng.random() < 0.5
        info = L.gen_info(rng, mode, otf)
        yield {"kind": "font", "info": info, "otf": otf, "lib": rng.choice(["ufoLib2", "ufoLib2", "defcon"]),
               "optimize": otf and rng.random() < 0.1}
    for i in range(max(8, n // 6)):
        otf = rng.random() < 0.4
        base = L.gen_info(rng, mode, otf, namekind=rng.choice(["ascii", "latin1"]))
        over = L.gen_info(rng, mode, False)
        keep = rng.sample(sorted(over), min(len(over), rng.choice([1, 2, 4, 8, 30])))
        over = {k: over[k] for k in keep}
        lib = rng.choice(["ufoLib2", "defcon"])
        if L.spec_valid(base) or L.spec_valid(over):
            lib = "ufoLib2"      # defcon's info object refuses values its validators reject
        yield {"kind": "infocompiler", "base": base, "over": over, "otf": otf, "lib": lib}
    # histories: several fonts post-processed from the SAME source objects (several <variable-font> elements of one
    # designspace, or direct re-use of a UFO), override sets mostly disjoint, some empty; then the source is read back
    # and compiled once more
    for i in range(max(10, n // 8)):
        yield gen_history(rng, mode)
    for i in range(max(6, n // 25)):
        otf = rng.random() < 0.6
        info = L.gen_info(rng, mode, otf, namekind="ascii")
        r = rng.random()
        if r < 0.4:
            info[rng.choice(["postscriptBlueValues", "postscriptOtherBlues"])] = [0, 10, 20]
            info.pop("postscriptBlueScale", None)
        elif r < 0.7:
            info["openTypeOS2Panose"] = [1, 2, 3]
        else:
            info["openTypeOS2FamilyClass"] = rng.choice([[1], [1, 2, 3], []])
        yield {"kind": "font", "info": info, "otf": otf, "lib": "ufoLib2", "optimize": False, "malformed": True}


def gen_history(rng, mode):
    via = rng.choice(["direct", "variable", "variable"])
    otf = rng.random() < 0.4
    base = L.gen_info(rng, mode, otf, namekind=rng.choice(["ascii", "latin1"]))
    pool = L.gen_info(rng, mode, False)
    for _ in range(3):
        if len(pool) >= 6:
            break
        pool.update(L.gen_info(rng, "normal", False))
    keys = sorted(pool)
    rng.shuffle(keys)
    overs = []
    for j in range(rng.choice([2, 2, 3])):
        r = rng.random()
        if r < 0.2 and j > 0:
            overs.append({})                      # a later font WITHOUT public.fontInfo
        elif r < 0.85:
            k = rng.choice([1, 2, 4, 8])          # disjoint from the earlier ones
            overs.append({a: pool[a] for a in keys[:k]}); keys = keys[k:]
        else:
            ks = rng.sample(sorted(pool), min(len(pool), rng.choice([1, 3, 6])))   # may overlap
            overs.append({a: pool[a] for a in ks})
    lib = rng.choice(["ufoLib2", "ufoLib2", "ufoLib2", "defcon"])
    if L.spec_valid(base) or any(L.spec_valid(o) for o in overs):
        lib = "ufoLib2"
    return {"kind": "history", "via": via, "base": base, "overs": overs, "otf": otf, "lib": lib}


# ------------------------------------------------------------------ running the implementation

def _attr_requests(info, tags):
    from ufo2ft import fontInfoData as F
    font = L.build_font(info, "ufoLib2")
    env = L.make_env(info)
    edges = set()
    stack = []
    orig = F.getAttrWithFallback

    def traced(i, attr):
        if stack:
            edges.add((stack[-1], attr))
        stack.append(attr)
        try:
            return orig(i, attr)
        finally:
            stack.pop()
    obs = {}
    F.getAttrWithFallback = traced
    try:
        for a in L.all_attrs():
            try:
                obs[a] = L.enc_val(a, traced(font.info, a))
            except Exception as e:  # the code under test failing is an observation
                obs[a] = {"err": err_kind(e)}
    finally:
        F.getAttrWithFallback = orig
    taken = sum(1 for a in _specials() if info.get(a) is None)
    nt = len(info) >= 5 and taken >= 5
    inp = {"info": L.enc_info(info), "env": env}
    return [{"op": "attrs", "in": inp, "obs": obs, "tags": tags + ["attrs"], "nontrivial": nt},
            {"op": "edges", "in": {}, "obs": sorted(map(list, edges)), "tags": tags + ["edges"], "nontrivial": nt}], edges


def _compile(font, otf, optimize):
    from ufo2ft import compileOTF, compileTTF
    if otf:
        return compileOTF(font, optimizeCFF=2 if optimize else 0)
    return compileTTF(font)


def _font_tags(info, otf, lib):
    t = ["otf" if otf else "ttf", lib, "explicit:%d" % (10 * (len(info) // 10))]
    names = "".join(str(info.get(k) or "") for k in L.CFF_BOUND)
    if any(ord(c) > 255 for c in names):
        t.append("names:beyond-latin1")
    elif any(ord(c) > 127 for c in names):
        t.append("names:latin1")
    else:
        t.append("names:ascii")
    if info.get("italicAngle"):
        t.append("italic")
    if all(info.get(k) is not None for k in ("openTypeVheaVertTypoAscender", "openTypeVheaVertTypoDescender", "openTypeVheaVertTypoLineGap")):
        t.append("vertical")
    for k, tag in (("postscriptBlueValues", "blues"), ("postscriptStemSnapH", "stems"), ("openTypeNameRecords", "name-records"),
                   ("openTypeGaspRangeRecords", "gasp"), ("postscriptFontName", "psname-explicit")):
        if info.get(k):
            t.append(tag)
    if info.get("postscriptFontName") is None:
        t.append("psname-generated")
    if info.get("italicAngle") and info.get("openTypeHheaCaretSlopeRun") is not None and info.get("openTypeHheaCaretSlopeRise") is None:
        t.append("rise-from-run")
    if info.get("xHeight") == 0:
        t.append("xheight-zero")
    zero = [k for k, v in info.items() if v in (0, "", []) and v is not False]
    if zero:
        t.append("has-falsy-explicit")
    return t


def _run_font(case):
    from fontTools.ttLib import TTFont
    info, otf, lib = case["info"], case["otf"], case["lib"]
    tags = _font_tags(info, otf, lib)
    bad = L.spec_valid(info)
    if case.get("malformed"):
        tags.append("malformed")
    elif bad:
        tags.append("type-valid-only")
    else:
        tags.append("spec-valid")
    reqs, _ = _attr_requests(info, tags)
    env = L.make_env(info)
    inp = {"info": L.enc_info(info), "env": env, "otf": otf, "cffWritten": bool(otf and case.get("optimize"))}
    taken = sum(1 for a in _specials() if info.get(a) is None)
    nt = len(info) >= 5 and taken >= 5
    font = L.build_font(info, lib)
    try:
        tt = _compile(font, otf, case.get("optimize"))
        if otf and case.get("optimize"):
            # the subroutiniser serialises the CFF table inside compileOTF (only success/failure is of interest here:
            # what it does to the table is C12's subject); the fields are read from an unoptimised compile
            tt = _compile(L.build_font(info, lib), otf, False)
        o1 = L.observe(tt, False)
    except Exception as e:
        k = err_kind(e)
        return reqs + [{"op": "font", "in": dict(inp, reloaded=False), "obs": {"err": k}, "tags": tags + ["err:" + k], "nontrivial": nt}]
    reqs.append({"op": "font", "in": dict(inp, reloaded=False), "obs": o1, "tags": tags + ["in-memory"], "nontrivial": nt})
    try:
        buf = io.BytesIO(); tt.save(buf)
        tt2 = TTFont(io.BytesIO(buf.getvalue()))
        o2 = L.observe(tt2, True)
    except Exception as e:
        k = err_kind(e)
        reqs.append({"op": "font", "in": dict(inp, reloaded=True), "obs": {"err": k}, "tags": tags + ["save-err:" + k], "nontrivial": nt})
        return reqs
    reqs.append({"op": "font", "in": dict(inp, reloaded=True), "obs": o2, "tags": tags + ["reloaded"], "nontrivial": nt})
    return reqs


def _run_infocompiler(case):
    from ufo2ft.infoCompiler import InfoCompiler
    base, over, otf, lib = case["base"], case["over"], case["otf"], case["lib"]
    merged = dict(base); merged.update(over)
    tags = ["infocompiler", "otf" if otf else "ttf", lib, "override:%d" % len(over)]
    font = L.build_font(base, lib)
    inp = {"base": L.enc_info(base), "over": L.enc_info(over), "env": L.make_env(merged), "envBase": L.make_env(base),
           "otf": otf, "reloaded": False}
    try:
        tt = _compile(font, otf, False)
        inp["baseVertical"] = "vhea" in tt
        inp["baseGasp"] = "gasp" in tt
        if over:      # PostProcessor: `if self.info: self.apply_fontinfo()` — an empty public.fontInfo is not applied
            InfoCompiler(tt, font, dict(over)).compile()
        obs = L.observe(tt, False)
        # the in-memory record ORDER (fontTools sorts only when the table is compiled): compared with the model's list
        # in `agree`, so that the dict-order rule of InfoCompiler.setupTable_name (C16_names_merge_order) is observed
        obs["nameOrder"] = [[n.nameID, n.platformID, n.platEncID, n.langID] for n in tt["name"].names]
    except Exception as e:
        inp.setdefault("baseVertical", False); inp.setdefault("baseGasp", False)
        obs = {"err": err_kind(e)}
    return [{"op": "infocompiler", "in": inp, "obs": obs, "tags": tags, "nontrivial": len(over) >= 2}]


def _read_info(font):
    out = {}
    for a in L.all_attrs() + ["openTypeGaspRangeRecords"]:
        v = getattr(font.info, a, None)
        if a == "openTypeGaspRangeRecords" and v is not None:
            v = [{"rangeMaxPPEM": r["rangeMaxPPEM"], "rangeGaspBehavior": [int(b) for b in r["rangeGaspBehavior"]]} for r in v]
        if v is not None:
            out[a] = v
    return L.enc_info(out)


def _designspace(fonts, overs):
    from fontTools.designspaceLib import (AxisDescriptor, DesignSpaceDocument, RangeAxisSubsetDescriptor, SourceDescriptor,
                                          VariableFontDescriptor)
    doc = DesignSpaceDocument()
    # a custom axis: for the registered tags wght / wdth / slnt fontTools.varLib.build overwrites OS/2.usWeightClass,
    # usWidthClass and post.italicAngle with the axis default (external behaviour, not ufo2ft's)
    ax = AxisDescriptor(); ax.name = "Zqaxis"; ax.tag = "TEST"; ax.minimum, ax.default, ax.maximum = 400, 400, 700
    doc.addAxis(ax)
    for f, loc in zip(fonts, (400, 700)):
        s = SourceDescriptor(); s.font = f; s.name = "m%d" % loc; s.location = {"Zqaxis": loc}
        doc.addSource(s)
    for k, o in enumerate(overs):
        vf = VariableFontDescriptor(name="VF%d" % k)
        vf.axisSubsets = [RangeAxisSubsetDescriptor(name="Zqaxis")]
        if o:
            vf.lib["public.fontInfo"] = dict(o)
        doc.addVariableFont(vf)
    return doc


def _varlib_name_ids(tt):
    """name IDs (>= 256) that fontTools.varLib allocated for fvar / STAT: not ufo2ft's, not described by the model"""
    ids = set()
    if "fvar" in tt:
        for a in tt["fvar"].axes:
            ids.add(a.axisNameID)
        for i in tt["fvar"].instances:
            ids.update([i.subfamilyNameID, i.postscriptNameID])
    if "STAT" in tt:
        st = tt["STAT"].table
        for a in (st.DesignAxisRecord.Axis if st.DesignAxisRecord else []):
            ids.add(a.AxisNameID)
        for v in (st.AxisValueArray.AxisValue if getattr(st, "AxisValueArray", None) else []):
            ids.add(v.ValueNameID)
    return {i for i in ids if i >= 256 and i != 0xFFFF}


def _run_history(case):
    """several fonts from the same source objects, then the source read back and compiled again"""
    from ufo2ft.infoCompiler import InfoCompiler
    base, overs, otf, lib, via = case["base"], case["overs"], case["otf"], case["lib"], case["via"]
    tags0 = ["history", "via:" + via, "otf" if otf else "ttf", lib, "fonts:%d" % len(overs)]
    if any(not o for o in overs[1:]):
        tags0.append("later-font-without-overrides")
    seen = set()
    for o in overs:
        if seen and not (set(o) >= seen):
            tags0.append("later-font-lacks-earlier-override"); break
        seen |= set(o)
    font = L.build_font(base, lib)
    before = _read_info(font)
    envBase = L.make_env(base)
    reqs, steps = [], []

    def step_req(k, over, tt, err):
        merged = dict(base); merged.update(over)
        inp = {"base": L.enc_info(base), "over": L.enc_info(over), "env": L.make_env(merged), "envBase": envBase,
               "otf": otf, "reloaded": False, "baseVertical": bool(tt is not None and "vhea" in tt),
               "baseGasp": bool(tt is not None and "gasp" in tt)}
        tags = tags0 + ["step:%d" % k, "override:%d" % len(over)]
        if via == "variable":
            # a variable font has TrueType outlines or a CFF2 table, never the 'CFF ' table the model describes
            inp["otf"] = False; inp["glyf"] = not otf
        if err is not None:
            obs = {"err": err}
        else:
            obs = L.observe(tt, False)
            if via == "variable":
                # (a public.fontInfo name record may sit on a key varLib allocated for an axis name: InfoCompiler then
                # replaces that record; such a key is the merged info's and stays in the observation)
                own = {(r["nameID"], r["platformID"], r["encodingID"], r["languageID"]) for r in merged.get("openTypeNameRecords") or []}
                vids = _varlib_name_ids(tt)
                obs["names"] = [n for n in obs["names"] if n[0] not in vids or tuple(n[:4]) in own]
                tags.append("predicate-only")
        steps.append({"over": inp["over"], "env": inp["env"], "baseVertical": inp["baseVertical"], "baseGasp": inp["baseGasp"]})
        reqs.append({"op": "infocompiler", "in": inp, "obs": obs, "tags": tags, "nontrivial": k > 0 and len(overs[0]) >= 1})

    if via == "variable":
        from ufo2ft import compileVariableCFF2s, compileVariableTTFs
        second = L.build_font(base, lib)
        try:
            doc = _designspace([font, second], overs)
            vfs = (compileVariableCFF2s if otf else compileVariableTTFs)(doc)
            for k, over in enumerate(overs):
                step_req(k, over, vfs["VF%d" % k], None)
        except Exception as e:
            step_req(0, overs[0], None, err_kind(e))
    else:
        for k, over in enumerate(overs):
            try:
                tt = _compile(font, otf, False)        # a fresh compile of the source as it is NOW
            except Exception as e:
                step_req(k, over, None, err_kind(e)); break
            try:
                if over:                               # PostProcessor: `if self.info: self.apply_fontinfo()`
                    InfoCompiler(tt, font, dict(over)).compile()
            except Exception as e:
                step_req(k, over, tt, err_kind(e)); break
            step_req(k, over, tt, None)
    # the caller's source after the whole history
    after = _read_info(font)
    # (`before` is the info as read back from the object before the history: for ufoLib2 exactly the info given,
    # defcon reports [] for some absent lists)
    reqs.append({"op": "srcinfo", "in": {"base": before, "envBase": envBase, "otf": otf, "reloaded": False, "steps": steps},
                 "obs": after, "tags": tags0 + ["source-read-back"], "nontrivial": any(overs)})
    assert before == L.enc_info({k: v for k, v in base.items() if v is not None}) or lib == "defcon", "harness: info not stored as given"
    # ... and a static compile of the same object afterwards must be the compile of the base info
    case2 = {"info": base, "otf": otf, "lib": lib, "optimize": False}
    tags = _font_tags(base, otf, lib) + ["after-history"]
    inp = {"info": L.enc_info(base), "env": envBase, "otf": otf, "cffWritten": False, "reloaded": False}
    taken = sum(1 for a in _specials() if base.get(a) is None)
    nt = len(base) >= 5 and taken >= 5
    try:
        obs = L.observe(_compile(font, otf, False), False)
    except Exception as e:
        obs = {"err": err_kind(e)}
    reqs.append({"op": "font", "in": inp, "obs": obs, "tags": tags, "nontrivial": nt})
    return reqs


def _run_chars(case):
    from ufo2ft.fontInfoData import normalizeNameForPostscript
    out = []
    for lo in case["los"]:
        tbl, obs = [], []
        for cp in range(lo, lo + BLOCK):
            c = chr(cp)
            d = unicodedata.normalize("NFKD", c)
            tbl.append(None if d == c else L.cps(d))
            s = normalizeNameForPostscript(c)
            obs.append(None if s == "?" else L.cps(s))
        out.append({"op": "chars", "in": {"lo": lo, "nfkd": tbl}, "obs": obs, "tags": ["chars-exhaustive"],
                    "nontrivial": any(t is not None for t in tbl)})
    return out


def _run_graph(case):
    # two infos suffice to drive every edge of the call graph (italic angle zero / non-zero)
    edges = set()
    for info in ({}, {"italicAngle": -10}, {"italicAngle": -10, "openTypeHheaCaretSlopeRun": 100}):
        _, e = _attr_requests(info, [])
        edges |= e
    # sanity of an assumption: the only non-ASCII character whose lower() is ASCII is the Kelvin sign
    weird = [cp for cp in range(128, 0x110000) if not (0xD800 <= cp < 0xE000) and all(ord(x) < 128 for x in chr(cp).lower())]
    assert weird == [0x212A], weird
    return [{"op": "edges", "in": {"all": True}, "obs": sorted(map(list, edges)), "tags": ["call-graph-complete"], "nontrivial": True}]


def _run_bits(case):
    from ufo2ft.fontInfoData import intListToNum
    w = case["width"]
    out = []
    for start, length, base in ((0, 16, 0), (32, 32, 28), (96, 32, 120), (0, 4, 0), (5, 7, 3)):
        for m in range(1 << w):
            l = [base + i for i in range(w) if m >> i & 1]
            out.append({"op": "bits", "in": {"l": [rat(x) for x in l], "start": start, "len": length},
                        "obs": intListToNum(l, start, length), "tags": ["bits-exhaustive"], "nontrivial": len(l) > 1})
    return out


def _run_float(case):
    import random
    rng = random.Random(case["seed"])
    out = []
    for _ in range(case["n"]):
        r = rng.random()
        if r < 0.3:
            a, b = rng.randrange(1, 20000), rng.choice([0.8, 0.2, 0.7, 0.5, 1.2, 0.05, -0.075, 0.65, 0.6, 0.075, 0.35, 0.22])
        elif r < 0.6:
            a, b = rng.uniform(-3000, 3000), rng.uniform(-2, 2) or 1.0
        else:
            a, b = float(rng.randrange(-5000, 5000)) / rng.choice([1, 2, 8, 1000, 3]), float(rng.randrange(1, 4000)) / rng.choice([1, 4, 7, 1000])
        a = float(a); b = float(b)
        obs = [a * b, a / b, a + b, a - b, round(a, 3)]
        out.append({"op": "float", "in": {"a": rat(a), "b": rat(b)}, "obs": [rat(x) for x in obs], "tags": ["ieee"], "nontrivial": True})
    return out


def _run_norm(case):
    import random
    from ufo2ft.fontInfoData import normalizeStringForPostscript
    rng = random.Random(case["seed"])
    out = []
    pool = (L.ASCII_NAMES + L.LATIN1_NAMES + L.WIDE_NAMES + L.UNSAFE_NAMES + L.EXC_NAMES + L.TEXTS)
    for _ in range(12):
        s = "".join(rng.choice(pool) if rng.random() < 0.7 else chr(rng.choice([rng.randrange(0, 0x300), rng.randrange(0x2000, 0x3400), rng.randrange(0xF900, 0x10000), rng.randrange(0x1D400, 0x1D800)]))
                    for _ in range(rng.randrange(0, 4)))
        s = "".join(c for c in s if not 0xD800 <= ord(c) < 0xE000)
        sp = rng.random() < 0.5
        tbl = [[ord(c), L.cps(unicodedata.normalize("NFKD", c))] for c in sorted(set(s)) if unicodedata.normalize("NFKD", c) != c]
        out.append({"op": "norm", "in": {"s": L.cps(s), "allowSpaces": sp, "nfkd": tbl},
                    "obs": L.cps(normalizeStringForPostscript(s, allowSpaces=sp)), "tags": ["norm", "spaces" if sp else "nospaces"],
                    "nontrivial": len(s) > 2})
    return out


def run(case):
    k = case["kind"]
    return {"font": _run_font, "infocompiler": _run_infocompiler, "history": _run_history, "chars": _run_chars, "graph": _run_graph,
            "bits": _run_bits, "float": _run_float, "norm": _run_norm}[k](case)


# ------------------------------------------------------------------ comparison

def _strip(m):
    return {k: v for k, v in m.items() if not k.startswith("_")} if isinstance(m, dict) else m


def agree(req, rep):
    m, o, op = rep["model"], req["obs"], req["op"]
    if op == "srcinfo":
        return m["info"] == o
    if op == "infocompiler" and "predicate-only" in req["tags"]:
        # a font built by varLib: tables the model does not describe (fvar names, CFF2); only the predicate is evaluated
        return (m.get("err") is not None) == (o.get("err") is not None) if (m.get("err") or o.get("err")) else True
    if op in ("font", "infocompiler"):
        if m.get("err") is not None or o.get("err") is not None:
            return m.get("err") == o.get("err")
        if "nameOrder" in o and [n[:4] for n in m["names"]] != o["nameOrder"]:
            return False
        return all(o["fields"].get(k) == v for k, v in m["fields"].items()) and sorted(m["names"]) == o["names"]
    if op == "attrs":
        return _strip(m) == o
    if op == "edges":
        mm = sorted(m)
        return o == mm if req["in"].get("all") else all(e in mm for e in o)
    if op in ("chars", "norm"):
        return m["out"] == o
    return m == o


# ------------------------------------------------------------------ findings

def classify_failure(res):
    """the known defect of the unchanged tree (CFF strings) and the repaired InfoCompiler defect, recognised by their exact
    shape; anything else stays a VIOLATION (the PostScript-name leak was repaired by f81aa08, the InfoCompiler KeyError by
    the `_set_attrs` guard: a recurrence of either is a VIOLATION)"""
    req, m = res["req"], res["model"]
    op = req["op"]
    # repaired (kind "fixed" in known_findings.json, so never suppressed): InfoCompiler raising KeyError because the
    # temporary compile built no vhea / gasp table.  Still named, so that a recurrence is reported under its shape.
    if op == "infocompiler" and isinstance(m, dict) and m.get("_missingTable") is True and m.get("err") is None \
            and req["obs"].get("err") == "KeyError" and m.get("_wf") is True:
        return {"kind": "infocompiler-missing-table", "via": "vhea-or-gasp-not-built-by-temporary-compile"}
    if not res["agree"] or not isinstance(m, dict):
        return None
    failed = m.get("_failed")
    if op == "font" and failed == ["compiles"] and m.get("err") in ("Other:UnicodeEncodeError", "Other:UnicodeDecodeError") \
            and m.get("_wf") is True and req["in"]["otf"] and req["obs"].get("err") == m.get("err"):
        return {"kind": "cff-string-not-encodable", "via": "latin1-or-ascii-only-top-dict-strings"}
    return None


# ------------------------------------------------------------------ shrinking

def shrink(case):
    if case["kind"] == "chars":
        for lo in case["los"]:
            yield {"kind": "chars", "los": [lo]}
        return
    if case["kind"] == "font":
        info = case["info"]
        keys = sorted(info)
        for i in range(0, len(keys), max(1, len(keys) // 4)):
            drop = set(keys[i:i + max(1, len(keys) // 4)])
            yield dict(case, info={k: v for k, v in info.items() if k not in drop})
        for k in keys:
            yield dict(case, info={a: v for a, v in info.items() if a != k})
    if case["kind"] == "history":
        overs = case["overs"]
        bk = sorted(case["base"])
        q = max(1, len(bk) // 4)
        if len(bk) > 4:
            for i in range(0, len(bk), q):
                drop = set(bk[i:i + q])
                yield dict(case, base={a: v for a, v in case["base"].items() if a not in drop})
        if len(overs) > 2:
            for j in range(len(overs)):
                yield dict(case, overs=overs[:j] + overs[j + 1:])
        for j, o in enumerate(overs):
            for k in sorted(o):
                yield dict(case, overs=overs[:j] + [{a: v for a, v in o.items() if a != k}] + overs[j + 1:])
        for k in sorted(case["base"]):
            yield dict(case, base={a: v for a, v in case["base"].items() if a != k})
    if case["kind"] == "infocompiler":
        for which in ("over", "base"):
            d = case[which]
            for k in sorted(d):
                yield dict(case, **{which: {a: v for a, v in d.items() if a != k}})


LEVEL_TEXT = ("Proved for all inputs (Lean): the fallback call graph is acyclic (a rank strictly decreases along every call); "
              "getAttrWithFallback returns a value for every info and every attribute with any recursion budget >= 4, "
              "independently of the budget; an explicit value (also 0, '' and []) always wins; the effective values are a "
              "solution, and the only solution, of the documented fallback equations; every row of the 51-row field table "
              "shows the converted effective value (explicit: of the given value; absent: of a value satisfying the documented "
              "equation); the derived fields (fontRevision, macStyle, fsSelection, TrueType head.flags, family class, panose, "
              "Unicode/code-page ranges, OS/2 sub/superscript and strikeout fallbacks, every CFF top/private dict entry) and "
              "the whole name table (as a finite map: last user record wins, built-in IDs with their documented strings, 16/17 "
              "elision, platform-encoding 10 beyond the BMP, no duplicate keys) and the gasp table are the documented ones; intListToNum is "
              "the sum of 2^i for every list/start/length; normalizeStringForPostscript returns only characters of [33,126] minus "
              "[](){}<>/% (plus the space when allowed) for EVERY string and an arbitrary NFKD function (full strength since the "
              "repair f81aa08), so every generated PostScript name is clean; InfoCompiler never raises for well-formed overrides on a "
              "compiled font, shows the merged info in every row of the tables it handles, merges the name records for ALL record "
              "lists as Python's dicts do (temporary record wins under its key, others kept, keys unique, dict order) so that the "
              "result shows the merged info's name string where it defines a key and the base string elsewhere, and leaves a table the temporary "
              "compile does not build (vhea, gasp) exactly as it was; for ANY sequence of fonts post-processed from the same source "
              "(several <variable-font> elements, re-use of a UFO) the k-th font is what the original source info and its own "
              "override set alone give (rows theorem for fonts with overrides, plain compile for fonts without), the sequence never "
              "raises for well-formed input and leaves the source info as it was. Tied to the code by exhaustive enumeration of all Unicode scalar "
              "values, exhaustive bit lists, the traced call graph, and random attribute subsets through getAttrWithFallback, "
              "compileTTF/compileOTF (in memory and reloaded), InfoCompiler, and histories of variable-font builds / repeated compiles "
              "on the same source objects with the source read back afterwards.")
LEVEL_NOTE = ("One statement of the property is false of the code and is proved false of the model on a witness (known finding): "
              "compileOTF+save raises UnicodeEncodeError for CFF-bound names outside Latin-1 (ASCII for the weight name), and a "
              "Latin-1 non-ASCII postscriptFontName cannot be reloaded; the theorem proved instead is C16_compiles_partial with the "
              "exact side condition. Two earlier findings are repaired and now theorems: the PostScript-name leak (272 code "
              "points, f81aa08; old function kept as normCharOld with its counterexamples) and the InfoCompiler KeyError for a "
              "table the temporary compile does not build (old behaviour kept as infoCompileOld with its counterexample); the "
              "exhaustive enumeration must report zero failures and a recurrence of either is a VIOLATION. NFKD, tan and strptime "
              "are inputs; IEEE rounding is modelled and measured on every run, not proved. The name-table merge of InfoCompiler is now "
              "a theorem (Props/C16Names.lean): for ALL record lists, duplicates allowed, the three dict statements of "
              "setupTable_name (namesMerge) satisfy holdsNamesMerge (keys unique, every temporary record present with its last "
              "value, every other original record kept, nothing else, dict order), equal infoCompile's namesUpdate whenever the "
              "original keys are distinct (true of every compiled font), and for well-formed base info and overrides the name "
              "table of infoCompile satisfies holdsNamesOverride, the predicate the driver evaluates on observed fonts "
              "(C16_infocompiler_names). The ORDER of the merged records (C16_names_merge_order) is tied to the code on the direct "
              "InfoCompiler path only: there the in-memory record order is observed (nameOrder) and compared with the model's "
              "list (a mutant of setupTable_name that keeps the map but puts the temporary records first is reported as a "
              "disagreement); on reloaded fonts and on the variable-font path records are compared sorted. holdsNamesMerge "
              "itself is not evaluated on observed fonts (the two input record lists are not observed separately, and no "
              "compiled font has duplicate keys, so the duplicate-key cases of the theorem are about the model only). Histories: the model threads the source info "
              "through the steps (the ufoLib2 branch copies, the defcon branch serialises; `infoCompileStepAliased` shows what "
              "happens without the copy); on the direct path model and observation are compared in full, on the variable-font "
              "path (compileVariableTTFs/CFF2s) only the predicates are evaluated on the observed fonts (rows of head/hhea/OS2/post, "
              "name records other than varLib's, PostScript name; agree = True) because varLib's merge is external - those "
              "predicates are theorems of the model (C16_infocompiler_rows, C16_infocompiler_names) but varLib.build itself "
              "stays unmodelled; the "
              "source-unchanged predicate and the recompile of the same object are compared in full on both paths.")
