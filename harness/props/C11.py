"""C11 - production names rename glyphs and change nothing else."""
import io
import logging
import os
import struct
import types

from ufo import build, err_kind

ID = "C11"
THEOREM = ("Ufo2ft.C11.C11_unique / findFree_fresh / findFree_fuel_irrelevant / C11_renamed (C11_source, C11_legal) / "
           "C11_distinct + C11_perm_injective (any glyph order, any glyph set; C11_old_collision = counterexample for the "
           "former seen={}) / C11_notdef_kept + C11_notdef_unique ('.notdef' keeps its name and nobody else gets it; "
           "C11_old_notdef_renamed = counterexample for the former rule) / validName_eq / autoName_unfold / prodName_fuel / uniName_spec / C11_perm / "
           "C11_perm_charStrings / C11_decide / C11_process / C11_reject")
N = {"quick": 1000, "thorough": 20000}
RULE = ("three streams. (1) 'unique': PostProcessor._unique_name on random `seen` dicts (arbitrary counters, runs of taken "
        "suffixes x.1..x.k, names that are themselves suffixed) - 2N calls. (2) 'names': _build_production_names on a "
        "PostProcessor with a stub font and a stub glyph set (no compile), 2N name sets: plain/suffixed/doubly suffixed "
        "names, ligatures (2..17 parts, with suffix), names that look like generated ones (uni0061, uni0061.alt, u1F600, "
        "x.1), illegal characters (space,-,@,+,#,/,non-ASCII), names that become equal or empty after cleaning, > 63 "
        "characters, odd dots/underscores; code points none/0/BMP/supplementary; public.postscriptNames absent / {} / maps "
        "with duplicate, empty, illegal, over-long values, values equal to other glyph names or '.notdef', an entry FOR "
        "'.notdef' whenever that glyph is in the name set (it is a key like any other: 60 % of the maps of such fonts), keys for "
        "missing glyphs; glyph sets that do not cover the glyph order. (3) 'process': N real builds through compileTTF, "
        "compileOTF (CFF), compileOTF(cffVersion=2), compileVariableTTF, compileVariableCFF2 x useProductionNames "
        "None/True/False x lib useProductionNames / Glyphs' \"Don't use Production Names\" / keepGlyphNames absent/true/false, "
        "a third of them with kerning, anchors and a feature file (GSUB/GPOS/GDEF present); the post-processor's inputs are "
        "captured with a postProcessorClass subclass; every build is repeated with useProductionNames=False and the raw "
        "bytes of every table are compared (head.checkSumAdjustment zeroed); names are read back from the saved binary with "
        "an independent 'post' format 2 parser / the CFF charset. non-trivial = at least two glyphs change name, or (unique) "
        "the name is already taken.")
ASSUMED = ["compiled bytes of every table other than 'post'/'CFF ' depend on glyph names only through glyph indices "
           "(hypothesis `indexBased` of C11_tables_of_indexBased): measured on every generated font by a byte comparison, not proved",
           "glyphSet[name].name == name for the glyph sets handed to the post-processor",
           "Python str/dict/regex semantics as modelled (code-point lists, insertion-ordered dict, [^0-9a-zA-Z_.] on ASCII ranges)"]

STRICT = bool(os.environ.get("C11_STRICT"))
for _n in ("ufo2ft", "fontTools", "cffsubr", "compreffor"):
    logging.getLogger(_n).setLevel(logging.CRITICAL)

KEY_USE = "com.github.googlei18n.ufo2ft.useProductionNames"
KEY_KEEP = "com.github.googlei18n.ufo2ft.keepGlyphNames"
KEY_DONT = "com.schriftgestaltung.Don't use Production Names"
KNOWN_SHAPE = {"shape": "renamed-name-equals-name-of-glyph-outside-glyphSet"}

BASE = {"a": 0x61, "b": 0x62, "f": 0x66, "i": 0x69, "l": 0x6C, "A": 0x41, "x": 0x78, "e": 0x65}
SUFFIXES = ["alt", "sc", "1", "2", "ss01", "alt.sc", "1.1"]
BAD = [" ", "-", "@", "+", "#", "/", "é", "α", "'", "(", "\U0001F600"]
ODD = [".alt", "_", "a_", "_a", "a..b", "a.", "f__i", ".", "a_.alt", "_.x", "f_.alt", "a._b", ".notdef", ".null", "space", "Zed"]
LOOKALIKE = ["uni0061", "uni0061.alt", "u1F600", "uni00660069", "uni0066_uni0069", "uni0041", "uni0061.1", "x.1", "x.2", "x.1.1",
             "ab", "ab.1", "fi", "uni0000", "u10000", "uniFFFF"]
CPS = [0, 0x41, 0x61, 0x66, 0xFFFF, 0xFFFE, 0x10000, 0x1F600, 0x10FFFF, 0xE000, 0x3042, 0x20, 0x1F601]


def gen_names(rng, safe, k=None):
    """a set of glyph names (dict name -> first code point or None); `safe` = lexable by feaLib"""
    k = k or rng.choice([2, 3, 5, 8, 12])
    out = {}
    def plain():
        return rng.choice(list(BASE))
    tries = 0
    while len(out) < k and tries < 200:
        tries += 1
        r = rng.random()
        if r < 0.22:
            nm = plain()
        elif r < 0.40:
            nm = plain() + "." + rng.choice(SUFFIXES)
        elif r < 0.58:
            parts = [plain() for _ in range(rng.choice([2, 2, 3]))]
            nm = "_".join(parts)
            if rng.random() < 0.4:
                nm += "." + rng.choice(SUFFIXES)
        elif r < 0.70:
            nm = rng.choice(LOOKALIKE)
        elif r < 0.76:
            nm = rng.choice(["x" * 64, "longname" * 9, "_".join(["a"] * 17), "_".join(["f", "i"] * 9) + ".alt",
                             "a." + "s" * 70, "f_i." + "t" * 58, "b" * 63, "b" * 62 + ".1"])
        elif r < 0.84:
            nm = rng.choice(ODD)
        elif not safe:
            nm = rng.choice([plain(), plain() + "." + rng.choice(SUFFIXES), "_".join([plain(), plain()])])
            for _ in range(rng.choice([1, 1, 2])):
                p = rng.randrange(len(nm) + 1)
                nm = nm[:p] + rng.choice(BAD) + nm[p:]
            if rng.random() < 0.15:
                nm = rng.choice(["@", "#-", " ", "éé", "-.", "@.1"])
        else:
            nm = plain() + rng.choice(["", ".alt", "_x"])
        if safe and (not all(c.isascii() and (c.isalnum() or c in "._") for c in nm) or nm[0].isdigit()
                     or nm in (".", "_") or len(nm) > 63):
            continue
        if nm in out:
            continue
        out[nm] = None
        # the suffix and ligature rules only fire when the base / the parts are glyphs too: add them often
        if rng.random() < 0.7 and len(nm) <= 40:
            stem, dot, suf = nm.partition(".")
            extra = []
            if "_" in stem and stem.strip("_"):
                extra = [p + dot + suf for p in stem.split("_")]
            elif dot and "." in nm[1:]:
                extra = [nm.rsplit(".", 1)[0]]
            for e in extra:
                if e and e not in out and (not safe or (e[0] not in "0123456789" and e not in (".", "_"))) and all(
                        (c not in BAD) for c in e):
                    out[e] = None
    used = set()
    for nm in out:
        r = rng.random()
        u = None
        if nm in BASE and r < 0.8:
            u = BASE[nm]
        elif r < 0.15:
            u = rng.choice(CPS)
        if u is not None and u not in used and nm != ".notdef":
            used.add(u)
            out[nm] = u
    # code point 0 is "no code point" for the ligature rule (`v and v <= 0xFFFF`) but not for the uniXXXX rule
    if rng.random() < 0.15 and 0 not in used:
        cands = [nm for nm in out if nm in BASE or (nm.partition(".")[0] in BASE and "_" not in nm)]
        if cands:
            out[rng.choice(cands)] = 0
    return out


def gen_ps(rng, names):
    """public.postscriptNames: None / {} / a map"""
    r = rng.random()
    if r < 0.35:
        return None
    if r < 0.42:
        return {}
    ps = {}
    names = list(names)
    pool = ["x", "x", "x.1", "y", "uni0061", ".notdef", "", "a b", "x-y", "é", "p" * 70, "q" * 63, "ab", "a@b", "A", "_", "..", "x.2"]
    for nm in names:
        if rng.random() < 0.6:
            c = rng.random()
            if c < 0.55:
                v = rng.choice(pool)
            elif c < 0.75:
                v = rng.choice(names)          # another glyph's own name
            elif c < 0.85:
                v = nm                          # identity
            else:
                v = nm.replace("_", "").replace(".", "") or "z"
            ps[nm] = v
    if rng.random() < 0.3:
        ps["ghost"] = "x"
    return ps


def gen(rng, n, mode):
    search = mode == "search"
    if search:
        n = min(n, 4000)      # the adversarial re-generation is only worth so much wall time
    # ---- stream 1: _unique_name
    items = []
    for _ in range(2 * n):
        base = rng.choice(["x", "x.1", "", "a_b", "x.1.1", "uni0061"])
        seen = {}
        keys = [base] if rng.random() < 0.8 else []
        run = rng.choice([0, 0, 1, 2, 3, 5, 9, 12])
        start = rng.choice([1, 1, 1, 2, 3])
        keys += [base + ".%d" % j for j in range(start, start + run)]
        keys += rng.sample(["y", "x", "x.1", "x.2", "x.10", "x.1.1", "x.1.2", ".1", "a_b.1", "x.01", "x.3"], rng.choice([0, 1, 2, 4]))
        rng.shuffle(keys)
        for kname in keys:
            seen[kname] = rng.choice([1, 1, 2, 3, 4, 11])
        items.append({"name": base, "seen": [[a, b] for a, b in seen.items()]})
    for j in range(0, len(items), 100):
        yield {"kind": "unique", "items": items[j:j + 100]}
    # ---- stream 2: _build_production_names without a compile
    items = []
    for _ in range(2 * n):
        gs = gen_names(rng, safe=False)
        order = list(gs)
        rng.shuffle(order)
        gsl = dict(gs)
        if rng.random() < (0.25 if search else 0.08):
            for nm in rng.sample(order, rng.choice([1, 1, 2])):   # glyphs the post-processor has no source for
                gsl.pop(nm, None)
        if rng.random() < 0.2:
            gsl[rng.choice(["f", "i", "a", "zz"])] = rng.choice([None, 0x66, 0x1F600])   # glyph set larger than the font
        items.append({"order": order, "glyphSet": [[a, b] for a, b in gsl.items()], "ps": gen_ps(rng, order)})
    for j in range(0, len(items), 50):
        yield {"kind": "names", "items": items[j:j + 50]}
    # ---- stream 3: real builds
    for _ in range(n):
        layout = rng.random() < 0.33
        gs = gen_names(rng, safe=layout, k=rng.choice([2, 3, 5, 8]))
        if rng.random() < 0.3:
            gs.setdefault(".notdef", None)
        flavor = rng.choice(["ttf", "ttf", "ttf", "otf", "otf", "cff2", "varttf", "varttf", "varcff2"])
        names = list(gs)
        go = None
        if rng.random() < 0.5:
            go = list(names)
            rng.shuffle(go)
        ps = gen_ps(rng, names)
        if flavor.startswith("var") and ps and ".notdef" not in gs and rng.random() < (0.5 if search else 0.1):
            ps[rng.choice(names)] = ".notdef"
        lib = {}
        for key in (KEY_USE, KEY_DONT, KEY_KEEP):
            r = rng.random()
            if r < 0.25:
                lib[key] = True
            elif r < 0.45:
                lib[key] = False
        arg = rng.choice([None, None, True, True, False])
        case = {"kind": "process", "glyphs": [[a, b] for a, b in gs.items()], "glyphOrder": go, "ps": ps, "lib": lib, "arg": arg,
                "flavor": flavor, "ufolib": rng.choice(["ufoLib2", "defcon"]), "optimize": flavor == "otf" and rng.random() < 0.08,
                "layout": None}
        if layout:
            fea, kern, anchors = [], [], []
            if "f" in gs and "i" in gs and "f_i" in gs:
                fea.append("feature liga { sub f i by f_i; } liga;")
            alts = [nm for nm in names if "." in nm and nm.rsplit(".", 1)[0] in gs and not nm.startswith(".")]
            if alts:
                byBase = {}
                for a in alts:
                    byBase.setdefault(a.rsplit(".", 1)[0], a)
                fea.append("feature salt { %s } salt;" % " ".join("sub %s by %s;" % (b, a) for b, a in list(byBase.items())[:3]))
            real = [nm for nm in names if nm != ".notdef"]
            for _k in range(rng.choice([1, 2, 4])):
                kern.append([rng.choice(real), rng.choice(real), rng.choice([-50, -20, 15, 40])])
            if len(real) >= 2:
                anchors = [[real[0], "top", 100, 500], [real[1], "_top", 50, 480]]
            case["layout"] = {"fea": "\n".join(fea), "kern": kern, "anchors": anchors}
        yield case


# ------------------------------------------------------------------ running the implementation

class _StubFont:
    def __init__(self, order):
        self._order = list(order)

    def getGlyphOrder(self):
        return list(self._order)


def _stub_pp(order, glyphset, ps):
    from ufo2ft.postProcessor import PostProcessor
    pp = PostProcessor.__new__(PostProcessor)
    pp.otf = _StubFont(order)
    pp.ufo = None
    pp.info = None
    pp.glyphSet = {nm: types.SimpleNamespace(name=nm, unicode=u) for nm, u in glyphset}
    pp._postscriptNames = None if ps is None else dict(ps)
    return pp


def _ps_list(ps):
    return None if ps is None else [[k, v] for k, v in ps.items()]


def raw_post_names(data):
    """names stored in a format-2 'post' table, parsed from the bytes (None for other formats)"""
    from fontTools.ttLib.standardGlyphOrder import standardGlyphOrder
    if struct.unpack(">L", data[:4])[0] != 0x00020000:
        return None
    n, = struct.unpack(">H", data[32:34])
    idx = struct.unpack(">%dH" % n, data[34:34 + 2 * n])
    pos, strings = 34 + 2 * n, []
    while pos < len(data):
        ln = data[pos]
        strings.append(data[pos + 1:pos + 1 + ln].decode("latin-1"))
        pos += 1 + ln
    return [standardGlyphOrder[i] if i < 258 else strings[i - 258] for i in idx]


def _tables(data):
    from fontTools.ttLib import TTFont
    tt = TTFont(io.BytesIO(data), lazy=True)
    out = {}
    for tag in tt.reader.keys():
        b = tt.reader[tag]
        if tag == "head":
            b = b[:8] + b"\0\0\0\0" + b[12:]
        out[tag] = b
    return out, tt


def _make_ufo(case, width, shift):
    glyphs = []
    for j, (nm, u) in enumerate(case["glyphs"]):
        g = {"name": nm, "width": width + 10 * j, "unicodes": [] if u is None else [u],
             "contours": [[[0 + shift, 0, "line"], [300 + shift + j, 0, "line"], [150, 400 + shift, "line"]]], "anchors": []}
        glyphs.append(g)
    fd = {"glyphs": glyphs, "lib": dict(case["lib"]), "glyphOrder": case["glyphOrder"],
          "info": {"familyName": "F", "styleName": "R" if shift == 0 else "B"}}
    if case["ps"] is not None:
        fd["lib"]["public.postscriptNames"] = dict(case["ps"])
    lay = case.get("layout")
    if lay:
        fd["features"] = lay["fea"]
        fd["kerning"] = lay["kern"]
        for nm, an, x, y in lay["anchors"]:
            for g in glyphs:
                if g["name"] == nm:
                    g["anchors"].append([an, x + shift, y])
    return build(fd, case["ufolib"])


def _compile(case, arg, ppclass):
    import ufo2ft
    fl = case["flavor"]
    kw = {"useProductionNames": arg, "postProcessorClass": ppclass}
    if fl in ("ttf", "otf", "cff2"):
        font = _make_ufo(case, 500, 0)
        if fl == "ttf":
            return ufo2ft.compileTTF(font, **kw)
        if fl == "otf":
            return ufo2ft.compileOTF(font, optimizeCFF=1 if case["optimize"] else 0, **kw)
        return ufo2ft.compileOTF(font, optimizeCFF=0, cffVersion=2, **kw)
    from fontTools.designspaceLib import AxisDescriptor, DesignSpaceDocument, SourceDescriptor
    d = DesignSpaceDocument()
    a = AxisDescriptor(); a.name = "Weight"; a.tag = "wght"; a.minimum = 400; a.default = 400; a.maximum = 700
    d.addAxis(a)
    for shift, loc in ((0, 400), (40, 700)):
        s = SourceDescriptor()
        s.font = _make_ufo(case, 500 + shift, shift)
        s.location = {"Weight": loc}; s.name = "m%d" % loc; s.familyName = "F"; s.styleName = "R" if shift == 0 else "B"
        d.addSource(s)
    if fl == "varttf":
        return ufo2ft.compileVariableTTF(d, **kw)
    return ufo2ft.compileVariableCFF2(d, optimizeCFF=0, **kw)


def _run_process(case):
    from ufo2ft.postProcessor import PostProcessor
    cap = {}

    class CapPP(PostProcessor):
        # records what the post-processor is given; every method under test is inherited unchanged
        def process_glyph_names(self, useProductionNames=None):
            gs = self.glyphSet
            cap["order"] = list(self.otf.getGlyphOrder())
            cap["glyphSet"] = [[nm, gs[nm].unicode] for nm in gs.keys()]
            cap["cff1"] = "CFF " in self.otf
            cap["before"] = int(round(self.otf["post"].formatType * 10))
            cap["hasPs"] = self._postscriptNames is not None
            return super().process_glyph_names(useProductionNames)

    tags = [case["flavor"], "arg:" + str(case["arg"]), "layout" if case.get("layout") else "nolayout",
            "ps:" + ("none" if case["ps"] is None else "empty" if not case["ps"] else "map")]
    obs = {"err": None, "order": None, "postFormat": 0, "extraNames": None, "diff": [], "saved": None, "saveErr": None}
    try:
        tt = _compile(case, case["arg"], CapPP)
        fmt = int(round(tt["post"].formatType * 10))
        dropped = fmt == 30 and "CFF " not in tt
        obs.update({"order": None if dropped else list(tt.getGlyphOrder()), "postFormat": fmt,
                    "extraNames": list(tt["post"].extraNames) if fmt == 20 else None})
    except Exception as e:   # a crash of the code under test is an observation
        obs["err"] = err_kind(e).replace("Other:", "")
        obs["errText"] = str(e)[:100]
    if not cap:
        # the build failed before the post-processor was reached (not this property's business): no request
        if STRICT:
            raise RuntimeError("post-processor was not reached: " + str(obs.get("err")) + str(obs.get("errText")))
        return []
    lib = case["lib"]
    inp = {"order": cap["order"], "glyphSet": cap["glyphSet"], "ps": _ps_list(case["ps"]), "before": cap["before"],
           "switches": {"arg": case["arg"], "libUse": lib.get(KEY_USE), "libDont": lib.get(KEY_DONT), "libKeep": lib.get(KEY_KEEP),
                        "hasPs": cap["hasPs"], "cff1": cap["cff1"]}}
    if obs["err"] is None:
        data_a = None
        try:
            buf = io.BytesIO(); tt.save(buf); data_a = buf.getvalue()
        except Exception as e:
            obs["saveErr"] = err_kind(e).replace("Other:", "")
        if data_a is not None:
            ta, rt = _tables(data_a)
            if "CFF " in ta:
                obs["saved"] = list(rt["CFF "].cff.topDictIndex[0].charset)
            else:
                obs["saved"] = raw_post_names(ta["post"])
            try:
                base = _compile(case, False, PostProcessor)
                buf = io.BytesIO(); base.save(buf)
                tb, _ = _tables(buf.getvalue())
                obs["diff"] = sorted(t for t in set(ta) | set(tb) if ta.get(t) != tb.get(t))
                tags.append("baseline:compared")
                tags.extend("has:" + t.strip() for t in ("GSUB", "GPOS", "GDEF", "gvar", "glyf", "CFF ", "CFF2", "HVAR") if t in ta)
            except Exception as e:
                # the build WITHOUT production names cannot be serialised (e.g. non-Latin-1 source names): nothing to compare with
                tags.append("baseline:unsavable:" + err_kind(e).replace("Other:", ""))
    tags.append("err:" + str(obs["err"]))
    tags.append("saveErr:" + str(obs["saveErr"]))
    changed = 0 if obs["order"] is None else sum(1 for a, b in zip(cap["order"], obs["order"]) if a != b)
    return [{"op": "process", "in": inp, "obs": obs, "tags": tags, "nontrivial": changed >= 2}]


def run(case):
    from ufo2ft.postProcessor import PostProcessor
    if case["kind"] == "unique":
        out = []
        for it in case["items"]:
            seen = {k: v for k, v in it["seen"]}
            taken = it["name"] in seen
            r = PostProcessor._unique_name(it["name"], seen)
            out.append({"op": "unique", "in": {"name": it["name"], "seen": it["seen"]},
                        "obs": {"name": r, "seen": [[k, v] for k, v in seen.items()]},
                        "tags": ["unique", "unique:taken" if taken else "unique:free"], "nontrivial": taken})
        return out
    if case["kind"] == "names":
        out = []
        for it in case["items"]:
            pp = _stub_pp(it["order"], it["glyphSet"], it["ps"])
            rm = pp._build_production_names()
            final = [rm.get(nm, nm) for nm in it["order"]]
            out.append({"op": "names", "in": {"order": it["order"], "glyphSet": it["glyphSet"], "ps": _ps_list(it["ps"])},
                        "obs": final, "tags": ["names", "ps:" + ("none" if it["ps"] is None else "empty" if not it["ps"] else "map")],
                        "nontrivial": sum(1 for a, b in zip(it["order"], final) if a != b) >= 2})
        return out
    return _run_process(case)


def agree(req, rep):
    m, o = rep["model"], req["obs"]
    for t in m.get("branches", []):
        if t not in req["tags"]:
            req["tags"].append(t)      # evidence: which branches of the modelled code this input exercised
    if req["op"] == "unique":
        return m == o
    if req["op"] == "names":
        return m["order"] == o
    if m.get("err") is not None or o.get("err") is not None:
        return m.get("err") == o.get("err")
    return (m["order"] == o["order"] and m["postFormat"] == o["postFormat"] and m["extraNames"] == o["extraNames"]
            and m["savable"] == (o["saveErr"] is None))


def classify_failure(res):
    """names the one shape that WAS a defect of ufo2ft (fixed; listed as kind=fixed, which suppresses nothing, so a
    recurrence is a VIOLATION): the only thing wrong is that a glyph OUTSIDE the glyph set given to the post-processor
    (it keeps its name) bears the name a renamed glyph received - i.e. the names are not all distinct, while the
    per-glyph predicate evaluated WITHOUT reserving the unrenamed glyphs' names, and every other check, hold."""
    if res["req"]["op"] not in ("names", "process"):
        return None
    ch = res["model"].get("checks", {})
    if not ch or ch.get("covers") or ch.get("distinct") or ch.get("renamed") or not ch.get("renamedNoReserve"):
        return None
    if any(not v for k, v in ch.items() if k not in ("distinct", "covers", "renamed")):
        return None
    obs = res["req"]["obs"]
    if isinstance(obs, dict) and obs.get("err") is not None:
        return None
    return dict(KNOWN_SHAPE)


def shrink(case):
    if case["kind"] != "process":
        if len(case["items"]) > 1:
            for it in case["items"]:
                yield {"kind": case["kind"], "items": [it]}
            return
        it = case["items"][0]
        if case["kind"] == "unique":
            for j in range(len(it["seen"])):
                yield {"kind": "unique", "items": [{"name": it["name"], "seen": it["seen"][:j] + it["seen"][j + 1:]}]}
            return
        for j, nm in enumerate(it["order"]):
            yield {"kind": "names", "items": [{"order": it["order"][:j] + it["order"][j + 1:],
                                               "glyphSet": [g for g in it["glyphSet"] if g[0] != nm], "ps": it["ps"]}]}
        for j in range(len(it["glyphSet"])):
            if it["glyphSet"][j][0] not in it["order"]:
                yield {"kind": "names", "items": [dict(it, glyphSet=it["glyphSet"][:j] + it["glyphSet"][j + 1:])]}
        if it["ps"]:
            for k in list(it["ps"]):
                yield {"kind": "names", "items": [dict(it, ps={a: b for a, b in it["ps"].items() if a != k})]}
        return
    if case.get("layout"):
        c = dict(case); c["layout"] = None; yield c
    for j in range(len(case["glyphs"])):
        nm = case["glyphs"][j][0]
        lay = case.get("layout")
        if lay and (nm in lay["fea"].replace(";", " ").split() or any(nm in k[:2] for k in lay["kern"]) or any(nm == a[0] for a in lay["anchors"])):
            continue
        c = dict(case)
        c["glyphs"] = case["glyphs"][:j] + case["glyphs"][j + 1:]
        if case["glyphOrder"]:
            c["glyphOrder"] = [g for g in case["glyphOrder"] if g != nm]
        if len(c["glyphs"]) >= 1:
            yield c
    if case["ps"]:
        for k in list(case["ps"]):
            c = dict(case); c["ps"] = {a: b for a, b in case["ps"].items() if a != k}; yield c
    for k in list(case["lib"]):
        c = dict(case); c["lib"] = {a: b for a, b in case["lib"].items() if a != k}; yield c


LEVEL_TEXT = ("Proved for all inputs (Lean): _unique_name's loop stops within |seen|+1 iterations on an unused name (pigeonhole; "
              "more budget changes nothing), so for ANY list of candidates the names given out are pairwise distinct; every "
              "renamed glyph gets its cleaned candidate (map entry if non-empty, else automatic name; > 63 characters falls "
              "back to the cleaned source name), unchanged when still free (not given out before and not the name of a glyph "
              "that keeps its name) and with a numeric suffix otherwise; ALL final names of the font are pairwise distinct for "
              "any glyph order and any glyph set, unsourced glyphs such as a synthesised '.notdef' included; the glyph called "
              "'.notdef' keeps that name at its index whatever public.postscriptNames says, and no other glyph receives it "
              "(C11_notdef_kept, C11_notdef_unique); all renamed names "
              "consist of [0-9A-Za-z_.]; the automatic name satisfies fuel-free recursion equations (uniXXXX/uXXXXX, suffix, "
              "ligature rules) and its recursion is on strictly shorter names; rename_glyphs maps the glyph order pointwise "
              "(indices untouched) and injectively; the 324-row decision table of "
              "process_glyph_names equals the documented one. 'Every other table byte-identical' is measured on every "
              "generated build (byte comparison against the build without production names).")
LEVEL_NOTE = ("Trusted: Lean kernel + propext/Classical.choice/Quot.sound; the hand-written model's correspondence to "
              "postProcessor.py is differential (function-level and through five compile entry points); the table-bytes claim "
              "rests on the measured hypothesis that fontTools' table compilers see names only through indices. The former "
              "defect (seen = {}: a renamed glyph could take the name of a glyph outside the glyph set, e.g. the synthesised "
              "'.notdef' of variable builds) is repaired in /repo; the old function survives only in the counterexample theorem "
              "C11_old_collision, and the check still names that shape so that a recurrence is reported as a VIOLATION. "
              "Second repair: '.notdef' used to be renamed like any other glyph (public.postscriptNames = {'.notdef': 'nd'}), "
              "after which fontTools cannot write a 'CFF ' table (finding C12-cff1-notdef-renamed, judged by check C12); "
              "_build_production_names now skips '.notdef' and reserves its name, the model follows (renames / seenInit), the "
              "spec says '.notdef' keeps its name (holdsRenamed), and the former rule survives only in the counterexample "
              "C11_old_notdef_renamed over buildProductionNamesOldNotdef; on a tree without the repair this check reports a "
              "VIOLATION with a failing input (model and predicate both reject the renamed '.notdef').")
