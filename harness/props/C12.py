"""C12 - CFF optimisation, subroutiniser and version never change what is drawn."""
import hashlib
import io
import itertools
import logging

from gen import outline_font
from ufo import build, err_kind, rat

ID = "C12"
THEOREM = ("Ufo2ft.C12.C12_dispatch / C12_table18 / C12_unsupported_iff / C12_reject_version / C12_reject_backend / "
           "C12_width / C12_width_independent / C12_render_toCmds / C12_specTopo_id / C12_specTopo_visited / "
           "C12_specTopo_endPoint / C12_pipeline_draw_partial / C12_render_partial / C12_same / C12_names_content / "
           "C12_names_same / C12_names_distinct / C12_names / C12_cff1_writable / C12_same_named / C12_glyphwise / "
           "C12_plain_glyph / C12_glyphFn_injective_plain")
PROOF_FILES = ["C12", "C12Names"]
N = {"quick": 110, "thorough": 1800}
NAMES_SHARE = 0.4    # extra fonts built with production names, as a share of N
QUAD_SHARE = 0.15    # extra fonts with glyphs drawn with quadratic curves, as a share of N
VAR_SHARE = 0.1      # extra fonts containing families of near-duplicate glyphs, as a share of N
RULE = ("(1) dispatch, exhaustive in both tiers: PostProcessor.process on a real TrueType / CFF / CFF2 font with recording "
        "stand-ins for cffsubr.subroutinize, compreffor.compress and convertCFFToCFF2, for ALL 3 x 8 x 5 x 5 argument tuples "
        "input table {none,CFF,CFF2} x optimizeCFF {False,True,-1,0,1,2,3,7} x cffVersion {None,0,1,2,3} x subroutinizer "
        "{None,'cffsubr','compreffor','bogus',''}, and the same 8 x 5 x 5 (+ the call without arguments) through the public "
        "compileOTF; OutlineOTFCompiler's specialise decision is read off the compiled charstring (hlineto present or not). "
        "(2) specialiser, exhaustive small scope: T2CharStringPen.getCharString(optimize=False/True) drawn back, for every command "
        "list 'moveto + up to 2 (thorough: 3) commands' over 14 commands (movetos, zero/horizontal/vertical/diagonal lines, curves "
        "with retracted handles) and every list of 3-4 (thorough: 4-5) commands over 6 of them, against the Lean model of passes 1-3. "
        "(3) random source fonts (lines and cubic curves, nested/mirrored/sheared components, x.5 and fractional coordinates, open "
        "contours, fractional widths, explicit or automatic defaultWidthX/nominalWidthX, widths equal to / rounding to the default, "
        "kerning + anchors + a GSUB rule, roundTolerance None/0.5 and sometimes 0.25/0) compiled with the real compileOTF under all 18 "
        "combinations optimizeCFF {0,1,2} x subroutinizer {None,cffsubr,compreffor} x cffVersion {1,2} plus 4 extra calls (all "
        "defaults; True; False with CFF2; level 2 / cffVersion None / compreffor); each result is saved, reloaded and read: "
        "RecordingPen drawing of every glyph, hmtx, sha1 of raw GSUB/GPOS/GDEF, table tag, and for CFF 1 the Private default/nominal "
        "width and the raw width operand of every charstring (own T2 width extraction). A quarter of the fonts carry glyphs built "
        "to trigger the specialiser's topology passes (zero-length lines, points coinciding after rounding, collinear axis-parallel "
        "runs and reversals, retracted curve handles, single-point contours); 3 fixed fonts exercise the two tx failures. Fonts with "
        "roundTolerance 0.25/0 skip the cffsubr runs (tx re-writes fractional numbers with two decimals). "
        "(4) glyph identity under production names: 0.4 N further such fonts (2-12 glyphs, half of them with an explicit shuffled "
        "public.glyphOrder) whose glyph names are finalised by the post-processor: useProductionNames None/True/False x lib "
        "useProductionNames / Glyphs' \"Don't use Production Names\" / keepGlyphNames absent/true/false x public.postscriptNames "
        "absent / {} / a map made of 1-3 patterns - swap of two glyph names, 3-cycle, chain a->b->c(->d), two glyphs wanting "
        "the same name, the name of a glyph that keeps its own, fresh names, values with illegal characters / 70 characters / '' "
        "- or (30 %) automatic uniXXXX names over a name pool containing uni0041..uni0046, u1F600, a.alt, f_i, whose code points "
        "are assigned independently of the names (so the automatic map has chains and swaps too); most maps are NOT idempotent "
        "(a production name is also the source name of another renamed glyph).  Each is built under the same 18 (+4) "
        "combinations plus once more at the reference combination with useProductionNames=False (the 'twin'); compared: every "
        "combination against the prediction made from the twin (drawing, advance, layout per glyph INDEX), the reference build's "
        "per-index outline+advance digests against the twin's, the names stored by every build (CFF 1 charset / 'post' format 2 / "
        "none for CFF2 with format 3) against the model, pairwise distinctness, and equality of the stored names across all "
        "combinations.  A quarter of the maps have an entry FOR '.notdef' (values nd/notdef/.notdef/''/null/another glyph's "
        "name) and 15 % an entry that asks for the name '.notdef' (plus the 'taken' pattern); the former finding's input "
        "({'.notdef': 'nd', 'A': 'B', 'B': 'A'}) is a fixed case and a corpus line. "
        "(5) sources drawn with quadratic curves: 0.15 N (at least 6) further fonts of stream 3 in which 1-all of the "
        "component-free glyphs get 1-3 contours made of qcurve segments (replacing or next to their line/cubic contours, so that "
        "nested and transformed components carry them along): 'tt-ellipse' = an ellipse as a TrueType font stores it (8-24 "
        "quadratic arcs, an explicit on-curve point every 1-4 arcs, the others implied, integer coordinates, radii 12-280, either "
        "direction, any start point incl. off-curve), 'cu2qu' = a smooth random closed cubic outline (3-6 nodes, optionally one "
        "straight side) passed through fontTools' Cu2QuPen(max_err=1, all_quadratic) and rounded, in the generator, 'rough' = "
        "random line/qcurve contours with 1-3 off-curve points per segment.  The first two are smooth splines, i.e. what a "
        "curve re-fitting step (qu2cu, simplification, ...) gated on one of the three options would change; built and compared "
        "under the same 18 (+4) combinations (the compiler has to turn every quadratic segment into the same cubic curve - exact "
        "degree elevation, then rounding - whatever the options are). "
        "(6) families of near-duplicate glyphs: 0.1 N (at least 8) further fonts of stream 3 that additionally contain 1-2 "
        "families = a base glyph of 2-3 closed contours (3-6 line/cubic segments each, integer coordinates, first point an on-curve "
        "'line' point) and 2-4 glyphs derived from the base (or from an earlier member) by ONE structural edit, nearly always "
        "with the base's advance width (10 %: a different one), inserted at random places of the glyph order: join / joinall "
        "(two / all contours concatenated into one: same points, types and order, one rmoveto becomes an rlineto with the same "
        "operands), split (the converse), dup, dupwidth (same outline, other width), shift (translated: all relative operands but "
        "the first equal), polyline (every curve replaced by three lines: same flat operand list), reorder (contours rotated), "
        "restart (another start point).  Every such font has at least one join/joinall/split member, i.e. two glyphs that an "
        "encoder sharing work between look-alike glyphs (memo of specialised programs, subroutines) could confuse; built and "
        "compared under the same 18 (+4) combinations, glyph by glyph. "
        "non-trivial = at least 3 outlined glyphs and all but at most 2 combinations successful (fonts); input table present "
        "(dispatch); drawing changed (spec); the observed rename map is not idempotent or renames at least 2 glyphs (names).")
ASSUMED = [
    "external encoders are hypotheses of C12_pipeline_draw, measured on every generated font, not proved: fontTools "
    "specializeCommands passes 4-7 + commandsToProgram, cffsubr (tx, a C++ binary), compreffor, convertCFFToCFF2 re-encode "
    "without changing what is drawn; passes 1-3 of specializeCommands ARE modelled (specTopo) and tied by correspondence",
    "the pre-processor (OTFPreProcessor: decomposition, overlap removal, the filters) and the outline compiler's pen path "
    "(quadratic -> cubic degree elevation in T2CharStringPen, rounding) never read the three options: not modelled - the model "
    "takes the optimizeCFF=0 / CFF 1 drawing as its input and predicts every other combination from it - but measured on every "
    "generated font incl. the quadratic-source stream (5)",
    "hmtx and GSUB/GPOS/GDEF are built by code that never reads the three options (modelFont copies them from the reference "
    "font); measured on every generated font",
    "each glyph's charstring is produced from that glyph's pen commands and width alone (getCharStringForGlyph keeps no state "
    "between glyphs): the model maps the reference drawings glyph by glyph (C12_glyphwise), so anything shared between glyphs "
    "by the real encoders is outside the model and is measured - on every font, and specifically on the look-alike families "
    "of stream (6)",
    "fontTools.cffLib.width.optimizeWidths is an input of the width model (any pair is proved correct)",
    "glyph identity: fontTools writes a 'CFF ' table by walking topDict.charset and looking each name up in CharStrings "
    "(modelled as `savedIndex`, tied by correspondence on every font of stream 4), addresses CFF2 charstrings by glyph index, "
    "and leaves hmtx/cmap/GSUB/GPOS/GDEF of a reloaded font untouched (measured per font: advances and layout digests per "
    "index); glyph orders have distinct names and start with '.notdef' (hypotheses of C12_names_content / C12_cff1_writable, "
    "evaluated by the driver on every input: met on all); the naming code itself is the Lean model of "
    "property C11 (Model/C11.lean: decide', buildProductionNames, renameGlyphs), reused unchanged, with C11_distinct and "
    "C11_perm_charStrings as lemmas",
]

EXTRA = ["defaults", [{"b": True}, 1, None], [{"b": False}, 2, None], [{"i": 2}, None, "compreffor"]]
COMBOS = [[{"i": o}, v, s] for o in (0, 1, 2) for s in (None, "cffsubr", "compreffor") for v in (1, 2)] + EXTRA
REF = 0  # index of the reference combination (optimizeCFF=0, subroutinizer=None, cffVersion=1)


def _uses_tx(c):
    if c == "defaults":
        return True
    o = c[0]
    return (o["b"] if "b" in o else o["i"] >= 2) and c[2] != "compreffor"


# with a non-default roundTolerance coordinates may stay fractional, and tx (cffsubr) re-writes fractional
# numbers with about two decimals (drift of ~0.01 unit, accumulating along the path: measured, external, and
# outside the property's quantifier, which does not include roundTolerance): those fonts skip the cffsubr runs
COMBOS_NOTX = [c for c in COMBOS if not _uses_tx(c)]

OPTS = [{"b": False}, {"b": True}, {"i": -1}, {"i": 0}, {"i": 1}, {"i": 2}, {"i": 3}, {"i": 7}]
VERS = [None, 0, 1, 2, 3]
SUBS = [None, "cffsubr", "compreffor", "bogus", ""]
IVS = [None, 1, 2]

logging.getLogger("ufo2ft").setLevel(logging.ERROR)
logging.getLogger("fontTools").setLevel(logging.ERROR)
logging.getLogger("cffsubr").setLevel(logging.ERROR)
logging.getLogger("compreffor").setLevel(logging.ERROR)


# ------------------------------------------------------------------ generators

def _degenerate(rng, g):
    """append contours that the specialiser's topology passes act on"""
    x0, y0 = rng.randrange(-200, 400), rng.randrange(-200, 400)
    kind = rng.choice(["zero", "roundzero", "hrun", "vrun", "reversal", "retract", "retract0", "single", "singles", "mix"])
    L = "line"
    if kind == "zero":
        c = [[x0, y0, L], [x0 + 100, y0, L], [x0 + 100, y0 + 100, L], [x0 + 100, y0 + 100, L], [x0, y0 + 80, L]]
    elif kind == "roundzero":   # distinct source points that coincide after rounding
        c = [[x0, y0, L], [x0 + 100.25, y0 + 50, L], [x0 + 100, y0 + 50.25, L], [x0, y0 + 80, L]]
    elif kind == "hrun":
        c = [[x0, y0, L], [x0 + 50, y0, L], [x0 + 120, y0, L], [x0 + 200, y0, L], [x0 + 200, y0 + 100, L], [x0, y0 + 100, L]]
    elif kind == "vrun":
        c = [[x0, y0, L], [x0 + 100, y0, L], [x0 + 100, y0 + 40, L], [x0 + 100, y0 + 90, L], [x0, y0 + 90, L]]
    elif kind == "reversal":    # goes right, comes back on the same line (sum may be zero)
        back = rng.choice([50, 100])
        c = [[x0, y0, L], [x0 + 100, y0, L], [x0 + 100 - back, y0, L], [x0 + 30, y0 + 100, L]]
    elif kind == "retract":     # curve with both handles on their on-curve points
        c = [[x0, y0, L], [x0, y0, None], [x0 + 100, y0 + 30, None], [x0 + 100, y0 + 30, "curve"], [x0 + 50, y0 + 100, L]]
    elif kind == "retract0":    # the same, axis-parallel or of zero length, next to a line on the same axis
        dx = rng.choice([0, 100])
        c = [[x0, y0, L], [x0 + 60, y0, L], [x0 + 60, y0, None], [x0 + 60 + dx, y0, None], [x0 + 60 + dx, y0, "curve"],
             [x0 + 200, y0, L], [x0 + 100, y0 + 100, L]]
    elif kind == "single":
        c = [[x0, y0, L]]
    elif kind == "singles":
        g["contours"].insert(0, [[x0 + 7, y0 + 9, L]])
        c = [[x0, y0, L]]
    else:
        c = [[x0, y0, L], [x0 + 10, y0, L], [x0 + 10, y0, L], [x0 + 30, y0, L], [x0 + 30, y0 + 20, L], [x0 + 30, y0 + 50, L],
             [x0 + 30, y0 + 50, None], [x0, y0 + 50, None], [x0, y0 + 50, "curve"]]
    pos = rng.randrange(len(g["contours"]) + 1)
    g["contours"].insert(pos, c)
    return kind


KEY_USE = "com.github.googlei18n.ufo2ft.useProductionNames"
KEY_KEEP = "com.github.googlei18n.ufo2ft.keepGlyphNames"
KEY_DONT = "com.schriftgestaltung.Don't use Production Names"
KEY_PS = "public.postscriptNames"
UNI_POOL = ["uni0042", "uni0043", "uni0044", "uni0046", "u1F600"]


def _ps_map(rng, real):
    """a public.postscriptNames map made of 1-3 patterns; most of them are NOT idempotent (a production name
    that is also the source name of another renamed glyph: swap, cycle, chain), which is where a structure
    renamed twice, or renamed from an already renamed one, shows"""
    ps, pats = {}, []
    for _ in range(rng.choice([1, 1, 2, 3])):
        free = [n for n in real if n not in ps]
        pat = rng.choice(["swap", "swap", "cycle", "chain", "chain", "collide", "fresh", "messy", "taken"])
        if pat == "swap" and len(free) >= 2:
            a, b = rng.sample(free, 2)
            ps[a], ps[b] = b, a
        elif pat == "cycle" and len(free) >= 3:
            a, b, c = rng.sample(free, 3)
            ps[a], ps[b], ps[c] = b, c, a
        elif pat == "chain" and len(free) >= 2:
            k = rng.randrange(2, min(4, len(free)) + 1)
            ch = rng.sample(free, k)
            for x, y in zip(ch, ch[1:]):      # the last one keeps its name (or is renamed by a later pattern)
                ps[x] = y
        elif pat == "collide" and len(free) >= 2:
            a, b = rng.sample(free, 2)
            ps[a] = ps[b] = rng.choice(["same", a, "uni0058"])
        elif pat == "fresh" and free:
            for a in rng.sample(free, rng.randrange(1, min(3, len(free)) + 1)):
                ps[a] = rng.choice(["uni%04X" % rng.randrange(0x100, 0x3000), a + ".ps", "glyph%d" % rng.randrange(99)])
        elif pat == "messy" and free:
            a = rng.choice(free)
            ps[a] = rng.choice([a + "-x y", "x" * 70, "", "A(" + a + ")"])
        elif pat == "taken" and len(real) >= 2 and free:
            a = rng.choice(free)              # the name of a glyph that keeps its own name
            ps[a] = rng.choice([n for n in real if n != a] + [".notdef"])
        else:
            continue
        pats.append(pat)
    # '.notdef' is a glyph like any other for the map (it is in the post-processor's glyph set even when ufo2ft
    # synthesises it): an entry FOR it, and entries that ask for its name
    if rng.random() < 0.25:
        ps[".notdef"] = rng.choice(["nd", "notdef", ".notdef", "", "null"] + real[:2])
        pats.append("notdef-key")
    if real and rng.random() < 0.15:
        ps[rng.choice(real)] = ".notdef"
        pats.append("notdef-value")
    return ps, pats


def _names_cfg(rng, fd, auto):
    """how glyph names are to be finalised: the useProductionNames argument, the three lib switches and the
    public.postscriptNames map (with entries for '.notdef' and entries asking for the name '.notdef')"""
    real = [g["name"] for g in fd["glyphs"] if g["name"] != ".notdef"]
    lib = fd.setdefault("lib", {})
    pats = []
    if not auto:
        ps, pats = _ps_map(rng, real)
        if ps or rng.random() < 0.5:
            lib[KEY_PS] = ps
    arg = rng.choice([None, None, None, True, True, False]) if not auto else rng.choice([True, True, True, None])
    r = rng.random()
    if r < 0.12 or (auto and arg is None):
        lib[KEY_USE] = True if auto else rng.choice([True, False])
    elif r < 0.2:
        lib[KEY_DONT] = rng.choice([True, False])
    if rng.random() < 0.12:
        lib[KEY_KEEP] = rng.choice([False, False, True])
    return {"arg": arg, "pats": ["auto"] if auto else pats}


def _font(rng, mode, prodnames=False):
    auto = prodnames and rng.random() < 0.3
    kw = {}
    if prodnames:
        from gen import NAMES
        kw = {"nglyphs": rng.choice([2, 3, 5, 8, 12]), "names": NAMES + (UNI_POOL if auto else [])}
    fd = outline_font(rng, kinds=rng.choice([("line",), ("line", "curve"), ("line", "curve", "curve")]),
                      grid=rng.choice([1, 1, 4]), half=rng.choice([0.0, 0.3]),
                      mats=rng.choice([("id",), ("id", "mirrorx", "rot90", "half", "shear", "sc15", "mirrorshear")]),
                      maxdepth=3, pcomp=0.4, mixed=0.3, open_=0.1, widthhalf=0.25, lim=500, **kw)
    glyphs = fd["glyphs"]
    if rng.random() < 0.4:
        old = glyphs[0]["name"]
        glyphs[0]["name"] = ".notdef"
        for g in glyphs:
            for c in g["components"]:
                if c[0] == old:
                    c[0] = ".notdef"
    names = [g["name"] for g in glyphs]
    # two input shapes on which the external tx binary behind cffsubr fails are kept out of the random stream
    # (they have their own fixed cases, see QUIRKS): a font without any outline, and the glyph orders
    # ['.notdef'] / ['.notdef', 'space']
    if not any(g["contours"] for g in glyphs):
        glyphs[-1]["contours"] = [[[0, 0, "line"], [120, 0, "line"], [60, 90, "line"]]]
        glyphs[-1]["components"] = []
    if [n for n in names if n != ".notdef"] in ([], ["space"]):
        glyphs[-1]["name"] = "Zed"
        names = [g["name"] for g in glyphs]
    # widths: clusters so that default-width omission is exercised
    common = rng.choice([500, 600, 250])
    for g in glyphs:
        r = rng.random()
        if r < 0.4:
            g["width"] = common
        elif r < 0.5:
            g["width"] = common + rng.choice([0.5, -0.5, 0.25, -0.25])
        elif r < 0.55:
            g["width"] = 0
    infoD = infoN = None
    r = rng.random()
    if r < 0.2:
        infoD = rng.choice([common, common + 1, common + 0.5, 0, 200])
    elif r < 0.3:
        infoN = rng.choice([common, 300, 0, 612.5])
    elif r < 0.5:
        infoD = rng.choice([common, common - 0.5, 0, 1000]); infoN = rng.choice([common, 0, 450, 1000.5])
    if infoD is not None:
        fd["info"]["postscriptDefaultWidthX"] = infoD
    if infoN is not None:
        fd["info"]["postscriptNominalWidthX"] = infoN
    # unicodes
    cp = 0x41
    for g in glyphs:
        if g["name"] != ".notdef" and rng.random() < 0.7:
            g["unicodes"] = [cp]; cp += 1
    # layout sources: kerning, anchors, one GSUB rule
    real = [n for n in names if n != ".notdef"]
    kern = []
    if len(real) >= 2 and rng.random() < 0.7:
        for _ in range(rng.randrange(1, 5)):
            a, b = rng.choice(real), rng.choice(real)
            if not any(k[0] == a and k[1] == b for k in kern):
                kern.append([a, b, rng.choice([-50, -20, 15, 40, -33])])
    fd["kerning"] = kern
    if len(real) >= 2 and rng.random() < 0.5:
        base, mark = rng.sample(real, 2)
        for g in glyphs:
            if g["name"] == base:
                g["anchors"].append(["top", rng.randrange(0, 500), rng.randrange(300, 800)])
            if g["name"] == mark:
                g["anchors"].append(["_top", rng.randrange(0, 300), rng.randrange(300, 800)])
    if len(real) >= 2 and rng.random() < 0.5:
        a, b = rng.sample(real, 2)
        fd["features"] = "feature liga { sub %s by %s; } liga;\n" % (a, b)
    degen = []
    pdeg = 0.6 if mode == "search" else 0.25
    if rng.random() < pdeg:
        cands = [g for g in glyphs if not g["components"]] or glyphs[:1]
        for _ in range(rng.choice([1, 1, 2, 3])):
            degen.append(_degenerate(rng, rng.choice(cands)))
    # roundTolerance is orthogonal to the three options of the property: mostly the default, sometimes not
    tol = rng.choice([None, None, None, None, 0.5, 0.25, 0.25, 0])
    case = {"kind": "font", "fd": fd, "lib": rng.choice(["ufoLib2", "defcon"]), "degen": sorted(set(degen)), "tol": tol}
    if prodnames:
        if rng.random() < 0.5:    # an explicit glyph order, so that production names do not follow the sorted order
            order = [g["name"] for g in glyphs if g["name"] != ".notdef"]
            rng.shuffle(order)
            fd["glyphOrder"] = ([".notdef"] if any(g["name"] == ".notdef" for g in glyphs) else []) + order
        case["names"] = _names_cfg(rng, fd, auto)
        case["tol"] = rng.choice([None, None, 0.5])
    return case


# ------------------------------------------------------------------ sources drawn with quadratic curves

def _tt_ellipse(rng, cx, cy, rx, ry):
    """an ellipse the way a TrueType font stores it: n quadratic arcs, an explicit on-curve point every k arcs
    (the others implied), integer coordinates; smooth, so that a curve-fitting step has something to merge"""
    import math
    n = rng.choice([8, 12, 12, 16, 16, 24])
    k = rng.choice([d for d in (1, 1, 2, 3, 4) if n % d == 0])
    ph = rng.random() * 2 * math.pi
    sec = 1 / math.cos(math.pi / n)
    pts = []
    for i in range(n):
        a = ph + 2 * math.pi * i / n
        if i % k == 0:
            a0 = a - math.pi / n
            pts.append([round(cx + rx * math.cos(a0)), round(cy + ry * math.sin(a0)), "qcurve"])
        pts.append([round(cx + sec * rx * math.cos(a)), round(cy + sec * ry * math.sin(a)), None])
    if rng.random() < 0.4:
        pts = pts[::-1]
    # UFO contours may start anywhere, also on an off-curve point
    r = rng.randrange(len(pts)) if rng.random() < 0.5 else 0
    return pts[r:] + pts[:r]


def _cu2qu_blob(rng, cx, cy, r):
    """a smooth closed cubic outline (star-shaped, tangent-continuous) with an optional straight cut, converted
    with fontTools' Cu2QuPen (max_err 1, all_quadratic) and rounded - the outline of a source that started its
    life as a TrueType font.  Done here, in the generator: the case stores the resulting qcurve points."""
    import math
    from fontTools.pens.cu2quPen import Cu2QuPen
    from fontTools.pens.recordingPen import RecordingPen
    m = rng.choice([3, 4, 4, 5, 6])
    ph = rng.random() * 2 * math.pi
    rad = [r * rng.uniform(0.7, 1.2) for _ in range(m)]
    on = [(cx + rad[i] * math.cos(ph + 2 * math.pi * i / m), cy + rad[i] * math.sin(ph + 2 * math.pi * i / m)) for i in range(m)]
    t = 0.35 * rng.uniform(0.8, 1.2)
    tan = [((on[(i + 1) % m][0] - on[i - 1][0]) * t / 2, (on[(i + 1) % m][1] - on[i - 1][1]) * t / 2) for i in range(m)]
    cut = rng.randrange(m) if rng.random() < 0.4 else None
    rec = RecordingPen()
    pen = Cu2QuPen(rec, 1.0, all_quadratic=True)
    pen.moveTo(on[0])
    for i in range(m):
        j = (i + 1) % m
        if i == cut:
            pen.lineTo(on[j])
        else:
            pen.curveTo((on[i][0] + tan[i][0], on[i][1] + tan[i][1]), (on[j][0] - tan[j][0], on[j][1] - tan[j][1]), on[j])
    pen.closePath()
    pts = []
    for op, args in rec.value:
        if op == "lineTo":
            pts.append([round(args[0][0]), round(args[0][1]), "line"])
        elif op == "qCurveTo":
            for q in args[:-1]:
                pts.append([round(q[0]), round(q[1]), None])
            pts.append([round(args[-1][0]), round(args[-1][1]), "qcurve"])
    # the closing point of the pen protocol is the moveTo point again
    if len(pts) > 1 and pts[-1][:2] == [round(on[0][0]), round(on[0][1])] and pts[-1][2] == "line":
        pts.pop()
    return pts


def _quad_contour(rng, style):
    cx, cy = rng.randrange(100, 500), rng.randrange(0, 600)
    if style == "tt-ellipse":
        big = rng.random() < 0.6
        return _tt_ellipse(rng, cx, cy, rng.randrange(60, 280) if big else rng.randrange(12, 60),
                           rng.randrange(60, 280) if big else rng.randrange(12, 60))
    if style == "cu2qu":
        return _cu2qu_blob(rng, cx, cy, rng.choice([40, 90, 150, 220, 300]))
    from gen import contour
    return contour(rng, ("line", "qcurve", "qcurve"), 1, 500, 0.0, offstart=True)


def _quadratic(rng, case):
    """turn some glyphs of a font case into glyphs drawn with quadratic curves (all contours, or next to the
    cubic/line contours they have), so that components - nested, transformed - carry them along"""
    styles = []
    glyphs = case["fd"]["glyphs"]
    cands = [g for g in glyphs if not g["components"]] or glyphs[:1]
    rng.shuffle(cands)
    for g in cands[:max(1, rng.choice([1, 2, 3, len(cands)]))]:
        if rng.random() < 0.6:
            g["contours"] = []
        for _ in range(rng.choice([1, 1, 2, 3])):
            st = rng.choice(["tt-ellipse", "tt-ellipse", "cu2qu", "cu2qu", "rough"])
            g["contours"].insert(rng.randrange(len(g["contours"]) + 1), _quad_contour(rng, st))
            styles.append(st)
    case["quad"] = sorted(set(styles))
    case["tol"] = rng.choice([None, None, None, 0.5])
    return case


# ------------------------------------------------------------------ families of near-duplicate glyphs

def _vcontour(rng, x0, y0):
    """a closed contour of 3-6 line / cubic segments on integer coordinates whose FIRST point is an on-curve 'line'
    point (so the closing segment is the implied line, and cutting / concatenating point lists at 'line' points
    cuts / concatenates the pen's command list without touching any operand)"""
    pts = [[x0, y0, "line"]]
    x, y = x0, y0
    step = lambda: rng.choice([-1, 1]) * rng.randrange(10, 140)
    for _ in range(rng.randrange(2, 6)):
        if rng.random() < 0.3:
            a, b = x + step(), y + step()
            c, d = a + step(), b + step()
            x, y = c + step(), d + step()
            pts += [[a, b, None], [c, d, None], [x, y, "curve"]]
        else:
            x, y = x + step(), y + step()
            pts.append([x, y, "line"])
    return pts


VARIANT_KINDS = ["join", "join", "joinall", "split", "split", "dup", "dupwidth", "shift", "polyline", "reorder", "restart"]
_CUTS = ("join", "joinall", "split")


def _variant(rng, kind, cs):
    """a glyph outline derived from the contours `cs` by ONE structural edit; None when the edit does not apply.
    join/joinall/split keep every point, its type and the order (only the partition into contours changes: one
    rmoveto <-> rlineto with the same operands); dup/dupwidth keep everything; shift keeps all relative operands
    but the first; polyline keeps the flat operand list (a curve becomes three lines); reorder keeps the set of
    contours; restart keeps the shape"""
    cp = lambda c: [list(p) for p in c]
    cs = [cp(c) for c in cs]
    if kind == "join" and len(cs) >= 2:
        i = rng.randrange(len(cs) - 1)
        return cs[:i] + [cs[i] + cs[i + 1]] + cs[i + 2:]
    if kind == "joinall" and len(cs) >= 2:
        return [[p for c in cs for p in c]]
    if kind == "split":
        where = [(i, j) for i, c in enumerate(cs) for j in range(2, len(c) - 1)
                 if c[j][2] == "line" and sum(1 for p in c[j:] if p[2]) >= 2]
        if where:
            i, j = rng.choice(where)
            return cs[:i] + [cs[i][:j], cs[i][j:]] + cs[i + 1:]
        return None
    if kind in ("dup", "dupwidth"):
        return cs
    if kind == "shift":
        dx, dy = rng.randrange(-80, 80), rng.randrange(-80, 80)
        return [[[p[0] + dx, p[1] + dy, p[2]] for p in c] for c in cs]
    if kind == "polyline" and any(p[2] == "curve" for c in cs for p in c):
        return [[[p[0], p[1], "line"] for p in c] for c in cs]
    if kind == "reorder" and len(cs) >= 2:
        r = rng.randrange(1, len(cs))
        return cs[r:] + cs[:r]
    if kind == "restart":
        i = rng.randrange(len(cs))
        where = [j for j in range(1, len(cs[i])) if cs[i][j][2] == "line"]
        if where:
            j = rng.choice(where)
            return cs[:i] + [cs[i][j:] + cs[i][:j]] + cs[i + 1:]
    return None


def _variants(rng, case):
    """add 1-2 families of near-duplicate glyphs to a font case: a base glyph of 2-3 contours and 2-4 glyphs derived
    from it (or from an earlier member of the family) by one structural edit each, nearly always with the base's
    advance width, at random places of the glyph order.  Every font gets at least one join/joinall/split member:
    two glyphs whose pen commands carry the very same operands in the very same order and differ in ONE operator
    (rmoveto <-> rlineto).  Whatever the encoder shares between glyphs that look alike to it (a memo of specialised
    programs, subroutines, a de-duplicated charstring INDEX) is exercised by such a family."""
    fd = case["fd"]
    glyphs = fd["glyphs"]
    kinds = []
    for f in range(rng.choice([1, 1, 2])):
        x0, y0 = rng.randrange(0, 300), rng.randrange(-100, 300)
        base = []
        for _ in range(rng.choice([2, 2, 3])):
            base.append(_vcontour(rng, x0, y0))
            x0, y0 = x0 + rng.randrange(-150, 300), y0 + rng.randrange(-150, 300)
        w = rng.choice([g["width"] for g in glyphs] + [500, 437])
        family = [("fam%d" % f, base, w)]
        want = [rng.choice(_CUTS)] + [rng.choice(VARIANT_KINDS) for _ in range(rng.choice([1, 2, 3]))]
        rng.shuffle(want)
        for k in want:
            src = family[0] if rng.random() < 0.7 else rng.choice(family)
            v = _variant(rng, k, src[1])
            if v is None:          # the edit does not apply to this member: the base always has two contours to join
                k, src = "join", family[0]
                v = _variant(rng, k, src[1])
            vw = src[2]
            if k == "dupwidth" or (k != "dupwidth" and rng.random() < 0.1):
                d = rng.choice([1, -20, 0.5, 100])
                vw = src[2] + (d if src[2] + d >= 0 else -d)   # ufo2ft rejects negative advances (ValueError): stay valid
            family.append(("fam%d.%s%d" % (f, k, len(family)), v, vw))
            kinds.append(k)
        for nm, cs, gw in family:
            glyphs.insert(rng.randrange(len(glyphs) + 1),
                          {"name": nm, "width": gw, "unicodes": [], "contours": cs, "components": [], "anchors": []})
    case["variants"] = sorted(set(kinds))
    case["tol"] = rng.choice([None, None, None, 0.5])
    return case


_TRI = [[[0, 0, "line"], [120, 0, "line"], [60, 90, "line"]]]
QUIRKS = [
    {"kind": "font", "lib": "ufoLib2", "degen": [], "quirk": "order-notdef-space",
     "fd": {"info": {}, "glyphs": [{"name": "space", "width": 250, "unicodes": [32], "contours": _TRI, "components": [], "anchors": []}]}},
    {"kind": "font", "lib": "defcon", "degen": [], "quirk": "order-notdef",
     "fd": {"info": {}, "glyphs": [{"name": ".notdef", "width": 500, "unicodes": [], "contours": _TRI, "components": [], "anchors": []}]}},
    {"kind": "font", "lib": "ufoLib2", "degen": [], "quirk": "no-outlines",
     "fd": {"info": {}, "glyphs": [{"name": ".notdef", "width": 500, "unicodes": [], "contours": [], "components": [], "anchors": []},
                                   {"name": "A", "width": 600, "unicodes": [65], "contours": [], "components": [], "anchors": []}]}},
]



# the former finding C12-cff1-notdef-renamed (fixed in /repo: '.notdef' is exempt from renaming), kept as a fixed case
NOTDEF_QUIRK = {"kind": "font", "lib": "ufoLib2", "degen": [], "quirk": "notdef-renamed", "tol": None,
                "names": {"arg": None, "pats": ["notdef"]},
                "fd": {"info": {}, "lib": {KEY_PS: {".notdef": "nd", "A": "B", "B": "A"}},
                       "glyphs": [{"name": ".notdef", "width": 500, "unicodes": [], "contours": _TRI, "components": [], "anchors": []},
                                  {"name": "A", "width": 600, "unicodes": [65], "contours": [[[10, 0, "line"], [130, 5, "line"], [70, 95, "line"]]], "components": [], "anchors": []},
                                  {"name": "B", "width": 450, "unicodes": [66], "contours": [[[0, 10, "line"], [90, 10, "line"], [90, 80, "line"], [5, 70, "line"]]], "components": [], "anchors": []}]}}

SPEC_MOVES = [["m", 0, 0], ["m", 3, 1]]
SPEC_FULL = [["m", 0, 0], ["m", 3, 0], ["m", 1, 1],
             ["l", 0, 0], ["l", 3, 0], ["l", -3, 0], ["l", 0, 2], ["l", 0, -2], ["l", 1, 1],
             ["c", 0, 0, 1, 1, 0, 0], ["c", 0, 0, 3, 0, 0, 0], ["c", 0, 0, 0, 0, 0, 0], ["c", 2, 0, 1, 1, 0, 2], ["c", 0, 0, 1, 1, 2, 0]]
SPEC_SMALL = [["m", 1, 1], ["l", 0, 0], ["l", 3, 0], ["l", -3, 0], ["l", 0, 2], ["c", 0, 0, 3, 0, 0, 0]]


def gen(rng, n, mode):
    for q in QUIRKS:
        yield q
    yield NOTDEF_QUIRK
    tuples = [[iv, o, v, s] for iv in IVS for o in OPTS for v in VERS for s in SUBS]
    for i in range(0, len(tuples), 100):
        yield {"kind": "dispatch", "items": tuples[i:i + 100]}
    # the same through the public entry point (argument plumbing of OTFCompiler/BaseCompiler, dataclass defaults)
    pub = [[1, o, v, s] for o in OPTS for v in VERS for s in SUBS] + [[1, "defaults", None, None]]
    for i in range(0, len(pub), 67):
        yield {"kind": "dispatch", "items": pub[i:i + 67], "via": "compileOTF"}
    # fontTools' specialiser against the model of its topology passes, exhaustively in a small scope
    # (through T2CharStringPen.getCharString(optimize=...), the call ufo2ft makes)
    big = n > 1000
    seqs = []
    for first in SPEC_MOVES:
        for k in range(0, 4 if big else 3):
            for t in itertools.product(SPEC_FULL, repeat=k):
                seqs.append([first] + list(t))
    for k in ((4, 5) if big else (3, 4)):
        for t in itertools.product(SPEC_SMALL, repeat=k):
            seqs.append([SPEC_MOVES[1]] + list(t))
    for i in range(0, len(seqs), 400):
        yield {"kind": "spec", "items": seqs[i:i + 400]}
    for _ in range(n):
        yield _font(rng, mode)
    # the same fonts built with production names (a separate stream, after the others, so that those keep
    # their inputs for a given seed)
    for _ in range(max(4, int(n * NAMES_SHARE))):
        yield _font(rng, mode, prodnames=True)
    # sources drawn with quadratic curves (TrueType-style splines), again a separate stream at the end
    for _ in range(max(6, int(n * QUAD_SHARE))):
        yield _quadratic(rng, _font(rng, mode))
    # families of near-duplicate glyphs (same operands, one operator / the width / the start differs), again at the end
    for _ in range(max(8, int(n * VAR_SHARE))):
        yield _variants(rng, _font(rng, mode))


# ------------------------------------------------------------------ running the implementation

_cache = {}


def _tiny_ufo():
    return build({"glyphs": [{"name": ".notdef", "width": 500, "contours": []},
                             {"name": "a", "width": 600, "unicodes": [97],
                              "contours": [[[0, 0, "line"], [100, 0, "line"], [100, 100, "line"], [40, 60, "line"]]]}]})


def _tiny_font(iv):
    """a real compiled font with no / 'CFF ' / 'CFF2' table (not post-processed by the code under test)"""
    from fontTools.ttLib import TTFont
    if iv not in _cache:
        from fontTools.cffLib.CFFToCFF2 import convertCFFToCFF2
        from ufo2ft.outlineCompiler import OutlineOTFCompiler, OutlineTTFCompiler
        from ufo2ft.preProcessor import OTFPreProcessor, TTFPreProcessor
        ufo = _tiny_ufo()
        if iv is None:
            tt = OutlineTTFCompiler(ufo, glyphSet=TTFPreProcessor(ufo).process()).compile()
        else:
            tt = OutlineOTFCompiler(ufo, glyphSet=OTFPreProcessor(ufo).process(), optimizeCFF=False).compile()
            if iv == 2:
                convertCFFToCFF2(tt)
        b = io.BytesIO(); tt.save(b)
        _cache[iv] = b.getvalue()
    return TTFont(io.BytesIO(_cache[iv]))


def _pyopt(o):
    return o["b"] if "b" in o else o["i"]


def _specialize_effect(o):
    """does OutlineOTFCompiler specialise charstrings for this optimizeCFF value? (read off the program)"""
    key = ("spec", str(o))
    if key not in _cache:
        from ufo2ft.outlineCompiler import OutlineOTFCompiler
        from ufo2ft.preProcessor import OTFPreProcessor
        ufo = _tiny_ufo()
        tt = OutlineOTFCompiler(ufo, glyphSet=OTFPreProcessor(ufo).process(), optimizeCFF=_pyopt(o)).compile()
        cs = tt["CFF "].cff[0].CharStrings["a"]
        cs.decompile()
        ops = [t for t in cs.program if isinstance(t, str)]
        generic = set(ops) <= {"rmoveto", "rlineto", "rrcurveto", "endchar"}
        _cache[key] = (not generic) and ("hlineto" in ops or "hmoveto" in ops or "vlineto" in ops)
        if generic == _cache[key]:
            raise AssertionError("cannot tell whether the charstring is specialised: %r" % ops)
    return _cache[key]


def _dispatch_one(iv, o, v, s, via_compile=False):
    """iv/o/v/s as in the protocol; via_compile: go through the public compileOTF (iv is then 1 by construction);
    o == "defaults": call compileOTF without any of the three arguments"""
    import cffsubr
    import compreffor
    import ufo2ft
    import ufo2ft.postProcessor as pp
    calls = []
    otf = None if via_compile else _tiny_font(iv)
    saved = (cffsubr.subroutinize, compreffor.compress, pp.convertCFFToCFF2)

    def f_cffsubr(font, cff_version=None, keep_glyph_names=True, inplace=True):
        calls.append(["subr", "cffsubr", int(cff_version) if cff_version is not None else iv])
        return font

    def f_compress(font, *a, **k):
        calls.append(["subr", "compreffor", 1 if "CFF " in font else 2])

    def f_convert(font, *a, **k):
        calls.append("convert")

    cffsubr.subroutinize, compreffor.compress, pp.convertCFFToCFF2 = f_cffsubr, f_compress, f_convert
    err = None
    spec = None
    try:
        if via_compile:
            kw = {} if o == "defaults" else {"optimizeCFF": _pyopt(o), "cffVersion": v, "subroutinizer": s}
            tt = ufo2ft.compileOTF(_tiny_ufo(), **kw)
            cs = tt["CFF "].cff[0].CharStrings["a"]   # the stand-ins leave the table as the outline compiler wrote it
            cs.decompile()
            spec = "hlineto" in cs.program
        else:
            pp.PostProcessor(otf, _tiny_ufo()).process(useProductionNames=False, optimizeCFF=_pyopt(o), cffVersion=v, subroutinizer=s)
    except Exception as e:
        err = err_kind(e)
    finally:
        cffsubr.subroutinize, compreffor.compress, pp.convertCFFToCFF2 = saved
    if err is None:
        action = "leave" if not calls else calls[0] if len(calls) == 1 else ["subr", "several-calls", 1]
    else:
        action = None
        if calls:   # an encoder ran and then the call failed: not a clean refusal
            err = "Other:error-after-" + str(calls[0])
    if spec is None:
        # (only reached when the public call failed, or for the direct PostProcessor calls)
        spec = _specialize_effect(o) if o != "defaults" else False
    return {"err": err, "action": action, "specialize": spec}


class _Absent:
    def __repr__(self):
        return "absent"


_ABSENT = _Absent()


def _raw_width_operand(cs):
    """the width operand in front of the charstring program, or None when it is omitted"""
    from fontTools.misc.psCharStrings import T2WidthExtractor
    subrs = getattr(cs.private, "Subrs", [])
    ex = T2WidthExtractor(subrs, cs.globalSubrs, 0, _ABSENT, cs.private)
    ex.execute(cs)
    return None if ex.width is _ABSENT else ex.width


def _drawing(tt):
    from fontTools.pens.recordingPen import RecordingPen
    gs = tt.getGlyphSet()
    out = []
    for g in tt.getGlyphOrder():
        pen = RecordingPen()
        gs[g].draw(pen)
        ops = []
        for op, args in pen.value:
            flat = [c for p in args for c in p]
            if op == "moveTo":
                ops.append(["m"] + flat)
            elif op == "lineTo":
                ops.append(["l"] + flat)
            elif op == "curveTo" and len(flat) == 6:
                ops.append(["c"] + flat)
            elif op == "closePath":
                ops.append(["z"])
            else:
                raise ValueError("unexpected pen operation %s in compiled CFF glyph %s" % (op, g))
        out.append(ops)
    return out


UNIT = 65536  # CFF numbers are 16.16 fixed: with a non-default roundTolerance coordinates travel in 1/65536 units


def _scale(drawings, unit):
    out = []
    for d in drawings:
        g2 = []
        for ops in d:
            o2 = []
            for op in ops:
                vals = []
                for c in op[1:]:
                    v = c * unit
                    if int(v) != v:
                        raise ValueError("coordinate %r of a compiled CFF glyph is not a multiple of 1/%d" % (c, unit))
                    vals.append(int(v))
                o2.append([op[0]] + vals)
            g2.append(o2)
        out.append(g2)
    return out


def _observe(data):
    """read one saved font back"""
    from fontTools.ttLib import TTFont
    tt = TTFont(io.BytesIO(data))
    order = tt.getGlyphOrder()
    o = {"err": None, "tag": 1 if "CFF " in tt else 2 if "CFF2" in tt else 0, "order": order}
    o["post"] = int(round(tt["post"].formatType * 10)) if "post" in tt else 0
    o["layout"] = [hashlib.sha1(tt.getTableData(t)).hexdigest() if t in tt else "" for t in ("GSUB", "GPOS", "GDEF")]
    o["hmtx"] = [list(tt["hmtx"][g]) for g in order]
    o["drawing"] = _drawing(tt)
    # what each glyph index shows (outline + advance), for the glyph-identity comparison
    o["content"] = [hashlib.sha1(repr((d, h[0])).encode()).hexdigest()[:16] for d, h in zip(o["drawing"], o["hmtx"])]
    if o["tag"] == 1:
        top = tt["CFF "].cff[0]
        cs0 = top.CharStrings
        priv = top.Private
        o["dn"] = [priv.defaultWidthX, priv.nominalWidthX]
        o["enc"] = [_raw_width_operand(cs0[g]) for g in order]
        # fontTools' own decoding, as a cross-check of the independent extraction above
        o["ftwidth"] = []
        from fontTools.pens.basePen import NullPen
        for g in order:
            cs0[g].draw(NullPen())
            o["ftwidth"].append(cs0[g].width)
    return o


def _compile(case, combo, norename=False):
    """compileOTF + save are the implementation (their exceptions are observations, labelled by stage);
    reading the bytes back is fontTools' decompiler ("read:"); the extraction code of this harness runs
    outside any try so that its own bugs are never mistaken for behaviour of the code under test"""
    import ufo2ft
    from fontTools.ttLib import TTFont
    ufo = build(case["fd"], case["lib"])
    if combo == "defaults":
        kw = {}
    else:
        kw = {"optimizeCFF": _pyopt(combo[0]), "cffVersion": combo[1], "subroutinizer": combo[2]}
    if case.get("tol") is not None:
        kw["roundTolerance"] = case["tol"]
    if norename:
        kw["useProductionNames"] = False
    elif case.get("names") and case["names"]["arg"] is not None:
        kw["useProductionNames"] = case["names"]["arg"]
    try:
        tt = ufo2ft.compileOTF(ufo, **kw)
    except Exception as e:
        return {"err": err_kind(e)}
    try:
        b = io.BytesIO()
        tt.save(b)
    except Exception as e:
        return {"err": "save:" + err_kind(e)}
    try:
        tt2 = TTFont(io.BytesIO(b.getvalue()))
        for t in ("hmtx", "CFF ", "CFF2"):
            if t in tt2:
                tt2[t]
        gs = tt2.getGlyphSet()
        from fontTools.pens.basePen import NullPen
        for g in tt2.getGlyphOrder():
            gs[g].draw(NullPen())
    except Exception as e:
        return {"err": "read:" + err_kind(e)}
    return _observe(b.getvalue())


def _stored_names(r):
    """the glyph names a font stores: the CFF 1 charset, a format-2 'post' table; a CFF2 font with a format-3
    'post' table stores none (the names fontTools shows for it are made up)"""
    return None if (r["tag"] == 2 and r["post"] != 20) else r["order"]


def _names_in(case, order):
    """the post-processor's naming inputs: glyph order, glyph set (name -> first code point), public.postscriptNames,
    the useProductionNames argument and the three lib switches"""
    fd, nm = case["fd"], case["names"]
    lib = fd.get("lib", {})
    uni = {g["name"]: (g["unicodes"][0] if g.get("unicodes") else None) for g in fd["glyphs"]}
    ps = lib.get(KEY_PS)
    return {"order": order, "glyphSet": [[n, uni.get(n)] for n in order],
            "ps": None if ps is None else [[k, v] for k, v in ps.items()],
            "switches": {"arg": nm["arg"], "libUse": lib.get(KEY_USE), "libDont": lib.get(KEY_DONT),
                         "libKeep": lib.get(KEY_KEEP), "hasPs": ps is not None}}


def _names_req(case, combos, res, ref, twin):
    fd, nm = case["fd"], case["names"]
    lib = fd.get("lib", {})
    order = twin["order"]
    ps = lib.get(KEY_PS)
    fonts = [{"tag": r["tag"], "names": _stored_names(r)} for r in res if r["err"] is None and r["tag"] in (1, 2)]
    new = ref["order"]
    m = dict(zip(order, new)) if len(new) == len(order) else {}
    changed = [a for a in m if m[a] != a]
    t = ["names:" + p for p in nm["pats"]] + ["names:arg=%s" % nm["arg"]]
    t += ["names:lib-%s=%s" % (k.rsplit(".", 1)[-1].replace(" ", ""), lib[k]) for k in (KEY_USE, KEY_KEEP, KEY_DONT) if k in lib]
    t.append("names:renamed" if changed else "names:unchanged")
    nonidem = any(m[a] in m and m[m[a]] != m[a] for a in changed)
    if nonidem:
        t.append("names:non-idempotent-map")
    if any(f["names"] is None for f in fonts):
        t.append("names:dropped-in-CFF2")
    if any(a not in (ps or {}) or (ps or {}).get(a) != m[a] for a in changed):
        t.append("names:suffixed-or-derived")
    return {"op": "names", "in": _names_in(case, order),
            "obs": {"twin": twin["content"], "ref": ref["content"], "refNames": _stored_names(ref), "fonts": fonts},
            "tags": t, "nontrivial": nonidem or len(changed) >= 2}


def _run_font(case):
    fd = case["fd"]
    combos = COMBOS if case.get("tol") in (None, 0.5) else COMBOS_NOTX
    res = [_compile(case, c) for c in combos]
    nm = case.get("names")
    # the reference combination once more with renaming switched off: the SOURCE names and what each glyph shows
    twin = _compile(case, combos[REF], norename=True) if nm else res[REF]
    src_order = twin.get("order", []) if twin["err"] is None else res[REF].get("order", [])
    tags = [case["lib"]] + ["degen:" + d for d in case.get("degen", [])]
    if case.get("quirk"):
        tags.append("quirk:" + case["quirk"])
    elif not case.get("degen") and not nm and not case.get("quad") and not case.get("variants"):
        tags.append("plain")
    tags += ["quadratic:" + q for q in case.get("quad", [])]
    tags += ["variants:" + q for q in case.get("variants", [])]
    if any(p[2] == "qcurve" for g in fd["glyphs"] for c in g["contours"] for p in c):
        tags.append("has-qcurve")
    if nm:
        tags.append("production-names")
    draws, results = [], []
    allres = res + ([twin] if nm else [])
    allints = all(int(c) == c for r in allres if r["err"] is None for g in r["drawing"] for op in g for c in op[1:])
    unit = 1 if allints else UNIT
    for r in allres:
        if r["err"] is None:
            r["drawing"] = _scale([r["drawing"]], unit)[0]
    tags.append("tol:%s" % case.get("tol"))
    if unit != 1:
        tags.append("fractional-coordinates")

    def result_of(r):
        if r["err"] is not None:
            return {"err": r["err"]}
        if r["tag"] == 0:
            return {"err": "Other:NoCFFTable"}
        if r["drawing"] not in draws:
            draws.append(r["drawing"])
        return {"err": None, "tag": r["tag"], "draw": draws.index(r["drawing"]), "adv": [h[0] for h in r["hmtx"]],
                "lsb": [h[1] for h in r["hmtx"]], "layout": r["layout"]}
    results = [result_of(r) for r in res]
    twin_result = result_of(twin) if nm and twin["err"] is None else None
    ref = res[REF]
    nok = sum(1 for r in results if r["err"] is None)
    for c, r in zip(combos, results):
        if r["err"] is not None:
            tags.append("err:%s@%s" % (r["err"], "defaults" if c == "defaults" else "%s/%s/%s" % (_pyopt(c[0]), c[2], c[1])))
    outlined = sum(1 for g in fd["glyphs"] if g["contours"] or g["components"])
    nontrivial = outlined >= 3 and nok >= len(combos) - 2
    if len(draws) > 1:
        tags.append("drawings-differ")
    if any(any(op[0] == "c" for op in g) for g in (ref.get("drawing") or [])):
        tags.append("has-curves")
    if any(g["components"] for g in fd["glyphs"]):
        tags.append("has-components")
    if any(r["err"] is None and r["layout"][1] for r in results):
        tags.append("has-GPOS")
    # `order` = the names tx (cffsubr) sees: process_cff runs before process_glyph_names
    fin = {"combos": combos, "base": REF if ref["err"] is None else None, "order": src_order}
    fobs = {"draws": draws, "results": results}
    if twin_result is not None:
        # sources built with production names: the model predicts every combination from the build WITHOUT renaming
        fin["names"] = _names_in(case, twin["order"])
        fobs["twin"] = twin_result
    reqs = [{"op": "font", "in": fin, "obs": fobs, "tags": tags, "nontrivial": nontrivial}]
    if nm and ref["err"] is None and twin["err"] is None:
        reqs.append(_names_req(case, combos, res, ref, twin))
    # widths
    if ref["err"] is None:
        from fontTools.cffLib.width import optimizeWidths
        from fontTools.misc.roundTools import otRound
        src = {g["name"]: g["width"] for g in fd["glyphs"]}
        order = src_order if len(src_order) == len(ref["order"]) else ref["order"]
        # a synthesised .notdef is half an em wide (ufo2ft.outlineCompiler.makeMissingRequiredGlyphs)
        ws = [src[g] if g in src else otRound(fd.get("upm", 1000) * 0.5) for g in order]
        auto = optimizeWidths(sorted(otRound(w) for w in ws))
        infoD = fd["info"].get("postscriptDefaultWidthX")
        infoN = fd["info"].get("postscriptNominalWidthX")
        fonts, wtags = [], []
        for r in res:
            if r["err"] is not None:
                continue
            adv = [h[0] for h in r["hmtx"]]
            if r.get("tag") == 0:
                continue
            if r["tag"] == 1:
                fonts.append({"dn": r["dn"], "enc": r["enc"], "adv": adv, "ftwidth": r["ftwidth"]})
            else:
                fonts.append({"dn": None, "enc": None, "adv": adv})
        wtags.append("dn:auto" if infoD is None and infoN is None else "dn:info")
        if any(e is None for e in ref["enc"]):
            wtags.append("width-omitted")
        if any(otRound(w) == ref["dn"][0] and w != ref["dn"][0] for w in ws):
            wtags.append("rounds-to-default-but-differs")
        if any(int(w) != w for w in ws):
            wtags.append("fractional-width")
        if any(f["dn"] is not None and f["dn"] != ref["dn"] for f in fonts):
            wtags.append("backend-rechose-default/nominal")
        reqs.append({"op": "width",
                     "in": {"widths": [rat(w) for w in ws], "infoD": None if infoD is None else rat(infoD),
                            "infoN": None if infoN is None else rat(infoN), "auto": [int(auto[0]), int(auto[1])]},
                     "obs": {"ref": {"dn": ref["dn"], "enc": ref["enc"]}, "fonts": fonts},
                     "tags": wtags, "nontrivial": len(set(ws)) >= 2 and any(e is None for e in ref["enc"])})
    return reqs


def _spec_one(cmds):
    from types import SimpleNamespace
    from fontTools.pens.recordingPen import RecordingPen
    from fontTools.pens.t2CharStringPen import T2CharStringPen
    out = {}
    for key, optimize in (("plain", False), ("spec", True)):
        pen = T2CharStringPen(None, {})
        x = y = 0
        started = False
        for c in cmds:
            if c[0] == "m":
                if started:
                    pen.closePath()
                x += c[1]; y += c[2]
                pen.moveTo((x, y)); started = True
            elif c[0] == "l":
                x += c[1]; y += c[2]
                pen.lineTo((x, y))
            else:
                p1 = (x + c[1], y + c[2]); p2 = (p1[0] + c[3], p1[1] + c[4]); x, y = p2[0] + c[5], p2[1] + c[6]
                pen.curveTo(p1, p2, (x, y))
        if started:
            pen.closePath()
        cs = pen.getCharString(SimpleNamespace(nominalWidthX=0, defaultWidthX=0), [], optimize=optimize)
        rec = RecordingPen()
        cs.draw(rec)
        ops = []
        for op, args in rec.value:
            flat = [int(v) for pt in args for v in pt]
            ops.append([{"moveTo": "m", "lineTo": "l", "curveTo": "c", "closePath": "z"}[op]] + flat)
        out[key] = ops
    return out


def run(case):
    if case["kind"] == "spec":
        out = []
        for cmds in case["items"]:
            obs = _spec_one(cmds)
            t = ["spec", "spec:changes-drawing" if obs["plain"] != obs["spec"] else "spec:same-drawing"]
            out.append({"op": "spec", "in": {"cmds": cmds}, "obs": obs, "tags": t, "nontrivial": obs["plain"] != obs["spec"]})
        return out
    if case["kind"] == "dispatch":
        out = []
        via = case.get("via") == "compileOTF"
        for iv, o, v, s in case["items"]:
            obs = _dispatch_one(iv, o, v, s, via)
            t = ["dispatch:compileOTF" if via else "dispatch:PostProcessor", "iv:%s" % iv, "->" + (obs["err"] or (obs["action"] if isinstance(obs["action"], str) else "subr:" + obs["action"][1]))]
            out.append({"op": "dispatch", "in": {"iv": iv, "opt": o, "ver": v, "sub": s, "via": case.get("via")}, "obs": obs, "tags": t,
                        "nontrivial": iv is not None})
        return out
    return _run_font(case)


def agree(req, rep):
    m, o = rep["model"], req["obs"]
    if req["op"] in ("dispatch", "spec"):
        return m == o
    if req["op"] == "names":
        return m["ref"] == o["ref"] and m["refNames"] == o["refNames"] and m["fonts"] == [f["names"] for f in o["fonts"]]
    if req["op"] == "width":
        if m["dn"] != o["ref"]["dn"] or m["enc"] != o["ref"]["enc"]:
            return False
        for f in o["fonts"]:
            if f["adv"] != m["adv"]:
                return False
            if f["dn"] is not None and f["ftwidth"] != m["adv"]:
                return False
        return True
    if m is None:
        return False
    if len(m["results"]) != len(o["results"]):
        return False
    for a, b in zip(m["results"], o["results"]):
        if a["err"] is not None or b["err"] is not None:
            if a["err"] != b["err"]:
                return False
            continue
        if a["tag"] != b["tag"] or a["adv"] != b["adv"] or a["layout"] != b["layout"]:
            return False
        if m["draws"][a["draw"]] != o["draws"][b["draw"]]:
            return False
    # left side bearings (not part of the property's statement) must at least be a function of the drawing
    lsb = {}
    for b in o["results"]:
        if b["err"] is None and lsb.setdefault(b["draw"], b["lsb"]) != b["lsb"]:
            return False
    return True


def _notdef_renamed(req, m):
    """names the shape that WAS a defect of ufo2ft (C12-cff1-notdef-renamed, listed as kind=fixed, which suppresses
    nothing: a recurrence is a VIOLATION): public.postscriptNames has an entry for '.notdef', and the ONLY thing wrong
    is that exactly the combinations whose output is a 'CFF ' table returned a font that fontTools refuses to save
    (AssertionError: charset[0] == '.notdef'), every other combination being as the model predicts"""
    nin = req["in"].get("names")
    if not nin or not any(k == ".notdef" for k, _ in (nin["ps"] or [])):
        return False
    obs = req["obs"]["results"]
    if len(obs) != len(m["results"]) or not any(o["err"] == "save:AssertionError" for o in obs):
        return False
    for o, p in zip(obs, m["results"]):
        if p["err"] is None and p["tag"] == 1:
            if o["err"] != "save:AssertionError":
                return False
        elif o["err"] != p["err"] or (o["err"] is None and o["tag"] != p["tag"]):
            return False
    return True


def classify_failure(res):
    """The one known shape: the property fails on a font ONLY because optimizeCFF >= 1 runs fontTools'
    specializeCommands with preserveTopology=False, i.e. every observed font (error kinds, table tags, hmtx,
    layout, and every glyph's drawing) is exactly what the Lean model predicts, where the model's drawing for
    specialised combinations is `specTopo` (passes 1-3 of the specialiser) applied to the optimizeCFF=0 drawing."""
    req = res["req"]
    if req["op"] != "font" or res["holds"]:
        return None
    m = res["model"]
    if m is None:
        return None
    if _notdef_renamed(req, m):
        return {"kind": "cff1-notdef-renamed"}
    if not res["agree"]:
        return None
    merrs = {r["err"] for r in m["results"] if r["err"] not in (None, "NotImplementedError")}
    if merrs == {"save:AttributeError"}:
        return {"kind": "cffsubr-cff1-charset-omitted"}
    if merrs == {"Other:Error"}:
        return {"kind": "cffsubr-cff2-no-outlines"}
    if merrs or len(m["draws"]) < 2:
        return None
    return {"kind": "specializer-topology"}


def _tx_quirk_shape(c):
    """the two input shapes on which the external tx binary fails (known findings with fixed cases of their own)"""
    gl = c["fd"]["glyphs"]
    return ([g["name"] for g in gl if g["name"] != ".notdef"] in ([], ["space"])
            or not any(g["contours"] or g["components"] for g in gl))


def shrink(case):
    """smaller cases; a font case that is not itself one of the tx quirk shapes is never shrunk INTO one (a failure
    found there would be a different one)"""
    keep_out = case["kind"] == "font" and not _tx_quirk_shape(case)
    for c in _shrink(case):
        if keep_out and _tx_quirk_shape(c):
            continue
        yield c


def _shrink(case):
    if case["kind"] == "spec":
        for it in case["items"]:
            yield {"kind": "spec", "items": [it]}
        return
    if case["kind"] == "dispatch":
        for it in case["items"]:
            yield {"kind": "dispatch", "items": [it], "via": case.get("via")}
        return
    fd = case["fd"]
    gl = fd["glyphs"]

    def with_glyphs(new):
        c = dict(case); c["fd"] = dict(fd); c["fd"]["glyphs"] = new
        names = {g["name"] for g in new}
        c["fd"]["kerning"] = [k for k in fd.get("kerning", []) if k[0] in names and k[1] in names]
        if fd.get("features") and not all(w in names for w in fd["features"].replace(";", " ").split() if w not in
                                          ("feature", "liga", "{", "}", "sub", "by")):
            c["fd"]["features"] = ""
        if fd.get("glyphOrder") is not None:
            c["fd"]["glyphOrder"] = [n for n in fd["glyphOrder"] if n in names]
        if KEY_PS in fd.get("lib", {}):
            c["fd"]["lib"] = dict(fd["lib"])
            c["fd"]["lib"][KEY_PS] = {k: v for k, v in fd["lib"][KEY_PS].items() if k in names}
        return c
    used = {c[0] for g in gl for c in g["components"]}
    for i in range(len(gl)):
        if gl[i]["name"] not in used and len(gl) > 1:
            yield with_glyphs(gl[:i] + gl[i + 1:])
    for i, g in enumerate(gl):
        for j in range(len(g["contours"])):
            g2 = dict(g); g2["contours"] = g["contours"][:j] + g["contours"][j + 1:]
            yield with_glyphs(gl[:i] + [g2] + gl[i + 1:])
        if g["components"]:
            g2 = dict(g); g2["components"] = []
            yield with_glyphs(gl[:i] + [g2] + gl[i + 1:])
        if g["anchors"]:
            g2 = dict(g); g2["anchors"] = []
            yield with_glyphs(gl[:i] + [g2] + gl[i + 1:])
    if fd.get("kerning"):
        c = with_glyphs(gl); c["fd"]["kerning"] = []
        yield c
    if fd.get("features"):
        c = with_glyphs(gl); c["fd"]["features"] = ""
        yield c
    if fd.get("info"):
        c = with_glyphs(gl); c["fd"]["info"] = {}
        yield c
    if case.get("names"):
        ps = fd.get("lib", {}).get(KEY_PS) or {}
        for k in ps:
            c = with_glyphs(gl); c["fd"]["lib"] = dict(fd["lib"])
            c["fd"]["lib"][KEY_PS] = {a: b for a, b in ps.items() if a != k}
            yield c
        for k in (KEY_USE, KEY_KEEP, KEY_DONT):
            if k in fd.get("lib", {}):
                c = with_glyphs(gl); c["fd"]["lib"] = {a: b for a, b in fd["lib"].items() if a != k}
                yield c
        if fd.get("glyphOrder") is not None:
            c = with_glyphs(gl); c["fd"]["glyphOrder"] = None
            yield c


LEVEL_TEXT = ("Proved for all inputs (Lean): the dispatcher of PostProcessor.process/process_cff/_subroutinize* raises "
              "NotImplementedError exactly on the unsupported combinations, never fails otherwise on in-domain arguments, produces "
              "the requested table version, subroutinises iff asked and with the backend asked for (any optimizeCFF int or bool, any "
              "input table); the 18-row table of the property is closed by `decide`; rejected arguments give ValueError; the charstring "
              "width operand decodes to otRound(width) for every default/nominal pair; the modelled topology passes of the specialiser "
              "are the identity on drawings without redundant operations, and in general keep the pen's end point and visit a "
              "subsequence of the original on-curve points; every path through the dispatch table composes drawing-preserving encoders "
              "(hypotheses) so all supported combinations draw the same. Glyph identity (Props/C12Names.lean): for every glyph order "
              "without duplicates, every public.postscriptNames map / automatic naming, every setting of the production-name "
              "switches and both CFF versions, rename_glyphs followed by fontTools' charset->CharStrings walk leaves the charstring "
              "of source glyph k at glyph index k (C12_names_content), the stored names are pairwise distinct (C12_names_distinct) "
              "and the CFF 1 and CFF 2 builds store the same names (C12_names_same); C12_same extends to sources built with "
              "production names, for every glyph order that starts with '.notdef', with no side condition on the map "
              "(C12_cff1_writable, C12_same_named). Glyph by glyph: the model's drawings for every combination are the reference drawings "
              "mapped through one function of the combination (C12_glyphwise), a glyph without redundant operations is drawn as in "
              "the reference whatever the other glyphs of the font are (C12_plain_glyph), and distinct such drawings stay distinct "
              "(C12_glyphFn_injective_plain). Tied to the code by an exhaustive run of the dispatcher and by "
              "compiling random fonts under all 18 (+4) combinations with the real cffsubr/compreffor/CFF2 converter, with and "
              "without production names, from line/cubic sources, from sources drawn with TrueType-style quadratic splines, and from "
              "fonts containing families of look-alike glyphs (same operands, one operator / the width / the start point different).")
LEVEL_NOTE = ("Look-alike glyphs (stream 6) are covered by observation against the glyph-wise model: ufo2ft's getCharStringForGlyph has "
              "no state shared between glyphs, so there is no mechanism to model; what is proved is that the MODEL never lets one "
              "glyph's drawing depend on another (C12_glyphwise / C12_plain_glyph), and the declarative predicate holdsSame is "
              "evaluated by the Lean driver on the observed fonts of families built so that a confusion of two glyphs (same operands, "
              "rmoveto vs rlineto; same outline, other width; same flat operand list, curve vs three lines) changes a drawing: a failing "
              "input that is not the specialiser finding (classify_failure requires model = observation).  What cffsubr/compreffor "
              "share between glyphs (subroutines) is external and only measured.  "
              "Sources with quadratic curves (stream 5) are covered by observation only: nothing in the Lean model describes how a "
              "qcurve segment becomes a curveTo (BasePen/T2CharStringPen, fontTools) or that the pre-processor's filter list is "
              "independent of optimizeCFF; the declarative predicate holdsSame (all supported combinations carry the same "
              "drawings, advances and layout) is evaluated by the Lean driver on the observed fonts, and the model's prediction "
              "(specTopo of the optimizeCFF=0 drawing) must agree, so an option-dependent re-fitting of the outlines is a failing "
              "input that the known specialiser finding cannot absorb (classify_failure requires model = observation). "
              "The external encoders (specialiser passes 4-7, cffsubr, compreffor, CFF->CFF2) are hypotheses of the rendering theorem, "
              "measured on every generated font and never proved. Known finding: with optimizeCFF >= 1 the specialiser deletes "
              "zero-length lines, merges same-axis line runs, demotes curves with retracted handles and merges consecutive movetos, so "
              "the drawing-operation sequence differs from optimizeCFF = 0 on such glyphs (same filled shape); the check recognises "
              "exactly that shape through the Lean model of those passes. Glyph identity: how fontTools serialises a 'CFF ' table "
              "(charset walk) is modelled from its source and tied only by correspondence; the per-index digests compare the "
              "reference combination with its un-renamed twin exactly, the other combinations go through the font comparison "
              "(prediction from the twin). Repaired finding (C12-cff1-notdef-renamed, kind fixed): a public.postscriptNames entry for '.notdef' "
              "used to be applied like any other, and fontTools refuses to write a 'CFF ' charset that does not start with "
              "'.notdef' (AssertionError at save) while the CFF 2 builds succeeded; _build_production_names now exempts '.notdef' "
              "and reserves its name (model: C11.renames / seenInit; C11_notdef_kept, C12_cff1_writable: the charset of every CFF 1 "
              "font still starts with '.notdef'; the old function survives only in labelled counterexamples). fontTools' "
              "requirement stays in the model (cff1Writable, measured). classify_failure still names exactly that shape - from "
              "the observations, the model no longer predicting it - so that a recurrence is reported as a VIOLATION.")
