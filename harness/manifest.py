"""Regenerate MANIFEST.json from the per-property harness modules (python3 harness/manifest.py)."""
import importlib, json, os, sys
ROOT = os.path.dirname(os.path.dirname(os.path.abspath(__file__)))
sys.path.insert(0, os.path.join(ROOT, "harness"))
props = [json.loads(l) for l in open(os.path.join(ROOT, "properties.jsonl"))]
BASELINE = "cd /repo && /venv/bin/python -m pytest -ra -q -p no:cacheprovider --timeout=900 --continue-on-collection-errors"
checks, na = [], []
for p in props:
    pid = p["id"]
    path = os.path.join(ROOT, "harness", "props", pid + ".py")
    if not os.path.exists(path):
        na.append({"property_id": pid, "reason": "check not built yet (work in progress; planned at level proof, see DESIGN.md section 5)"})
        continue
    mod = importlib.import_module("props." + pid)
    if getattr(mod, "NOT_APPLICABLE", None):
        na.append({"property_id": pid, "reason": mod.NOT_APPLICABLE}); continue
    checks.append({
        "property_id": pid,
        "quick_cmd": f"./check {pid} --tier quick",
        "thorough_cmd": f"./check {pid} --tier thorough",
        "evidence_file": f"evidence/{pid}.json",
        "replay_cmd_template": f"./check {pid} --replay {{path}}",
        "engine": "lean-model+correspondence",
        "level_claimed": {"category": "proof", "text": mod.LEVEL_TEXT, "design_ref": "DESIGN.md section 5, " + pid},
        "level_note": mod.LEVEL_NOTE,
        "technique": getattr(mod, "TECHNIQUE", "Lean 4 theorems about a hand-written executable model; model tied to /repo by a differential correspondence check (line protocol) on every run"),
    })
hooks_file = os.path.join(ROOT, "harness", "hooks.json")
hooks = json.load(open(hooks_file)) if os.path.exists(hooks_file) else []
m = {
    "version": 1,
    "setup_cmd": "cd lean && lake build Ufo2ftModel",
    "hooks": {"guard": "GOOGLEFONTS_UFO2FT_VERIF",
              "enable": "checks export GOOGLEFONTS_UFO2FT_VERIF=1 and import /repo/Lib through /venv's editable install (no build step)",
              "baseline_off_cmd": BASELINE, "source_commits": hooks, "add_only": True},
    "engines": [{"name": "lean-model+correspondence", "path": "lean/ harness/ check",
                 "serves_properties": [c["property_id"] for c in checks],
                 "kind_free_text": "Lean 4 model + theorems (lake build, #print axioms audit, leanchecker in thorough tier); Python correspondence harness driving `lake env lean --run Driver.lean` over a JSON line protocol against the real ufo2ft in-process"}],
    "checks": checks,
    "not_applicable": na,
    "notes": "See DESIGN.md. Exit codes: 0 held, 1 VIOLATION, 2 infrastructure failure. VERIF_SEED and VERIF_TIER are honoured.",
}
json.dump(m, open(os.path.join(ROOT, "MANIFEST.json"), "w"), indent=1)
print(len(checks), "checks;", len(na), "not applicable")
