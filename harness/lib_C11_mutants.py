"""The builder's own mutants of Lib/ufo2ft/postProcessor.py used to test the sensitivity of the C11 check.

usage:  python3 harness/lib_C11_mutants.py <scratch worktree of /repo> <output dir>
writes one <name>.diff per mutant (textual single-site changes; the worktree is left clean).  Run each with
  git -C <worktree> apply <diff>; PYTHONPATH=<worktree>/Lib ./check C11; git -C <worktree> checkout -- .
All are reported VIOLATION by the check (m2_counter, which is behaviour-preserving for the names, as
`no-failing-input-found`)."""
import sys, subprocess
R = sys.argv[1]
OUT = sys.argv[2]
F = R + "/Lib/ufo2ft/postProcessor.py"
MUTS = {
 "m1_u_threshold": [('"u" if unicode_val > 0xFFFF else "uni"', '"u" if unicode_val >= 0xFFFF else "uni"')],
 "m2_counter": [("seen[name] = n + 1", "seen[name] = n")],
 "m3_extranames": [('''            otf["post"].extraNames = [
                g for g in newGlyphOrder if g not in standardGlyphOrder
            ]
            otf["post"].mapping = {}

        cff_tag''', '''            pass

        cff_tag''')],
 "m4_regex": [('re.compile("[^0-9a-zA-Z_.]")', 're.compile("[^0-9a-zA-Z_.-]")')],
 "m5_rsplit": [('parts = glyph.name.rsplit(".", 1)', 'parts = glyph.name.split(".", 1)')],
 "m6_liga_zero": [("if all(v and v <= 0xFFFF for v in unicode_vals):", "if all(v is not None and v <= 0xFFFF for v in unicode_vals):")],
 "m7_dont_key": [("not self.ufo.lib.get(GLYPHS_DONT_USE_PRODUCTION_NAMES)", "self.ufo.lib.get(GLYPHS_DONT_USE_PRODUCTION_NAMES)")],
 "m8_charset": [("            cff.charset = [rename_map.get(n, n) for n in cff.charset]\n", "")],
 "m9_maxlen": [("MAX_GLYPH_NAME_LENGTH = 63", "MAX_GLYPH_NAME_LENGTH = 64")],
 "m10_rename_before_reload": [('''                self.otf = _reloadFont(self.otf)
                self._rename_glyphs_from_ufo()''', '''                self._rename_glyphs_from_ufo()
                self.otf = _reloadFont(self.otf)''')],
 "m11_empty_ps": [("return production_name if production_name else glyph.name", "return production_name if production_name is not None else glyph.name")],
 "m12_while_off_by_one": [('''            while (name + ".%d" % n) in seen:
                n += 1''', '''            if (name + ".%d" % n) in seen:
                n += 1''')],
 "m13_keep_default": [("keepGlyphNames = self.ufo.lib.get(KEEP_GLYPH_NAMES, True)", "keepGlyphNames = self.ufo.lib.get(KEEP_GLYPH_NAMES, True) or useProductionNames is None and self._postscriptNames is None")],
 "m14_post_cff": [('''            if "CFF " not in self.otf:
                self.set_post_table_format(self.otf, 2.0)''', '''            self.set_post_table_format(self.otf, 2.0)''')],
 "m15_liga_suffix": [('liga_parts = ["{}.{}".format(n, parts[1]) for n in parts[0].split("_")]', 'liga_parts = parts[0].split("_")')],
}
subprocess.check_call(["git", "-C", R, "checkout", "-q", "--", "."])
for name, reps in MUTS.items():
    s = open(F).read()
    for a, b in reps:
        assert s.count(a) == 1, (name, s.count(a))
        s = s.replace(a, b)
    open(F, "w").write(s)
    d = subprocess.check_output(["git", "-C", R, "diff"]).decode()
    open(f"{OUT}/{name}.diff", "w").write(d)
    subprocess.check_call(["git", "-C", R, "checkout", "-q", "--", "."])
print(len(MUTS))
