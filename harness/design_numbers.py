"""Refresh the measured numbers of DESIGN.md section 0 from the evidence files and the Lean tree (run after clean quick runs)."""
import glob, json, os, subprocess
ROOT = os.path.dirname(os.path.dirname(os.path.abspath(__file__)))
rows, tot = [], 0
for p in sorted(glob.glob(os.path.join(ROOT, "evidence", "C*.json"))):
    e = json.load(open(p)); c = e["coverage"]
    rows.append("%s %d/%s" % (e["property_id"], c["obligations"], format(c["correspondence"]["requests"], ",").replace(",", " ")))
    tot += c["obligations"]
sh = lambda cmd: int(subprocess.run(cmd, shell=True, capture_output=True, text=True, cwd=ROOT).stdout)
nthm = sh("cat lean/Ufo2ftModel/Props/*.lean | grep -c '^theorem'")
nfiles = len(glob.glob(os.path.join(ROOT, "lean/Ufo2ftModel/Props/*.lean")))
ml = sh("cat lean/Ufo2ftModel/Model/*.lean | wc -l"); pl = sh("cat lean/Ufo2ftModel/Props/*.lean | wc -l")
kf = json.load(open(os.path.join(ROOT, "known_findings.json")))["findings"]
nknown = sum(1 for f in kf if f["kind"] == "known")
nfix = len({f["commit"] for f in kf if f["kind"] == "fixed"})
p = os.path.join(ROOT, "DESIGN.md"); s = open(p).read()
old = s[s.index("Size **[measured]**:"):s.index("Why hand-written model + correspondence")]
new = ("Size **[measured]**: %.1f k lines of executable Lean models (for ~13.8 k lines of Python), %d k lines of proofs, %d theorems in %d proof\n"
       "files (%d audited obligations summed over the checks, shared geometry files counted once per check that names them); per\n"
       "property (audited theorems / requests of one quick run): %s.\n"
       "%d genuine defects of ufo2ft found by the machinery are repaired by \"fix:\" commits (§5.1), %d more are recorded with exact\n"
       "shapes (§5.2) and each of those is reproduced by a corpus case on every run.  All 80 independently seeded defects (§7) are\n"
       "reported with a concrete failing input.\n\n") % (ml / 1000, round(pl / 1000), nthm, nfiles, tot, ", ".join(rows), nfix, nknown)
open(p, "w").write(s.replace(old, new))
print(nthm, nfiles, tot, nfix, nknown)
