"""Build real UFO objects (ufoLib2 or defcon) from a JSON-able font description ("fd").

fd = {"upm": int, "info": {attr: value}, "lib": {...}, "glyphOrder": [...] | None,
      "glyphs": [{"name", "width", "height"?, "unicodes": [...], "contours": [[[x, y, type|None], ...], ...],
                  "components": [[base, [xx, xy, yx, yy, dx, dy]], ...], "anchors": [[name, x, y], ...], "lib"?: {...}}],
      "kerning": [[first, second, value], ...], "groups": {name: [glyphs]}, "features": str,
      "layers": {layerName: [glyph dicts]}?}
All numbers are Python ints/floats; `rat` turns them into the exact "n/d" strings of the protocol.
"""
from fractions import Fraction


def rat(x):
    if isinstance(x, bool):
        raise TypeError(x)
    if isinstance(x, int):
        return str(x)
    f = Fraction(x)  # exact value of the double
    return str(f.numerator) if f.denominator == 1 else f"{f.numerator}/{f.denominator}"


def new_font(lib="ufoLib2"):
    if lib == "ufoLib2":
        import ufoLib2
        return ufoLib2.Font()
    import defcon
    return defcon.Font()


def fill_glyph(glyph, g):
    glyph.width = g.get("width", 0)
    if "height" in g:
        glyph.height = g["height"]
    if g.get("unicodes"):
        glyph.unicodes = list(g["unicodes"])
    pen = glyph.getPointPen()
    for c in g.get("contours", []):
        pen.beginPath()
        for x, y, t in c:
            pen.addPoint((x, y), segmentType=t, smooth=False)
        pen.endPath()
    for base, t in g.get("components", []):
        pen.addComponent(base, tuple(t))
    for a in g.get("anchors", []):
        glyph.appendAnchor({"name": a[0], "x": a[1], "y": a[2]})
    for k, v in g.get("lib", {}).items():
        glyph.lib[k] = v


def build(fd, lib="ufoLib2"):
    font = new_font(lib)
    font.info.unitsPerEm = fd.get("upm", 1000)
    for k, v in fd.get("info", {}).items():
        setattr(font.info, k, v)
    for g in fd["glyphs"]:
        fill_glyph(font.newGlyph(g["name"]), g)
    for lname, glyphs in fd.get("layers", {}).items():
        layer = font.newLayer(lname)
        for g in glyphs:
            fill_glyph(layer.newGlyph(g["name"]), g)
    for k, v in fd.get("lib", {}).items():
        font.lib[k] = v
    if fd.get("glyphOrder") is not None:
        font.lib["public.glyphOrder"] = list(fd["glyphOrder"])
    for l, r, v in fd.get("kerning", []):
        font.kerning[(l, r)] = v
    for k, v in fd.get("groups", {}).items():
        font.groups[k] = list(v)
    if fd.get("features"):
        font.features.text = fd["features"]
    return font


def err_kind(e):
    n = type(e).__name__
    for k in ("InvalidFontData", "InvalidDesignSpaceData", "FeatureLibError", "NotImplementedError",
              "ValueError", "KeyError", "TypeError", "AttributeError", "AssertionError", "RecursionError",
              "InstantiatorError", "IndexError"):
        if n == k:
            return k
    return "Other:" + n
