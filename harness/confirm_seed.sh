#!/bin/sh
# usage: confirm_seed.sh C03 a  -- confirm a sub-agent's seeded change in a scratch worktree, then file it under /verif/seeded
id="$1"; x="$2"; root="${3:-/tmp/mut/out}"; src="$root/$id/$x"; wt="/tmp/seedchk/$id$x"
mkdir -p /tmp/seedchk; git -C /repo worktree add -q --detach "$wt" || exit 3
res="demo_clean=? demo_patched=? tests_patched=?"
(cd "$wt" && PYTHONPATH="$wt/Lib" /venv/bin/python "$src/demo.py" >/dev/null 2>&1); dc=$?
git -C "$wt" apply "$src/patch.diff" || { git -C /repo worktree remove --force "$wt"; echo "$id$x patch does not apply"; exit 3; }
(cd "$wt" && PYTHONPATH="$wt/Lib" /venv/bin/python "$src/demo.py" >/dev/null 2>&1); dp=$?
tp=$(cd "$wt" && PYTHONPATH="$wt/Lib" /venv/bin/python -m pytest -q -p no:cacheprovider -n 4 tests 2>&1 | tail -1)
git -C /repo worktree remove --force "$wt"
echo "$id$x demo_clean_exit=$dc demo_patched_exit=$dp tests_patched='$tp'"
case "$tp" in *"1148 passed"*) ok=1;; *) ok=0;; esac
if [ "$dc" = 0 ] && [ "$dp" = 1 ] && [ "$ok" = 1 ]; then
  d="/verif/seeded/$id$x"; mkdir -p "$d"; cp "$src/patch.diff" "$src/demo.py" "$d/"; cp "$src/notes.md" "$d/notes.md" 2>/dev/null
  python3 - "$id" "$x" "$tp" <<'PY'
import json,sys
id,x,tp=sys.argv[1:4]
d=f"/verif/seeded/{id}{x}"
notes=open(d+"/notes.md").read() if __import__("os").path.exists(d+"/notes.md") else ""
json.dump({"property":id,"breaks":id,"source":"independent sub-agent given only the property record and a scratch worktree",
 "needs_to_manifest":"see notes.md (written by the sub-agent)",
 "confirmed":{"demo_exit_clean_tree":0,"demo_exit_with_patch":1,"existing_test_suite_with_patch":tp,
   "how":"harness/confirm_seed.sh: scratch worktree under /tmp/seedchk, PYTHONPATH=<worktree>/Lib /venv/bin/python demo.py before and after `git apply patch.diff`; pytest -n 4 tests with the patch; worktree removed"},
 "detected_by":None},open(d+"/meta.json","w"),indent=1)
PY
  echo "$id$x FILED"
else echo "$id$x REJECTED"; fi
