"""Common machinery of the ufo2ft verification checks.

One check run =
  1. proof obligations: `lake build` of the Lean model + theorems, axiom audit, source scan;
  2. correspondence: run the real ufo2ft (working tree of /repo, via /venv's editable install)
     and the Lean model (driver, line protocol) on the same generated inputs and compare;
     evaluate the decidable property predicate `holds` on the *implementation's* output;
  3. decision + replay + evidence.
Exit codes: 0 held, 1 VIOLATION printed, 2 infrastructure failure.
"""
import hashlib
import importlib
import json
import multiprocessing as mp
import os
import random
import re
import subprocess
import sys
import time
import traceback

ROOT = os.path.dirname(os.path.dirname(os.path.abspath(__file__)))
LEAN = os.path.join(ROOT, "lean")
ALLOWED_AXIOMS = {"propext", "Classical.choice", "Quot.sound"}
FORBIDDEN = re.compile(r"\bsorry\b|\badmit\b|^\s*axiom\s|native_decide|bv_decide|implemented_by|\bunsafe\s|maxHeartbeats\s+0|@\[extern")
TRUSTED_BASE = [
    "Lean 4.33.0 kernel (thorough tier: re-checked with leanchecker)",
    "axioms: propext, Classical.choice, Quot.sound only (audited with #print axioms on every run; no native_decide/bv_decide/sorry)",
    "statement of the property as the Lean predicate in lean/Ufo2ftModel/Spec/<id>.lean",
    "hand-written model tied to /repo by this correspondence harness (differential; bounded by its generators)",
    "fontTools decompilers used to observe compiled fonts",
]


class Infra(Exception):
    pass


def sh(cmd, cwd=None, timeout=3600, inp=None):
    p = subprocess.run(cmd, cwd=cwd, shell=isinstance(cmd, str), input=inp,
                       stdout=subprocess.PIPE, stderr=subprocess.STDOUT, timeout=timeout, text=True)
    return p.returncode, p.stdout


# ---------------------------------------------------------------- proof obligations

def strip_comments(src):
    src = re.sub(r"/-.*?-/", "", src, flags=re.S)
    src = re.sub(r"--.*", "", src)
    return src


def lean_sources():
    out = []
    for d, _, fs in os.walk(LEAN):
        if ".lake" in d:
            continue
        for f in fs:
            if f.endswith(".lean"):
                out.append(os.path.join(d, f))
    return sorted(out)


def scan_forbidden():
    hits = []
    for f in lean_sources():
        for n, line in enumerate(strip_comments(open(f).read()).splitlines(), 1):
            if FORBIDDEN.search(line):
                hits.append(f"{os.path.relpath(f, ROOT)}:{n}: {line.strip()[:100]}")
    return hits


def theorems_of(pid, files=None):
    """Fully qualified names of the theorems in Props/<pid>.lean (+ shared proof files named by the property module)."""
    out = []
    for f in (files or [pid]):
        out += _theorems_in(f)
    return out


def _theorems_in(pid):
    path = os.path.join(LEAN, "Ufo2ftModel", "Props", f"{pid}.lean")
    if not os.path.exists(path):
        return []
    names, ns = [], []
    for line in strip_comments(open(path).read()).splitlines():
        m = re.match(r"\s*namespace\s+(\S+)", line)
        if m:
            ns.append(m.group(1)); continue
        m = re.match(r"\s*end\s+(\S+)", line)
        if m and ns and ns[-1] == m.group(1):
            ns.pop(); continue
        m = re.match(r"\s*(?:@\[[^\]]*\]\s*)?(?:private\s+|protected\s+)?theorem\s+(\S+)", line)
        if m:
            names.append(".".join(ns + [m.group(1)]))
    return names


def lake_build(target="Ufo2ftModel"):
    rc, out = sh(["lake", "build", target], cwd=LEAN, timeout=3000)
    return rc == 0, out


def audit(pid, names, files=None):
    """#print axioms for each theorem; returns {name: [axioms]} or raises Infra."""
    if not names:
        return {}, "", 0
    src = "".join(f"import Ufo2ftModel.Props.{f}\n" for f in (files or [pid])) + "".join(f"#print axioms {n}\n" for n in names)
    path = os.path.join(LEAN, f".audit_{pid}_{os.getpid()}.lean")
    open(path, "w").write(src)
    try:
        rc, out = sh(["lake", "env", "lean", path], cwd=LEAN, timeout=1200)
    finally:
        os.remove(path)
    res = {}
    # messages look like: 'Foo.bar' depends on axioms: [propext, Quot.sound]   or   does not depend on any axioms
    for m in re.finditer(r"'(\S+)' depends on axioms: \[([^\]]*)\]", out, flags=re.S):
        res[m.group(1)] = [a.strip() for a in m.group(2).replace("\n", " ").split(",") if a.strip()]
    for m in re.finditer(r"'(\S+)' does not depend on any axioms", out):
        res[m.group(1)] = []
    return res, out, rc


def leanchecker(files):
    rc, out = sh(["lake", "env", "leanchecker"] + [f"Ufo2ftModel.Props.{f}" for f in files], cwd=LEAN, timeout=3000)
    return rc == 0, out[-2000:]


def proof_obligations(pid, tier, files=None):
    """returns dict(obligations, discharged, problems[list of str], theorems)"""
    info = {"obligations": 0, "discharged": 0, "problems": [], "theorems": []}
    ok, out = lake_build()
    if not ok:
        info["problems"].append("lake build failed: " + out[-1500:])
    names = theorems_of(pid, files)
    info["obligations"] = len(names)
    hits = scan_forbidden()
    if hits:
        info["problems"].append("forbidden constructs: " + "; ".join(hits[:5]))
    if ok:
        res, out, rc = audit(pid, names, files)
        good = []
        for n in names:
            if n not in res:
                info["problems"].append(f"audit: no axiom report for {n}")
            elif not set(res[n]) <= ALLOWED_AXIOMS:
                info["problems"].append(f"audit: {n} uses {res[n]}")
            else:
                good.append(n)
        info["discharged"] = len(good) if not hits else 0
        info["theorems"] = good
        if tier == "thorough":
            ok2, out2 = leanchecker(files or [pid])
            info["leanchecker"] = "ok" if ok2 else out2
            if not ok2:
                info["problems"].append("leanchecker failed: " + out2[-500:])
    return info


# ---------------------------------------------------------------- driver

def run_driver(requests):
    """requests: list of dicts (p, op, in, obs). returns list of replies (dicts)."""
    if not requests:
        return []
    inp = "\n".join(json.dumps({k: r[k] for k in ("p", "op", "in", "obs")}, separators=(",", ":")) for r in requests) + "\n"
    nshard = min(8, max(1, len(requests) // 200))
    lines = [l for l in inp.split("\n") if l]
    shards = [lines[i::nshard] for i in range(nshard)]
    procs = []
    for s in shards:
        p = subprocess.Popen(["lake", "env", "lean", "--run", "Driver.lean"], cwd=LEAN, stdin=subprocess.PIPE,
                             stdout=subprocess.PIPE, stderr=subprocess.PIPE, text=True)
        procs.append(p)
    import threading
    outs = [None] * nshard
    def feed(i):
        outs[i] = procs[i].communicate("\n".join(shards[i]) + "\n")
    ths = [threading.Thread(target=feed, args=(i,)) for i in range(nshard)]
    [t.start() for t in ths]; [t.join() for t in ths]
    replies = [None] * len(lines)
    for i in range(nshard):
        so, se = outs[i]
        got = [l for l in so.split("\n") if l.strip()]
        if len(got) != len(shards[i]):
            raise Infra(f"driver returned {len(got)} replies for {len(shards[i])} requests: {se[-800:]} {so[-300:]}")
        for k, l in enumerate(got):
            replies[i + k * nshard] = json.loads(l)
    return replies


# ---------------------------------------------------------------- implementation side

# Which lines of the anchored ufo2ft files the correspondence run executed (sys.monitoring LINE events, every location reported
# once per process and then disabled: negligible overhead).  It measures the reach of the generators - the part of the
# modelled code the tie actually exercises - and goes into the evidence; it never influences a verdict.
_COV = {"files": None, "seen": set(), "sent": set()}


def _cov_files(pid):
    try:
        import ufo2ft
        root = os.path.dirname(os.path.dirname(os.path.dirname(os.path.abspath(ufo2ft.__file__))))
        for l in open(os.path.join(ROOT, "properties.jsonl")):
            d = json.loads(l)
            if d["id"] == pid:
                return [os.path.join(root, f) for f in d.get("anchors", {}).get("files", []) if f.endswith(".py")]
    except Exception:
        pass
    return []


def _cov_start(files):
    try:
        mon = sys.monitoring
        _COV["files"] = set(files)
        tool = mon.PROFILER_ID

        def on_line(code, line):
            if code.co_filename in _COV["files"]:
                _COV["seen"].add((code.co_filename, line))
            return mon.DISABLE

        mon.use_tool_id(tool, "verif-reach")
        mon.register_callback(tool, mon.events.LINE, on_line)
        mon.set_events(tool, mon.events.LINE)
    except Exception:
        _COV["files"] = None


def _cov_delta():
    if not _COV["files"]:
        return []
    new = _COV["seen"] - _COV["sent"]
    _COV["sent"] |= new
    return sorted(new)


def _cov_report(files, hit):
    """per anchored file: function bodies entered / not entered and statement lines hit (ast-based denominators)"""
    import ast
    out = {}
    for f in files:
        try:
            tree = ast.parse(open(f).read())
        except Exception:
            continue
        lines = {l for (fn, l) in hit if fn == f}
        funcs = []

        def walk(node, prefix):
            for ch in ast.iter_child_nodes(node):
                if isinstance(ch, (ast.FunctionDef, ast.AsyncFunctionDef)):
                    body = {n.lineno for st in ch.body for n in ast.walk(st) if isinstance(n, ast.stmt)}
                    funcs.append((prefix + ch.name, body))
                    walk(ch, prefix + ch.name + ".")
                elif isinstance(ch, ast.ClassDef):
                    walk(ch, prefix + ch.name + ".")
                else:
                    walk(ch, prefix)
        walk(tree, "")
        entered = [(n, b) for n, b in funcs if b & lines]
        stmts = set().union(*[b for _, b in funcs]) if funcs else set()
        out[f[f.index("/Lib/") + 1:] if "/Lib/" in f else f] = {
            "functions": len(funcs), "functions_entered": len(entered),
            "functions_not_entered": sorted(n for n, b in funcs if not (b & lines))[:60],
            "statement_lines_in_functions": len(stmts), "statement_lines_hit": len(stmts & lines),
            "statement_lines_hit_in_entered_functions_pct": round(100.0 * sum(len(b & lines) for _, b in entered) / max(1, sum(len(b) for _, b in entered)), 1),
        }
    return out


def _worker(args):
    modname, case = args
    mod = importlib.import_module(modname)
    try:
        return case, mod.run(json.loads(json.dumps(case))), None, _cov_delta()
    except Exception:
        return case, None, traceback.format_exc(), []


def canon(x):
    return json.dumps(x, sort_keys=True, separators=(",", ":"))


COV_HIT = set()


def evaluate(mod, cases, jobs=None):
    """run implementation + model on cases; returns list of result dicts per request"""
    jobs = jobs or min(16, os.cpu_count() or 4)
    modname = mod.__name__
    t0 = time.time()
    if jobs > 1 and len(cases) > 8:
        with mp.get_context("fork").Pool(jobs) as pool:
            rs = pool.map(_worker, [(modname, c) for c in cases], chunksize=max(1, len(cases) // (jobs * 8)))
    else:
        rs = [_worker((modname, c)) for c in cases]
    reqs = []
    for case, out, err, cov in rs:
        COV_HIT.update(tuple(x) for x in cov)
        if err is not None:
            raise Infra("harness exception in run():\n" + err)
        for r in out:
            r["p"] = mod.ID
            r["case"] = case
            reqs.append(r)
    t1 = time.time()
    replies = run_driver(reqs)
    t2 = time.time()
    results = []
    for r, rep in zip(reqs, replies):
        if "error" in rep:
            raise Infra(f"driver error: {rep['error']} on {canon(r['in'])[:300]}")
        cmpf = getattr(mod, "agree", None)
        ag = cmpf(r, rep) if cmpf else canon(rep["model"]) == canon(r["obs"])
        results.append({"req": r, "model": rep["model"], "agree": ag, "holds": rep["holds"], "info": rep.get("info"), "hyp": rep.get("hyp")})
    return results, {"impl_s": round(t1 - t0, 2), "model_s": round(t2 - t1, 2)}


# ---------------------------------------------------------------- findings

def load_findings():
    p = os.path.join(ROOT, "known_findings.json")
    if not os.path.exists(p):
        return []
    return json.load(open(p))["findings"]


def match_known(mod, res):
    """a failing result is a known finding only if the property module's classifier says its
    shape equals a listed `known` entry."""
    cls = getattr(mod, "classify_failure", None)
    if cls is None:
        return None
    shape = cls(res)
    if shape is None:
        return None
    listed = [f for f in load_findings() if f["property"] == mod.ID and f["kind"] == "known"]
    for f in listed:
        if f["shape"] == shape:
            return f
    if isinstance(shape, dict) and len(shape) == 1 and isinstance(next(iter(shape.values())), list) \
            and len(next(iter(shape.values()))) > 1:
        # several known shapes on one input ({"shapes": [a, b]}, {"leak": [s1, s2]}): EVERY one of them must be listed on its
        # own (strict equality each)
        key = next(iter(shape))
        parts = []
        for s_ in shape[key]:
            m = [f for f in listed if f["shape"] == {key: [s_]}]
            if not m:
                return None
            parts.append(m[0])
        return {"id": "+".join(f["id"] for f in parts), "parts": parts, "what": parts[0]["what"]}
    return None


# ---------------------------------------------------------------- main

def write_replay(pid, seed, tier, kind, theorem, res, extra=None):
    os.makedirs(os.path.join(ROOT, "replays"), exist_ok=True)
    path = os.path.join("replays", f"{pid}-{tier}-{seed}.jsonl")
    with open(os.path.join(ROOT, path), "w") as f:
        f.write(json.dumps({"property": pid, "kind": kind, "theorem": theorem, "seed": seed, "tier": tier, **(extra or {})}) + "\n")
        if res is not None:
            r = res["req"]
            f.write(json.dumps({"case": r["case"], "op": r["op"], "in": r["in"], "obs": r["obs"],
                                "model": res["model"], "agree": res["agree"], "holds": res["holds"], "info": res.get("info")}) + "\n")
    return path


def shrink(mod, res, budget=60):
    """greedy shrinking with the property module's `shrink(case)` candidates while some request
    of the case still FAILS (holds == false)."""
    sh_ = getattr(mod, "shrink", None)
    if sh_ is None:
        return res
    cur = res
    spent = 0
    improved = True
    while improved and spent < budget:
        improved = False
        for cand in sh_(cur["req"]["case"]):
            spent += 1
            if spent > budget:
                break
            try:
                rs, _ = evaluate(mod, [cand], jobs=1)
            except Infra:
                continue
            bad = [x for x in rs if not x["holds"] and match_known(mod, x) is None]
            if bad:
                cur = bad[0]; improved = True
                break
    return cur


def main(argv=None):
    import argparse
    ap = argparse.ArgumentParser()
    ap.add_argument("pid")
    ap.add_argument("--tier", default=os.environ.get("VERIF_TIER", "quick"), choices=["quick", "thorough"])
    ap.add_argument("--replay")
    ap.add_argument("--n", type=int)
    a = ap.parse_args(argv)
    seed = int(os.environ.get("VERIF_SEED", "0"))
    pid = a.pid
    t0 = time.time()
    try:
        sys.path.insert(0, os.path.join(ROOT, "harness"))
        mod = importlib.import_module(f"props.{pid}")
        rc = _run(mod, pid, a, seed, t0)
    except Infra as e:
        print(f"INFRASTRUCTURE FAILURE {pid}: {e}")
        rc = 2
    except subprocess.TimeoutExpired as e:
        print(f"TIMEOUT {pid}: {e}")
        rc = 2
    except Exception:
        # a bug of the harness itself is an infrastructure failure, never a verdict
        print(f"INFRASTRUCTURE FAILURE {pid}: unexpected exception in the harness")
        traceback.print_exc()
        rc = 2
    sys.exit(rc)


def _run(mod, pid, a, seed, t0):
    tier = a.tier
    if a.replay:
        lines = [json.loads(l) for l in open(a.replay)]
        if len(lines) < 2:
            print(f"replay {a.replay}: header only ({lines[0].get('kind')}); theorem {lines[0].get('theorem')}")
            po = proof_obligations(pid, "quick", getattr(mod, "PROOF_FILES", None))
            if po["problems"]:
                print(f"VIOLATION property={pid} replay={a.replay} no-failing-input-found")
                return 1
            return 0
        case = lines[1]["case"]
        rs, _ = evaluate(mod, [case], jobs=1)
        bad = [x for x in rs if not x["holds"] and match_known(mod, x) is None]
        diff = [x for x in rs if not x["agree"]]
        for x in rs:
            print(json.dumps({"op": x["req"]["op"], "agree": x["agree"], "holds": x["holds"]}))
        if bad:
            print(f"VIOLATION property={pid} replay={a.replay}")
            return 1
        if diff:
            print(f"VIOLATION property={pid} replay={a.replay} no-failing-input-found")
            return 1
        return 0

    po = proof_obligations(pid, tier, getattr(mod, "PROOF_FILES", None))
    covfiles = _cov_files(pid)
    if covfiles and os.environ.get("VERIF_REACH", "1") != "0":
        _cov_start(covfiles)
    rng = random.Random(f"{seed}-{pid}")
    n = a.n or mod.N[tier]
    # corpus first
    cases = []
    cpath = os.path.join(ROOT, "harness", "corpus", f"{pid}.jsonl")
    if os.path.exists(cpath):
        cases += [json.loads(l) for l in open(cpath) if l.strip()]
    ncorpus = len(cases)
    cases += list(mod.gen(rng, n, "normal"))
    results, timing = evaluate(mod, cases)

    fails = [r for r in results if not r["holds"]]
    known, newfails = [], []
    for r in fails:
        k = match_known(mod, r)
        (known if k else newfails).append((r, k))
    diffs = [r for r in results if not r["agree"]]
    searched = 0
    if (diffs or po["problems"]) and not newfails:
        # the model no longer covers the implementation (or a proof broke): search for a failing input
        scases = list(mod.gen(random.Random(f"{seed}-{pid}-search"), n * (10 if tier == "quick" else 3), "search"))
        sres, _ = evaluate(mod, scases)
        searched = len(sres)
        for r in sres:
            if not r["holds"]:
                k = match_known(mod, r)
                if not k:
                    newfails.append((r, k))

    # evidence
    tags = {}
    nontriv = set()
    for r in results:
        for t in r["req"].get("tags", []):
            tags[t] = tags.get(t, 0) + 1
        if r["req"].get("nontrivial"):
            nontriv.add(hashlib.sha1(canon(r["req"]["in"]).encode()).hexdigest())
    hyp_met = sum(1 for r in results if r.get("hyp") is True)
    hyp_not = sum(1 for r in results if r.get("hyp") is False)
    samples = [{"op": r["req"]["op"], "in": r["req"]["in"], "obs": r["req"]["obs"]} for r in results[ncorpus:ncorpus + 2]]
    for s in samples:
        if len(canon(s)) > 3000:
            s["in"] = canon(s["in"])[:1500] + "..."; s["obs"] = canon(s["obs"])[:1500] + "..."
    viol = 0
    rc = 0
    out_lines = []
    seen_known = set()
    for r, k in known:
        for kk in k.get("parts", [k]):
            key = kk["id"]
            if key not in seen_known:
                seen_known.add(key)
                out_lines.append(f"KNOWN-FINDING: property={pid} {kk['what']}")
    if newfails:
        r = shrink(mod, newfails[0][0])
        path = write_replay(pid, seed, tier, "failing-input", getattr(mod, "THEOREM", f"Ufo2ft.{pid}"), r)
        out_lines.append(f"VIOLATION property={pid} replay={path}")
        viol = len(newfails); rc = 1
    elif diffs:
        path = write_replay(pid, seed, tier, "no-failing-input-found", getattr(mod, "THEOREM", f"Ufo2ft.{pid}"), diffs[0],
                            {"what": "correspondence between the Lean model and the implementation no longer holds",
                             "differences": len(diffs), "searched": searched})
        out_lines.append(f"VIOLATION property={pid} replay={path} no-failing-input-found")
        viol = 1; rc = 1
    elif po["problems"]:
        path = write_replay(pid, seed, tier, "no-failing-input-found", getattr(mod, "THEOREM", f"Ufo2ft.{pid}"), None,
                            {"what": "proof obligation not discharged", "problems": po["problems"], "searched": searched})
        out_lines.append(f"VIOLATION property={pid} replay={path} no-failing-input-found")
        viol = 1; rc = 1
    ev = {
        "property_id": pid, "tier": tier, "seed": seed, "level": "proof",
        "coverage": {
            "obligations": po["obligations"], "discharged": po["discharged"],
            "checker_cmd": f"cd lean && lake build Ufo2ftModel && lake env lean <#print axioms for every theorem of Ufo2ftModel/Props/{pid}.lean>" + (" && lake env leanchecker Ufo2ftModel.Props." + pid if tier == "thorough" else ""),
            "trusted_base": TRUSTED_BASE + getattr(mod, "ASSUMED", []),
            "theorems": po["theorems"],
            "evaluations": len(results), "distinct_nontrivial": len(nontriv),
            "rule": mod.RULE, "samples": samples,
            "correspondence": {"cases": len(cases), "corpus_cases": ncorpus, "requests": len(results),
                               "disagreements": len(diffs), "property_failures": len(fails),
                               "known_finding_hits": len(known), "search_evaluations": searched, **timing},
            "distribution": dict(sorted(tags.items())),
            "main_theorem_hypotheses": {"met": hyp_met, "not_met": hyp_not,
                                        "note": "inputs on which the decidable well-formedness certificate of the property's main theorem was checked by the driver (where the driver reports it)"},
            "exhaustive": bool(getattr(mod, "EXHAUSTIVE", False)),
        },
        "assumptions": getattr(mod, "ASSUMED", []),
        "wall_s": round(time.time() - t0, 2), "violations": viol,
    }
    try:
        if covfiles and _COV["files"]:
            ev["coverage"]["implementation_reach"] = {
                "what": "lines of the property's anchored ufo2ft files executed in-process by this run's correspondence cases "
                        "(sys.monitoring; subprocess runs are not counted): how much of the modelled code the tie exercised",
                "files": _cov_report(covfiles, COV_HIT)}
    except Exception as e:      # the measurement never influences a verdict
        ev["coverage"]["implementation_reach"] = {"error": repr(e)}
    if "leanchecker" in po:
        ev["coverage"]["leanchecker"] = po["leanchecker"]
    if po["problems"]:
        ev["coverage"]["proof_problems"] = po["problems"]
    os.makedirs(os.path.join(ROOT, "evidence"), exist_ok=True)
    json.dump(ev, open(os.path.join(ROOT, "evidence", f"{pid}.json"), "w"), indent=1)
    print(f"{pid} tier={tier} seed={seed}: theorems {po['discharged']}/{po['obligations']}, "
          f"{len(results)} evaluations ({len(nontriv)} distinct non-trivial), {len(diffs)} disagreements, "
          f"{len(fails)} property failures ({len(known)} known), {round(time.time()-t0,1)} s")
    for l in out_lines:
        print(l)
    return rc
