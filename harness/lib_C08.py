"""C08 helper: (1) generator of feature-rich font descriptions (kerning groups over several scripts, mark / ligature /
cursive anchors, categories, composites), (2) order-shuffling of everything a UFO stores in a dict, (3) the WORKER that a
fresh interpreter runs (`python lib_C08.py worker`, PYTHONHASHSEED set by the parent): it builds the sources with the
requested UFO library, optionally saves and reopens them, runs a script of compile calls (a call HISTORY) and prints the
sha256 of every produced font plus a digest per table.

MATH and colour-layer sources are deliberately NOT generated here: on the unchanged tree compiling them modifies the
caller's sources (C07 findings), so "compile twice" legitimately differs there; C08 inherits exactly those findings.
"""
import hashlib
import io
import json
import os
import random
import shutil
import sys
import tempfile

HERE = os.path.dirname(os.path.abspath(__file__))

# ---------------------------------------------------------------------------------------------- generator

# name, code point, script bucket
BASES = {
    "lat": [("A", 0x41), ("V", 0x56), ("T", 0x54), ("a", 0x61), ("o", 0x6F), ("e", 0x65), ("f", 0x66), ("i", 0x69)],
    "grk": [("Alpha", 0x391), ("alpha", 0x3B1), ("omicron", 0x3BF)],
    "cyr": [("Acyr", 0x410), ("acyr", 0x430), ("ocyr", 0x43E)],
    "heb": [("alefhb", 0x5D0), ("bethb", 0x5D1), ("gimelhb", 0x5D2)],
    "ara": [("alefar", 0x627), ("behar", 0x628), ("lamar", 0x644)],
    "dev": [("kadeva", 0x915), ("khadeva", 0x916)],
    "com": [("period", 0x2E), ("hyphen", 0x2D), ("one", 0x31), ("two", 0x32), ("space", 0x20), ("quotesingle", 0x27)],
}
MARKS = [("acutecomb", 0x301, "top"), ("gravecomb", 0x300, "top"), ("dotbelowcomb", 0x323, "bottom"),
         ("qamatshb", 0x5B8, "bottom"), ("fathaar", 0x64E, "top"), ("anusvaradeva", 0x902, "top"),
         ("macroncomb", 0x304, "top")]
COMPOSITES = [("Aacute", 0xC1, "A", "acutecomb"), ("aacute", 0xE1, "a", "acutecomb"), ("Agrave", 0xC0, "A", "gravecomb"),
              ("odotbelow", 0x1ECD, "o", "dotbelowcomb"), ("emacron", 0x113, "e", "macroncomb"),
              ("Alphatonos", 0x386, "Alpha", "acutecomb")]


def _box(rng, w=None):
    x0 = rng.randrange(0, 80)
    y0 = rng.choice([0, 0, -20, -200])
    x1 = x0 + (w or rng.randrange(100, 500))
    y1 = y0 + rng.randrange(100, 700)
    return [[x0, y0, "line"], [x1, y0, "line"], [x1, y1, "line"], [x0, y1, "line"]]


def _curvy(rng):
    x = rng.randrange(20, 100)
    y = rng.randrange(0, 50)
    s = rng.randrange(100, 400)
    return [[x, y, "line"], [x + s, y, "line"], [x + s + 40, y + s // 3, None], [x + s + 40, y + 2 * s // 3, None],
            [x + s, y + s, "curve"], [x, y + s, "line"]]


def _shuffled(rng, l):
    l = list(l)
    rng.shuffle(l)
    return l


def markliga_glyphs(rng, between=True, prefix="ml"):
    """A "ligature mark" composite made ONLY of mark components (propagateAnchors promotes the component whose lower-left
    corner is nearest to the origin to base: _component_closest_to_origin / _bounds, one branch per UFO library), where the
    corner is NOT an on-curve point: one component's left (or bottom) side is a cubic whose two off-curve points stick out by
    B, so the curve itself only reaches 3B/4 (closed form, t = 1/2; B is a multiple of 4): its exact box and its control box
    differ by B/4.  `between`: the other component's corner is placed so that its distance lies between the two.
    Returns (glyph descriptions, name of the composite, exact lower-left corner of every component as Fractions)."""
    import math
    from fractions import Fraction
    for _ in range(200):
        axis = rng.choice("xy")
        X, Y = rng.randrange(150, 320), rng.randrange(330, 520)
        B = rng.choice([80, 120, 160, 200])
        if B > (X if axis == "x" else Y):
            continue
        half = rng.choice([0, 0, Fraction(1, 2)])
        dx, dy = rng.randrange(0, 60) + half, rng.choice([0, 50, 150])
        if axis == "x":
            cont = [[X + 100, Y, "line"], [X + 100, Y + 100, "line"], [X, Y + 100, "line"], [X - B, Y + 100, None], [X - B, Y, None], [X, Y, "curve"]]
            ex, ey = Fraction(X) - Fraction(3 * B, 4) + dx, Fraction(Y) + dy
            cx, cy = Fraction(X - B) + dx, ey
        else:
            cont = [[X, Y + 100, "line"], [X, Y, "line"], [X, Y - B, None], [X + 100, Y - B, None], [X + 100, Y, "curve"], [X + 100, Y + 100, "line"]]
            ex, ey = Fraction(X) + dx, Fraction(Y) - Fraction(3 * B, 4) + dy
            cx, cy = ex, Fraction(Y - B) + dy
        dE, dC = ex * ex + ey * ey, cx * cx + cy * cy
        if between:
            ay = int(min(ey, cy)) + rng.randrange(-60, 40)
            lo, hi = max(Fraction(0), dC - ay * ay), dE - ay * ay
            if ay < 0 or hi <= 1:
                continue
            amin, amax = math.isqrt(math.floor(lo)) + 1, math.isqrt(math.ceil(hi) - 1)
            cands = [a for a in range(amin, amax + 1) if lo < a * a < hi]
            if not cands:
                continue
            ax = rng.choice(cands)
        else:
            ax, ay = rng.randrange(0, 300), rng.randrange(300, 700)
        w, h = rng.randrange(60, 140), rng.randrange(60, 140)
        adx, ady = rng.choice([0, 0, 20]), rng.choice([0, 0, 30])
        if ax - adx < 0 or ay - ady < 0:
            adx = ady = 0
        box = [[ax - adx, ay - ady, "line"], [ax - adx + w, ay - ady, "line"], [ax - adx + w, ay - ady + h, "line"], [ax - adx, ay - ady + h, "line"]]
        fl = lambda v: float(v) if v != int(v) else int(v)
        a, b = prefix + "boxcomb", prefix + "bulgecomb"
        comps = [[a, [1, 0, 0, 1, adx, ady]], [b, [1, 0, 0, 1, fl(dx), dy]]]
        exact = [[Fraction(ax), Fraction(ay)], [ex, ey]]
        if rng.random() < 0.5:
            comps.reverse()
            exact.reverse()
        glyphs = [
            {"name": a, "unicodes": [], "width": 0, "contours": [box], "components": [],
             "anchors": [["_top", ax + w // 2, ay - 30], ["top", ax + w // 2, ay + h + 20]]},
            {"name": b, "unicodes": [], "width": 0, "contours": [cont], "components": [],
             "anchors": [["_top", X + 50, Y - 20 - (B if axis == "y" else 0)], ["top", X + 50, Y + 120]]},
            {"name": a + "_" + b, "unicodes": [], "width": 0, "contours": [], "components": comps, "anchors": []},
        ]
        return glyphs, a + "_" + b, exact
    raise RuntimeError("markliga_glyphs: no geometry found")


def gen_font(rng, rich=True, dense=None, collide=False, markliga=False):
    """a font description (see ufo.py) whose generated features depend on many Python sets"""
    scripts = ["lat"]
    others = ["grk", "cyr", "heb", "ara", "dev"]
    rng.shuffle(others)
    scripts += others[:rng.choice([0, 1, 1, 2, 3])]
    if rng.random() < 0.15:
        scripts = [s for s in scripts if s != "lat"] or ["heb"]
    glyphs = []
    byname = {}

    def add(name, uni=None, contours=None, width=None, anchors=None, comps=None):
        g = {"name": name, "unicodes": [] if uni is None else [uni], "contours": contours if contours is not None else [],
             "components": comps or [], "anchors": anchors or [],
             "width": width if width is not None else rng.choice([400, 500, 520.5, 600, 633])}
        glyphs.append(g)
        byname[name] = g
        return g

    add(".notdef", None, [_box(rng)], 500) if rng.random() < 0.5 else None
    basenames, bucket = [], {}
    for s in scripts + ["com"]:
        pool = list(BASES[s])
        rng.shuffle(pool)
        k = rng.randrange(2, len(pool) + 1)
        if s == "lat":
            pool = [p for p in BASES[s] if p[0] in ("A", "a", "o", "e", "f", "i")] + [p for p in pool if p[0] not in ("A", "a", "o", "e", "f", "i")]
            k = max(k, 6)
        for name, uni in pool[:k]:
            cont = [] if name == "space" else [_curvy(rng) if rng.random() < 0.3 else _box(rng)]
            if rng.random() < 0.2 and name != "space":
                cont.append(_box(rng, 60))
            add(name, uni, cont)
            basenames.append(name)
            bucket[name] = s
    # marks
    marks = []
    mpool = list(MARKS)
    rng.shuffle(mpool)
    for name, uni, cls in mpool[:rng.randrange(2, len(mpool) + 1)]:
        w = 0 if rng.random() < 0.75 else rng.choice([100, 250])   # non-zero = "spacing" marks (mark filtering sets)
        an = [["_" + cls, rng.randrange(-150, 150), rng.randrange(400, 700) if cls == "top" else rng.randrange(-100, 0)]]
        if rng.random() < 0.6:  # mark-to-mark
            an.append([cls, an[0][1] + rng.randrange(-10, 10), an[0][2] + (rng.randrange(100, 200) if cls == "top" else -rng.randrange(100, 200))])
        if rng.random() < 0.15:
            an.append(["_" + ("bottom" if cls == "top" else "top"), rng.randrange(-100, 100), rng.randrange(0, 500)])
        add(name, uni, [_box(rng, 80)], w, an)
        marks.append(name)
    # base anchors
    for n in basenames:
        if n == "space":
            continue
        g = byname[n]
        if rng.random() < 0.8:
            g["anchors"].append(["top", rng.randrange(100, 400) + rng.choice([0, 0.5]), rng.randrange(500, 750)])
        if rng.random() < 0.6:
            g["anchors"].append(["bottom", rng.randrange(100, 400), rng.randrange(-50, 10)])
        if bucket[n] == "ara" or rng.random() < 0.08:
            if rng.random() < 0.9:
                g["anchors"].append(["entry", rng.randrange(300, 600), rng.randrange(0, 100)])
            if rng.random() < 0.9:
                g["anchors"].append(["exit", rng.randrange(0, 60), rng.randrange(0, 100)])
            if rng.random() < 0.6:
                g["anchors"].append(["entry.alt", rng.randrange(300, 600), rng.randrange(100, 200)])
                g["anchors"].append(["exit.alt", rng.randrange(0, 60), rng.randrange(100, 200)])
    if collide:
        for n in ("A", "a", "o"):
            if n in byname and not any(a[0] == "top" for a in byname[n]["anchors"]):
                byname[n]["anchors"].append(["top", 250, 700])
    # ligatures
    ligas = []
    feats = []
    if "f" in byname and "i" in byname and (collide or rng.random() < 0.7):
        an = [["top_1", 120, 700], ["top_2", 420, 690]]
        if rng.random() < 0.7:
            an.append(["caret_1", rng.randrange(200, 320) + rng.choice([0, 0.5]), 0])
        if rng.random() < 0.3:
            an.append(["caret_2", rng.randrange(100, 199), 0])
        if rng.random() < 0.5:
            an += [["bottom_1", 130, -10], ["bottom_2", 400, -12]]
        add("f_i", None, [_box(rng, 520)], 640, an)
        ligas.append("f_i")
        feats.append("feature liga {\n    sub f i by f_i;\n} liga;")
    if "lamar" in byname and "alefar" in byname and rng.random() < 0.7:
        add("lam_alefar", 0xFEFB, [_box(rng, 420)], 560, [["top_1", 300, 650], ["top_2", 100, 640], ["vcaret_1", 0, 200]])
        ligas.append("lam_alefar")
        feats.append("feature rlig {\n    sub lamar alefar by lam_alefar;\n} rlig;")
    if "behar" in byname and rng.random() < 0.7:
        for suf in ("init", "fina"):
            add("behar." + suf, None, [_box(rng, 300)], 450,
                [["top", 200, 600], ["entry", 440, 20], ["exit", 10, 22]] if rng.random() < 0.8 else [["top", 210, 610]])
            basenames.append("behar." + suf)
            bucket["behar." + suf] = "ara"
        feats.append("feature init {\n    sub behar by behar.init;\n} init;\nfeature fina {\n    sub behar by behar.fina;\n} fina;")
    if "a" in byname and rng.random() < 0.4:
        add("a.sc", None, [_box(rng, 300)], 480, [["top", 240, 520]])
        basenames.append("a.sc")
        bucket["a.sc"] = "lat"
        feats.append("feature smcp {\n    sub a by a.sc;\n} smcp;")
    # contextual mark anchors: "*name" + identifier + glyph.lib["public.objectLibs"][identifier]["GPOS_Context"]
    if "a" in byname and "f" in byname and rng.random() < 0.35:
        byname["a"]["ctx_anchors"] = [["*top", 210, 640 + rng.choice([0, 15]), "f *"]]
        if "f_i" in byname and "acutecomb" in byname and rng.random() < 0.6:
            byname["f_i"]["ctx_anchors"] = [["*top_1.acute", 140, 720, "* acutecomb"]]
    # composites (anchor propagation)
    comps = []
    for name, uni, b, m in COMPOSITES:
        if b in byname and m in byname and rng.random() < 0.7:
            dx, dy = rng.randrange(50, 200), rng.randrange(0, 150) + rng.choice([0, 0.5])
            add(name, uni, [], byname[b]["width"], [], [[b, [1, 0, 0, 1, 0, 0]], [m, [1, 0, 0, 1, dx, dy]]])
            if rng.random() < 0.2:
                byname[name]["anchors"].append(["top", 250, 900])
            comps.append(name)
            basenames.append(name)
            bucket[name] = bucket[b]
    # two carriers of "top" (-> top_1, top_2) next to a ligature that has its own top_1 / top_2: the keys written into
    # propagateAnchors' `to_add` collide, so the winner depends on the order in which the anchor NAMES are visited
    tops = [n for n in basenames if any(a[0] == "top" for a in byname[n]["anchors"]) and not byname[n]["components"]]
    if len(tops) >= 2 and ligas and (collide or rng.random() < 0.35):
        b1, b2 = rng.sample(tops, 2)
        # (no caret anchors on that ligature: a PROPAGATED caret anchor makes the GDEF writer crash unless inplace=True -
        #  finding F1 of this property, generated separately by `finding_cases`)
        byname[ligas[0]]["anchors"] = [a for a in byname[ligas[0]]["anchors"] if "caret_" not in a[0]]
        add("x_combo", None, [], 1500, [], [[b1, [1, 0, 0, 1, 0, 0]], [b2, [1, 0, 0, 1, 500, 0]], [ligas[0], [1, 0, 0, 1, 1000, 0]]])
        comps.append("x_combo")
        ligas.append("x_combo")      # categorised as a ligature, so that its top_1 / top_2 anchors reach GPOS
    if "acutecomb" in byname and "gravecomb" in byname and rng.random() < 0.3:
        add("acutecomb_gravecomb", None, [], 0, [], [["acutecomb", [1, 0, 0, 1, 0, 0]], ["gravecomb", [1, 0, 0, 1, 0, 180]]])
        marks.append("acutecomb_gravecomb")
    if markliga:
        # a mark-only "ligature mark" whose promoted component depends on the EXACT bounds of a curve (see markliga_glyphs)
        mg, mname, _ = markliga_glyphs(rng, between=rng.random() < 0.8)
        for g in mg:
            add(g["name"], None, g["contours"], 0, g["anchors"], g["components"])
            marks.append(g["name"])
        comps.append(mname)

    # kerning groups: random partition of part of the bases (also across scripts), separately per side
    fd = {"upm": 1000, "glyphs": glyphs, "info": {"familyName": "C08 Test", "styleName": "Regular", "ascender": 800, "descender": -200,
                                                   "xHeight": 500, "capHeight": 700}, "lib": {}}
    kernable = [n for n in basenames if n != "space"]
    groups = {}
    for side in ("public.kern1.", "public.kern2."):
        pool = list(kernable) + (marks[:1] if rng.random() < 0.3 else [])
        rng.shuffle(pool)
        pool = pool[:rng.randrange(2, len(pool) + 1)]
        i, gi = 0, 0
        while i < len(pool):
            k = rng.choice([1, 2, 2, 3, 4])
            mem = pool[i:i + k]
            i += k
            gname = side + rng.choice(["", "", "x_"]) + mem[0].replace(".", "_") + rng.choice(["", "", "", " grp", "-1"])
            if rng.random() < 0.1 and not any("ghost" in v for k, v in groups.items() if k.startswith(side)):
                mem = mem + ["ghost"]       # not in the font
            groups[gname] = mem
            gi += 1
    memonly = False
    if rng.random() < 0.12 and groups:      # an overlapping (rejected) group and an empty one: ufoLib refuses to SAVE such a UFO
        memonly = True
        k0 = next(iter(groups))
        groups[k0.split(".")[0] + "." + k0.split(".")[1] + ".zz_overlap"] = list(groups[k0][:1]) + kernable[:1]
        groups["public.kern1.empty"] = []
    if rng.random() < 0.3:
        groups["other.group"] = kernable[:2]
    g1 = [k for k in groups if k.startswith("public.kern1.")]
    g2 = [k for k in groups if k.startswith("public.kern2.")]
    kern = {}
    npairs = rng.choice([0, 3, 8, 15, 30]) if rich else 3
    dense = (rng.random() < 0.3 if dense is None else dense) and not memonly
    if dense:
        for ch in "BCDEGHKLMNPRbcdghklmnprs":       # more Latin letters: one big script bucket
            if ch not in byname:
                add(ch, ord(ch), [_box(rng)])
                kernable.append(ch)
        # many small classes per side, kerned on a sparse pattern: the shape GPOS compaction (ftConfig) rewrites
        groups = {k: v for k, v in groups.items() if not k.startswith("public.kern")}
        for side in ("public.kern1.", "public.kern2."):
            pool = _shuffled(rng, kernable)
            i = 0
            while i < len(pool):
                k = rng.choice([1, 2, 2])
                groups[side + "c%02d" % i] = pool[i:i + k]
                i += k
        g1 = [k for k in groups if k.startswith("public.kern1.")]
        g2 = [k for k in groups if k.startswith("public.kern2.")]
        for i, l in enumerate(g1):
            kern[(l, g2[i % len(g2)])] = -(10 + i)
            kern[(l, g2[(i * 5 + 3) % len(g2)])] = 5 + i
        npairs = rng.choice([0, 4])
    for _ in range(npairs):
        r = rng.random()
        l = rng.choice(g1) if (g1 and r < 0.5) else rng.choice(kernable + marks[:2])
        r2 = rng.random()
        rr = rng.choice(g2) if (g2 and r2 < 0.5) else rng.choice(kernable + marks[:2])
        kern[(l, rr)] = rng.choice([-80, -40, -20.5, -10, 0, 15, 30, 7.25])
    if rng.random() < 0.1:
        kern[("ghost", "A")] = -5
    fd["kerning"] = [[l, r, v] for (l, r), v in kern.items()]
    fd["groups"] = groups
    # categories
    mode = rng.choice(["lib", "lib", "none", "gdef"])
    if mode == "lib":
        cats = {}
        for n in byname:
            if n in marks:
                cats[n] = "mark"
            elif n in ligas:
                cats[n] = "ligature"
            elif n in basenames and rng.random() < 0.9:
                cats[n] = "base"
        fd["lib"]["public.openTypeCategories"] = cats
    lsys = rng.choice(["none", "none", "dflt", "some", "langs"])
    head = []
    otag = {"lat": "latn", "grk": "grek", "cyr": "cyrl", "heb": "hebr", "ara": "arab", "dev": "dev2"}
    if lsys == "dflt":
        head.append("languagesystem DFLT dflt;")
    elif lsys in ("some", "langs"):
        head.append("languagesystem DFLT dflt;")
        for s in scripts[:rng.randrange(1, len(scripts) + 1)]:
            head.append(f"languagesystem {otag[s]} dflt;")
            if lsys == "langs" and rng.random() < 0.6:
                head.append(f"languagesystem {otag[s]} {rng.choice(['TRK ', 'ROM ', 'URD ', 'MAR '])};")
    if mode == "gdef":
        bs = " ".join(n for n in basenames if n != "space")
        feats.append("table GDEF {\n    GlyphClassDef [%s], [%s], [%s], ;\n} GDEF;" % (bs, " ".join(ligas), " ".join(marks)))
    fd["features"] = "\n".join(head + feats) + ("\n" if head or feats else "")
    # filters / options that reach the anchored code
    filt = []
    if comps and (collide or markliga or rng.random() < 0.7):
        filt.append({"name": "propagateAnchors", "pre": True})
        # cursive / caret anchors must not be PROPAGATED in this stream: the curs and gdef writers look anchors up in the
        # caller's source font, where a propagated anchor exists only if inplace=True (finding F1, see `finding_fonts`)
        used = {c[0] for g in glyphs for c in g["components"]}
        for g in glyphs:
            if g["name"] in used:
                g["anchors"] = [a for a in g["anchors"] if not a[0].startswith(("entry", "exit", "caret_", "vcaret_"))]
    if rng.random() < 0.2:
        filt.append({"name": "flattenComponents", "pre": True})
    if filt:
        fd["lib"]["com.github.googlei18n.ufo2ft.filters"] = filt
    if mode != "gdef" and rng.random() < 0.15 and len(kernable) > 3:
        fd["lib"]["public.skipExportGlyphs"] = [rng.choice([n for n in kernable if n not in ("A", "a", "f", "i", "behar", "lamar", "alefar") and not any(n == c[0] for g in glyphs for c in g["components"])] or ["ghost"])]
    if rng.random() < 0.5:
        order = [g["name"] for g in glyphs]
        rng.shuffle(order)
        fd["glyphOrder"] = order[:rng.randrange(0, len(order) + 1)]
    if rng.random() < 0.3:
        fd["lib"]["public.postscriptNames"] = {n: "ps_" + n.replace(".", "_") for n in list(byname)[:3] if n != ".notdef"}
    fd["_stats"] = {"scripts": sorted(scripts), "marks": len(marks), "ligas": len(ligas), "comps": len(comps), "pairs": len(kern),
                    "groups": len(groups), "cats": mode, "lsys": lsys, "memonly": memonly, "ctx": sum(len(g.get("ctx_anchors", [])) for g in glyphs), "dense": dense, "collide": any(g["name"] == "x_combo" for g in glyphs), "markliga": bool(markliga), "filters": [f["name"] for f in filt]}
    return fd


def vary_master(rng, fd):
    """a second, compatible master: same structure, moved points/anchors, different kerning values, some pairs missing/extra"""
    m = json.loads(json.dumps(fd))
    for g in m["glyphs"]:
        dx = rng.choice([0, 10, 20, 35])
        for c in g["contours"]:
            for p in c:
                if p[0] > 90:
                    p[0] += dx
                if p[1] > 90:
                    p[1] += rng.choice([0, 0, 5])
        g["width"] = g["width"] + (dx if g["width"] else 0)
        for a in g["anchors"] + g.get("ctx_anchors", []):
            a[1] += rng.choice([0, 5, 12])
            a[2] += rng.choice([0, 0, 8])
        for c in g["components"]:
            c[1][4] += rng.choice([0, 10])
    kern = []
    for l, r, v in m["kerning"]:
        if rng.random() < 0.15:
            continue
        kern.append([l, r, v if rng.random() < 0.3 else v - rng.choice([5, 10, 20])])
    names = [g["name"] for g in m["glyphs"] if g["contours"]]
    if len(names) >= 2 and rng.random() < 0.5:
        a, b = rng.sample(names, 2)
        if not any(l == a and r == b for l, r, _ in kern):
            kern.append([a, b, -33])
    m["kerning"] = kern
    m["info"]["styleName"] = "Bold"
    return m


def without_propagate(fd):
    """variable builds read anchors from the SOURCES (baseFeatureWriter._getAnchor), so anchors that exist only in the
    pre-processed glyph set (propagateAnchors filter) make the mark writer crash there: not this property's business"""
    m = json.loads(json.dumps(fd))
    fl = [f for f in m["lib"].get("com.github.googlei18n.ufo2ft.filters", []) if f["name"] != "propagateAnchors"]
    if fl:
        m["lib"]["com.github.googlei18n.ufo2ft.filters"] = fl
    else:
        m["lib"].pop("com.github.googlei18n.ufo2ft.filters", None)
    return m


def shuffled(fd, seed):
    """the same UFO content with every dict-like container filled in another order (what a save / reload, another editor
    or another UFO library may legitimately change): glyph insertion order, kerning, groups, lib keys, categories, info"""
    rng = random.Random(seed)
    m = json.loads(json.dumps(fd))

    def shuf_dict(d):
        ks = list(d)
        rng.shuffle(ks)
        return {k: d[k] for k in ks}

    rng.shuffle(m["glyphs"])
    rng.shuffle(m["kerning"])
    # overlapping kerning groups are not a valid UFO (ufoLib refuses to write them); ufo2ft keeps the FIRST group that
    # claims a glyph, so for such sources the order of `groups` is content and is kept
    if not m.get("_stats", {}).get("memonly"):
        m["groups"] = shuf_dict(m["groups"])
    m["info"] = shuf_dict(m["info"])
    lib = {}
    for k, v in shuf_dict(m["lib"]).items():
        lib[k] = shuf_dict(v) if isinstance(v, dict) else v
    m["lib"] = lib
    return m


def finding_fonts():
    """F1: an anchor that exists only in the pre-processed glyph set (put there by the propagateAnchors filter) is looked up in
    the caller's SOURCE font by the feature writers (baseFeatureWriter._getAnchor): gdef `caret_*` anchors in static builds,
    every mark anchor in variable builds.  Without inplace=True the lookup returns None -> TypeError; with inplace=True the
    filter has modified the source itself, so the same call compiles.  Minimal reproducers:"""
    box = [[0, 0, "line"], [100, 0, "line"], [100, 100, "line"], [0, 100, "line"]]
    flt = {"com.github.googlei18n.ufo2ft.filters": [{"name": "propagateAnchors", "pre": True}]}
    static = {"upm": 1000, "info": {"familyName": "F1", "styleName": "Regular"}, "lib": dict(flt), "kerning": [], "groups": {}, "features": "",
              "glyphs": [{"name": "f_i", "unicodes": [], "width": 600, "contours": [box], "components": [], "anchors": [["caret_1", 300, 0]]},
                         {"name": "f_i.alt", "unicodes": [], "width": 600, "contours": [], "components": [["f_i", [1, 0, 0, 1, 0, 0]]], "anchors": []}],
              "_stats": {"scripts": [], "memonly": False, "filters": ["propagateAnchors"]}}
    var = {"upm": 1000, "info": {"familyName": "F1", "styleName": "Regular"}, "lib": dict(flt), "kerning": [], "groups": {}, "features": "",
           "glyphs": [{"name": "A", "unicodes": [65], "width": 600, "contours": [box], "components": [], "anchors": [["top", 300, 700]]},
                      {"name": "acutecomb", "unicodes": [0x301], "width": 0, "contours": [box], "components": [], "anchors": [["_top", 50, 600]]},
                      {"name": "A.alt", "unicodes": [], "width": 600, "contours": [], "components": [["A", [1, 0, 0, 1, 0, 0]]], "anchors": []}],
           "_stats": {"scripts": [], "memonly": False, "filters": ["propagateAnchors"]}}
    var2 = json.loads(json.dumps(var))
    var2["info"]["styleName"] = "Bold"
    var2["glyphs"][0]["anchors"][0][1] = 320
    curs = {"upm": 1000, "info": {"familyName": "F1", "styleName": "Regular"}, "lib": dict(flt), "kerning": [], "groups": {}, "features": "",
            "glyphs": [{"name": "behar", "unicodes": [0x628], "width": 600, "contours": [box], "components": [],
                        "anchors": [["entry", 580, 40], ["exit", 10, 30]]},
                       {"name": "behar.alt", "unicodes": [], "width": 600, "contours": [], "components": [["behar", [1, 0, 0, 1, 0, 0]]], "anchors": []}],
            "_stats": {"scripts": [], "memonly": False, "filters": ["propagateAnchors"]}}
    return static, [var, var2], curs


# ---------------------------------------------------------------------------------------------- worker (fresh interpreter)

KINDS = ("ttf", "otf", "vttf", "vcff2", "ittf", "iotf")


def _digest(tt):
    from fontTools.ttLib import TTFont
    buf = io.BytesIO()
    tt.save(buf)
    data = buf.getvalue()
    rd = TTFont(io.BytesIO(data))
    tables = {}
    for tag in sorted(rd.reader.keys()):
        raw = rd.reader[tag]
        if tag == "head":
            raw = raw[:8] + b"\0\0\0\0" + raw[12:]   # checkSumAdjustment is a function of the whole file
        tables[tag] = hashlib.sha256(raw).hexdigest()[:12]
    return hashlib.sha256(data).hexdigest(), tables


def _build_sources(case, lib, fds):
    """fds -> (list of font objects, designspace or None)"""
    sys.path.insert(0, HERE)
    from ufo import build
    fonts = [build({k: v for k, v in fd.items() if not k.startswith("_")}, lib) for fd in fds]
    for fd, f in zip(fds, fonts):
        for g in fd["glyphs"]:      # anchors with an identifier and object lib data (harness/ufo.py builds plain anchors only)
            for name, x, y, ctx in g.get("ctx_anchors", []):
                f[g["name"]].appendAnchor({"name": name, "x": x, "y": y, "identifier": name})
                f[g["name"]].lib.setdefault("public.objectLibs", {})[name] = {"GPOS_Context": ctx}
        # defcon records the order in which glyphs are CREATED as lib["public.glyphOrder"]; that is content the
        # description does not have, so it is removed again to keep "the same source" the same for both libraries
        if fd.get("glyphOrder") is None and "public.glyphOrder" in f.lib:
            del f.lib["public.glyphOrder"]
    return fonts


def _designspace(fonts, paths=None, vfinfo=None):
    """`vfinfo`: one dict of fontinfo overrides per <variable-font> element (lib key public.fontInfo, as written by
    glyphsLib / fontmake for "variable font origin" exports): PostProcessor.apply_fontinfo -> InfoCompiler"""
    from fontTools.designspaceLib import AxisDescriptor, DesignSpaceDocument, SourceDescriptor
    ds = DesignSpaceDocument()
    ax = AxisDescriptor()
    ax.name, ax.tag, ax.minimum, ax.default, ax.maximum = "Weight", "wght", 400, 400, 700
    ds.addAxis(ax)
    for i, f in enumerate(fonts):
        s = SourceDescriptor()
        s.font = f
        s.name = "master%d" % i
        s.familyName = "C08 Test"
        s.styleName = ["Regular", "Bold"][i]
        s.location = {"Weight": [400, 700][i]}
        if paths:
            s.path = paths[i]
            s.filename = os.path.basename(paths[i])
        ds.addSource(s)
    if vfinfo:
        from fontTools.designspaceLib import RangeAxisSubsetDescriptor, VariableFontDescriptor
        for i, info in enumerate(vfinfo):
            ds.addVariableFont(VariableFontDescriptor(name="C08TestVF%d" % i, axisSubsets=[RangeAxisSubsetDescriptor(name="Weight")],
                                                      lib={"public.fontInfo": json.loads(json.dumps(info))} if info is not None else {}))
    return ds


def _open(path, lib):
    if lib == "ufoLib2":
        import ufoLib2
        return ufoLib2.Font.open(path)
    import defcon
    return defcon.Font(path)


def worker(case):
    """case: {"fds": [fd, fd2?], "lib", "source": "mem"|"disk", "reopen": lib, "shuffle": seed|None, "steps": [[kind, "same"|"fresh"|"inplace"], ...],
              "opts": {...}}.  Every step runs on the SAME source objects (a call history) except inplace steps, which get a private
    rebuilt copy. Prints {"obs": [[kind, inplace, sha, tables] | [kind, inplace, "ERR:...", {}]]}."""
    import ufo2ft
    fds = case["fds"]
    if case.get("shuffle") is not None:
        fds = [shuffled(fd, case["shuffle"] + i) for i, fd in enumerate(fds)]
    tmp = None
    out = []
    try:
        def make():
            nonlocal tmp
            fonts = _build_sources(case, case["lib"], fds)
            paths = None
            if case["source"] == "disk":
                if tmp is None:
                    tmp = tempfile.mkdtemp(prefix="c08-")
                paths = []
                sub = tempfile.mkdtemp(dir=tmp)
                for i, f in enumerate(fonts):
                    p = os.path.join(sub, "m%d.ufo" % i)
                    f.save(p)
                    paths.append(p)
                fonts = [_open(p, case.get("reopen") or case["lib"]) for p in paths]
            ds = None
            if len(fonts) > 1:
                ds = _designspace(fonts, paths, case.get("vfinfo"))
                if paths:
                    from fontTools.designspaceLib import DesignSpaceDocument
                    dpath = os.path.join(os.path.dirname(paths[0]), "t.designspace")
                    ds.write(dpath)
                    ds = DesignSpaceDocument.fromfile(dpath)
                    for s, f in zip(ds.sources, fonts):
                        s.font = f
            return fonts, ds

        fonts, ds = make()
        opts = dict(case.get("opts") or {})
        if "ftConfig" in opts:
            # option keys are fontTools `Option` objects (ufo2ft looks its GPOS compaction key up by object); ONE dict object
            # is shared by every call of this interpreter, like a caller re-using its options
            from fontTools.otlLib.optimize.gpos import COMPRESSION_LEVEL
            opts["ftConfig"] = {(COMPRESSION_LEVEL if k == COMPRESSION_LEVEL.name else k): v for k, v in opts["ftConfig"].items()}
        # filter OBJECTS given through the `filters=` argument are option objects too: ONE list of instances is made per
        # interpreter and handed to every call of the history (decoy compiles of another font included); only the reference
        # run ("fresh" steps) gets brand-new, equal instances for every call
        fspecs = opts.pop("filterObjs", None)

        def make_filters():
            from ufo2ft.filters import getFilterClass
            fl = []
            for sp in fspecs:
                if sp == "...":
                    fl.append(...)
                else:
                    fl.append(getFilterClass(sp["name"])(pre=bool(sp.get("pre")), **dict(sp.get("kwargs") or {})))
            return fl

        shared_filters = make_filters() if fspecs else None
        import dataclasses
        from ufo2ft._compilers.interpolatableOTFCompiler import InterpolatableOTFCompiler
        from ufo2ft._compilers.interpolatableTTFCompiler import InterpolatableTTFCompiler
        from ufo2ft._compilers.otfCompiler import OTFCompiler
        from ufo2ft._compilers.ttfCompiler import TTFCompiler
        from ufo2ft._compilers.variableCFF2sCompiler import VariableCFF2sCompiler
        from ufo2ft._compilers.variableTTFsCompiler import VariableTTFsCompiler
        CLS = {"ttf": TTFCompiler, "otf": OTFCompiler, "vttf": VariableTTFsCompiler, "vcff2": VariableCFF2sCompiler,
               "ittf": InterpolatableTTFCompiler, "iotf": InterpolatableOTFCompiler}
        for kind, mode in case["steps"]:
            f, d = (fonts, ds)
            if mode == "decoy":
                # history made of calls on OTHER objects: a different font (other skip list, features, kerning) goes first
                rr = random.Random(12345)
                dfd = gen_font(rr)
                dfd["lib"]["public.skipExportGlyphs"] = ["o"]
                dfd["lib"].pop("com.github.googlei18n.ufo2ft.filters", None)
                # ... with other vertical metrics than every generated source (what a filter derives from a font differs)
                dfd["info"].update({"capHeight": 640, "xHeight": 430, "ascender": 760, "descender": -240})
                df = _build_sources(case, case["lib"], [dfd])[0]
                dkw = {"filters": shared_filters} if shared_filters is not None else {}
                try:
                    (ufo2ft.compileTTF if kind == "ttf" else ufo2ft.compileOTF)(df, **dkw)
                except Exception:
                    pass
                continue
            if mode in ("inplace", "fresh"):
                f, d = make()
            ok = {fl.name for fl in dataclasses.fields(CLS[kind])}
            kw = {k: v for k, v in opts.items() if k in ok}
            if mode == "inplace":
                kw["inplace"] = True
            if fspecs:
                kw["filters"] = make_filters() if mode == "fresh" else shared_filters
            fea = None
            if kind in ("ttf", "otf"):
                fea = io.StringIO()
                kw["debugFeatureFile"] = fea
            try:
                if kind == "ttf":
                    res = [ufo2ft.compileTTF(f[0], **kw)]
                elif kind == "otf":
                    res = [ufo2ft.compileOTF(f[0], **kw)]
                elif kind == "vttf" and case.get("vfinfo"):     # every <variable-font> of the document, in document order
                    res = list(ufo2ft.compileVariableTTFs(d, **kw).values())
                elif kind == "vcff2" and case.get("vfinfo"):
                    res = list(ufo2ft.compileVariableCFF2s(d, **kw).values())
                elif kind == "vttf":
                    res = [ufo2ft.compileVariableTTF(d, **kw)]
                elif kind == "vcff2":
                    res = [ufo2ft.compileVariableCFF2(d, **kw)]
                elif kind == "ittf":
                    r = ufo2ft.compileInterpolatableTTFsFromDS(d, **kw)
                    res = [s.font for s in r.sources]
                elif kind == "iotf":
                    r = ufo2ft.compileInterpolatableOTFsFromDS(d, **kw)
                    res = [s.font for s in r.sources]
                else:
                    raise ValueError(kind)
                shas, tabs = [], {}
                for i, tt in enumerate(res):
                    s, t = _digest(tt)
                    shas.append(s)
                    for k, v in t.items():
                        tabs[(k if len(res) == 1 else "%d:%s" % (i, k))] = v
                if fea is not None:   # diagnostic only (not part of the font): the generated feature text
                    tabs["~fea"] = hashlib.sha256(fea.getvalue().encode()).hexdigest()[:12]
                out.append([kind, mode, hashlib.sha256("".join(shas).encode()).hexdigest() if len(shas) > 1 else shas[0], tabs])
            except Exception as e:  # a crash of the code under test is an observation
                out.append([kind, mode, "ERR:" + type(e).__name__ + ":" + str(e)[:120], {}])
    finally:
        if tmp is not None:
            shutil.rmtree(tmp, ignore_errors=True)
    return {"obs": out}


def run_worker(case, hashseed, timeout=300):
    """start a FRESH interpreter with the given PYTHONHASHSEED; PYTHONPATH is inherited (so a scratch ufo2ft can be tested)"""
    import subprocess
    env = dict(os.environ)
    env["PYTHONHASHSEED"] = str(hashseed)
    env.setdefault("SOURCE_DATE_EPOCH", "1700000000")
    if case.get("epoch") is not None:     # the value that pins the timestamps is part of the case (0 = the epoch itself, ...)
        env["SOURCE_DATE_EPOCH"] = str(case["epoch"])
    env["PYTHONWARNINGS"] = "ignore"
    p = subprocess.run([sys.executable, os.path.abspath(__file__), "worker"], input=json.dumps(case), env=env,
                       stdout=subprocess.PIPE, stderr=subprocess.PIPE, text=True, timeout=timeout)
    lines = [l for l in p.stdout.splitlines() if l.startswith("{\"obs\"")]
    if p.returncode != 0 or not lines:
        raise RuntimeError("C08 worker failed rc=%s: %s" % (p.returncode, p.stderr[-1500:]))
    return json.loads(lines[-1])["obs"]


if __name__ == "__main__" and len(sys.argv) > 1 and sys.argv[1] == "worker":
    import logging
    logging.disable(logging.CRITICAL)
    c = json.loads(sys.stdin.read())
    print(json.dumps(worker(c)))
