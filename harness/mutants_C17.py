"""Own mutants of the C17 check.  usage:
  git -C /repo worktree add --detach /tmp/build/C17-repo
  /venv/bin/python harness/mutants_C17.py [names]     # applies each textual change to the worktree, runs ./check C17, undoes it
  git -C /repo worktree remove --force /tmp/build/C17-repo
Expected: every mutant exits 1 with a failing input, except M16 (order among *generated* feature blocks: outside C17)."""
import subprocess, sys, os, json
R=os.environ.get("C17_REPO_WT", "/tmp/build/C17-repo")
ROOT=os.path.dirname(os.path.dirname(os.path.abspath(__file__)))
B=R+"/Lib/ufo2ft/featureWriters/baseFeatureWriter.py"
A=R+"/Lib/ufo2ft/featureWriters/ast.py"
F=R+"/Lib/ufo2ft/featureCompiler.py"
G=R+"/Lib/ufo2ft/featureWriters/gdefFeatureWriter.py"
MUTS = {
 "M1-bottom-index": (B, "                elif onlyCommentsAfter:\n                    index = statements.index(block) + 1", "                elif onlyCommentsAfter:\n                    index = statements.index(block)"),
 "M2-dependent-after": (B, "                    statements.insert(index, features[i])", "                    statements.insert(index + 1, features[i])"),
 "M3-case-insensitive": (A, "            if re.match(pattern, str(statement)):", "            if re.match(pattern, str(statement), re.IGNORECASE):"),
 "M4-gsub-last": (F, "        self.featureWriters = gsubWriters + others", "        self.featureWriters = others + gsubWriters"),
 "M6-marker-not-unskipped": (B, "                existing.difference_update(insertComments.keys())", "                pass"),
 "M17-marker-left-in-place": (B, "                del block.statements[markerIndex]\n", "                pass\n"),
 "M18-lookups-replace-a-statement": (B, "                statements[:minindex] + lookups + statements[minindex:]", "                statements[:minindex] + lookups + statements[minindex + 1:]"),
 "M9-split-drops-statement": (B, "                    afterBlock.statements = block.statements[markerIndex:]", "                    afterBlock.statements = block.statements[markerIndex + 1:]"),
 "M10-first-marker-last": (B, "                if block.name in featureTags and block.name not in insertComments:", "                if block.name in featureTags:"),
 "M11-lib-writers-ignored": (F, "                writers = loadFeatureWriters(self.ufo)", "                writers = None"),
 "M12-gdef-replaces-user-table": (G, "            gdefTableBlock.statements.append(glyphClassDefs)", "            gdefTableBlock.statements = [glyphClassDefs]"),
 "M13-nested-marker": (B, "            if len(blocks) == 1 and isinstance(blocks[0], ast.FeatureBlock):", "            if blocks and isinstance(blocks[0], ast.FeatureBlock):"),
 "M14-text-comment-changed": (F, "                self.features = featureFile.asFea()", "                self.features = featureFile.asFea().replace('# Automatic Code', '# Automatic code')"),
 "M15-text-loses-languagesystem": (F, "                self.features = featureFile.asFea()", "                self.features = featureFile.asFea().replace('languagesystem latn dflt;', '')"),
 "M16-kern-writer-moves-classdefs": (R+"/Lib/ufo2ft/featureWriters/kernFeatureWriter.py", "            features=[features[tag] for tag in [\"kern\", \"dist\"] if tag in features],", "            features=[features[tag] for tag in [\"dist\", \"kern\"] if tag in features],"),
}
which = sys.argv[1:] or list(MUTS)
for name in which:
    path, old, new = MUTS[name]
    src = open(path).read()
    assert src.count(old) == 1, (name, src.count(old))
    open(path, "w").write(src.replace(old, new))
    try:
        p = subprocess.run(["./check", "C17"], cwd=ROOT, env=dict(os.environ, PYTHONPATH=R+"/Lib"), capture_output=True, text=True)
        out = [l for l in p.stdout.splitlines() if l.startswith("C17 ") or "VIOLATION" in l or "INFRA" in l]
        print("==", name, "exit", p.returncode); print("\n".join(out))
        try:
            r=[json.loads(l) for l in open(os.path.join(ROOT,'replays/C17-quick-0.jsonl'))]
            print("   kind:", r[0]['kind'], "| case kind:", r[1]['case']['kind'] if len(r)>1 else None)
        except Exception as e: print(e)
    finally:
        subprocess.run(["git", "-C", R, "checkout", "--", "."])
