"""usage: /venv/bin/python harness/find_corpus.py C05 '<shape json>' [maxseeds]
Search the generator's stream over several seeds for an input whose failure classifies exactly to the given known shape,
shrink it while it keeps that classification, and append it to harness/corpus/<id>.jsonl so that every run exercises the
finding (corpus cases run first).  Development tool; never run by a check."""
import importlib, json, os, random, sys
sys.path.insert(0, os.path.dirname(os.path.abspath(__file__)))
sys.path.insert(0, os.path.join(os.path.dirname(os.path.abspath(__file__)), "props"))
import core
pid, shape = sys.argv[1], json.loads(sys.argv[2])
maxseeds = int(sys.argv[3]) if len(sys.argv) > 3 else 8
mod = importlib.import_module(pid)


def same(got):
    if got == shape:
        return True
    # a multi-shape result ({"shapes": [...]}, {"leak": [...]}) that contains the wanted single shape
    if isinstance(got, dict) and isinstance(shape, dict) and len(got) == 1 and set(got) == set(shape):
        k = next(iter(got))
        return isinstance(got[k], list) and isinstance(shape[k], list) and set(map(json.dumps, shape[k])) <= set(map(json.dumps, got[k]))
    return False


for seed in range(1, maxseeds + 1):
    cases = list(mod.gen(random.Random(f"{seed}-{pid}"), mod.N[os.environ.get("FIND_TIER", "quick")], "normal"))
    results, _ = core.evaluate(mod, cases)
    for r in results:
        if not r["holds"] and same(mod.classify_failure(r)):
            best = r
            if hasattr(mod, "shrink"):
                improved = True; budget = 40
                while improved and budget > 0:
                    improved = False
                    for c in mod.shrink(best["req"]["case"]):
                        budget -= 1
                        rs, _ = core.evaluate(mod, [c])
                        hit = [x for x in rs if not x["holds"] and same(mod.classify_failure(x))]
                        if hit:
                            best = hit[0]; improved = True; break
                        if budget <= 0:
                            break
            path = os.path.join(core.ROOT, "harness", "corpus", pid + ".jsonl")
            with open(path, "a") as f:
                f.write(json.dumps(best["req"]["case"]) + "\n")
            print("seed", seed, "-> appended to", path, "size", len(json.dumps(best["req"]["case"])))
            sys.exit(0)
print("not found"); sys.exit(1)
