"""Generators and observers for C19 (instantiator).  Everything random comes from the rng given to the functions.

A *family* is a JSON-able description of a designspace:
  {"axes": [{"name","tag","min","default","max","map": [[user, design], ...]}],      user-space min/default/max
   "fonts": [fd, ...]                fd as in ufo.py (+ "layers": {name: [glyph dicts]})
   "sources": [{"loc": [[axis, designValue], ...], "font": idx, "layer": None|str}],
   "rules": [{"condSets": [[{"name","min","max"}, ...], ...], "subs": [[old, new], ...]}],
   "skip": [glyph names]}            designspace lib public.skipExportGlyphs
"""
import copy
import os

from ufo import rat

INFO_ATTRS = ["unitsPerEm", "descender", "xHeight", "capHeight", "ascender", "italicAngle"]
# positive master positions (normalized) for which VariationModel's float arithmetic is exact (all tent ratios dyadic)
CHAINS = [[], [1.0], [1.0], [0.5], [0.5, 1.0], [0.5, 1.0], [0.5, 0.75], [0.5, 0.75, 1.0], [0.5, 0.75, 0.875], [0.5, 0.75, 0.875, 1.0]]
GLYPHS = ["a", "a.alt", "b", "b.alt", "c", "space", "acutecomb", "d", "e.sc"]
TAGS = [("Weight", "wght"), ("Width", "wdth"), ("Slant", "slnt"), ("Optical", "opsz"), ("Custom", "CUST")]


def half(rng, lim, p=0.3):
    v = rng.randrange(-lim, lim + 1)
    return v + 0.5 if rng.random() < p else v


# ------------------------------------------------------------------ axes

def gen_axis(rng, name, tag, exact=True):
    """an axis whose design range makes normalisation exact: default d, min d-2^a or d, max d+2^b or d"""
    if exact:
        d = rng.choice([0, 0, 64, 400, 128])
        up = rng.choice([0, 64, 128, 256, 1024]) if rng.random() < 0.9 else 0
        dn = rng.choice([0, 0, 64, 128, 32])
        if up == 0 and dn == 0:
            up = 128
    else:
        d = rng.choice([0, 400, 100, 12])
        up = rng.choice([0, 500, 300, 7, 100])
        dn = rng.choice([0, 0, 300, 90, 3])
        if up == 0 and dn == 0:
            up = 300
    dmin, dmax = d - dn, d + up
    ax = {"name": name, "tag": tag, "dmin": dmin, "ddef": d, "dmax": dmax}
    r = rng.random()
    if r < 0.45:
        ax.update({"min": dmin, "default": d, "max": dmax, "map": []})
    else:
        # user-space values through a map whose knots include min/default/max (so that map_forward is exact)
        if tag == "wght":
            u = {"min": rng.choice([100, 1, 200]), "default": 400, "max": rng.choice([900, 1000, 700])}
        elif tag == "wdth":
            u = {"min": rng.choice([50, 62.5, 75]), "default": 100, "max": rng.choice([125, 150, 200, 112.5])}
        elif tag == "slnt":
            u = {"min": rng.choice([-20, -90, -12]), "default": 0, "max": rng.choice([8, 20])}
        else:
            u = {"min": 8, "default": 16, "max": 144}
        if dn == 0:
            u["min"] = u["default"]
        if up == 0:
            u["max"] = u["default"]
        m = []
        if dn:
            m.append([u["min"], dmin])
        m.append([u["default"], d])
        if up:
            m.append([u["max"], dmax])
        # an inner knot on the upper side: user midpoint -> a dyadic design point
        if up and rng.random() < 0.4:
            m.append([(u["default"] + u["max"]) / 2, d + up / 2])
        if rng.random() < 0.3:
            rng.shuffle(m)
        ax.update({"min": u["min"], "default": u["default"], "max": u["max"], "map": m})
    return ax


def positions(rng, ax, exact=True):
    """normalized master positions on one axis, without the origin"""
    if exact:
        pos = list(rng.choice(CHAINS)) if ax["dmax"] > ax["ddef"] else []
        neg = [-p for p in rng.choice(CHAINS)] if ax["dmin"] < ax["ddef"] else []
    else:
        pool = [0.2, 0.25, 0.3, 1 / 3, 0.5, 0.6, 0.7, 0.9, 1.0, 1.0]
        pos = sorted(rng.sample(pool, rng.choice([0, 1, 1, 2, 3]))) if ax["dmax"] > ax["ddef"] else []
        neg = [-p for p in sorted(rng.sample(pool, rng.choice([0, 0, 1, 2])))] if ax["dmin"] < ax["ddef"] else []
        pos, neg = sorted(set(pos)), sorted(set(neg))
    return pos + neg


def design(ax, p):
    """design coordinate of a normalized position (at most 3 decimals, so that it survives the .designspace XML, which
    is written with 6 decimals; on the exact grids nothing is rounded)"""
    v = ax["ddef"] + p * (ax["dmax"] - ax["ddef"]) if p >= 0 else ax["ddef"] + p * (ax["ddef"] - ax["dmin"])
    return round(v, 3)


# ------------------------------------------------------------------ glyph structures

def gen_structure(rng, names):
    """per glyph: contour point types, component bases, anchor names"""
    st = {}
    for i, n in enumerate(names):
        r = rng.random()
        if n == "space" or r < 0.08:
            st[n] = {"contours": [], "comps": [], "anchors": []}
            continue
        contours, comps = [], []
        if i > 0 and r < 0.4:
            for _ in range(rng.choice([1, 1, 2, 3])):
                comps.append(rng.choice(names[:i]))
        if not comps or rng.random() < 0.3:
            for _ in range(rng.choice([1, 1, 2])):
                k = rng.choice(["line", "line", "curve", "qcurve", "open"])
                if k == "line":
                    contours.append(["line"] * rng.choice([2, 3, 4]))
                elif k == "curve":
                    contours.append(["line", None, None, "curve", "line"])
                elif k == "qcurve":
                    contours.append([None, "qcurve", None, None, "qcurve"])
                else:
                    contours.append(["move", "line", "line"])
        anchors = rng.sample(["top", "bottom", "_top", "ogonek", "entry"], rng.choice([0, 0, 1, 2, 3]))
        if anchors and rng.random() < 0.08:
            anchors.append(anchors[0])      # a repeated anchor name (fontMath regroups by name)
        st[n] = {"contours": contours, "comps": comps, "anchors": anchors}
    return st


def gen_glyph(rng, name, s, unicodes, frac=0.3):
    g = {"name": name, "unicodes": list(unicodes), "width": abs(half(rng, 900, frac)), "height": rng.choice([0, 0, 1000, half(rng, 1000, frac)]),
         "contours": [[[half(rng, 700, frac), half(rng, 700, frac), t] for t in c] for c in s["contours"]],
         "components": [[b, [rng.choice([1, 1, 0.5, -1, 1.25]), rng.choice([0, 0, 0.25]), rng.choice([0, 0, -0.5]), rng.choice([1, 1, 0.75, 2]),
                             half(rng, 300, frac), half(rng, 300, frac)]] for b in s["comps"]],
         "anchors": [[a, half(rng, 600, frac), half(rng, 800, frac)] for a in s["anchors"]]}
    return g


def break_glyph(rng, g, names):
    """make one master's glyph incompatible with the others; returns a tag"""
    kinds = []
    if g["contours"]:
        kinds += ["morepts", "fewerpts", "fewercontours", "morecontours", "segtype"]
    if g["components"]:
        kinds += ["compbase", "compdrop", "comporder"] if len(g["components"]) > 1 else ["compbase", "compdrop"]
    if g["anchors"]:
        kinds += ["anchordrop", "anchorname", "anchororder"] if len(g["anchors"]) > 1 else ["anchordrop", "anchorname"]
    if not kinds:
        return None
    k = rng.choice(kinds)
    if k == "morepts":
        g["contours"][0].append([half(rng, 500), half(rng, 500), "line"])
    elif k == "fewerpts":
        g["contours"][-1].pop()
    elif k == "fewercontours":
        if len(g["contours"]) + len(g["components"]) < 2:
            return None                  # would become an empty glyph, which is the (separate) empty-master case
        g["contours"].pop()
    elif k == "morecontours":
        g["contours"].append([[0, 0, "line"], [10, 0, "line"], [10, 10.5, "line"]])
    elif k == "segtype":
        p = g["contours"][0][-1]
        if p[2] != "line":
            return None              # (an off-curve before a line point is not valid GLIF)
        p[2] = "curve"
    elif k == "compbase":
        g["components"][0][0] = rng.choice([n for n in names if n != g["components"][0][0]] or ["a"])
    elif k == "compdrop":
        if len(g["contours"]) + len(g["components"]) < 2:
            return None
        g["components"].pop()
    elif k == "comporder":
        g["components"].reverse()
    elif k == "anchordrop":
        g["anchors"].pop(0)
    elif k == "anchorname":
        g["anchors"][0][0] = "other"
    elif k == "anchororder":
        g["anchors"].reverse()
    return k


# ------------------------------------------------------------------ kerning / groups / info / rules

def gen_groups(rng, names):
    groups = {}
    pool = [n for n in names]
    if rng.random() < 0.75 and len(pool) >= 2:
        groups["public.kern1.A"] = rng.sample(pool, rng.choice([1, 2, 2, 3][:len(pool)] or [1]))
        if rng.random() < 0.5:
            rest = [n for n in pool if n not in groups["public.kern1.A"]]
            if rest and rng.random() < 0.75:
                groups["public.kern1.B"] = rng.sample(rest, min(len(rest), rng.choice([1, 2])))
            else:
                groups["public.kern1.B"] = rng.sample(pool, rng.choice([1, 2]))     # may overlap A: the later group wins
        groups["public.kern2.A"] = rng.sample(pool, rng.choice([1, 2]))
        if rng.random() < 0.3:
            rest = [n for n in pool if n not in groups["public.kern2.A"]] or pool
            groups["public.kern2.C"] = rng.sample(rest if rng.random() < 0.75 else pool, 1)
    if rng.random() < 0.6:
        groups["my.group"] = rng.sample(pool, min(len(pool), rng.choice([1, 2, 3])))
    if rng.random() < 0.2:
        groups["empty.group"] = []
    return dict(sorted(groups.items()))


def gen_pairs(rng, names, groups):
    firsts = names + [g for g in groups if g.startswith("public.kern1.")]
    seconds = names + [g for g in groups if g.startswith("public.kern2.")]
    n = rng.choice([0, 1, 2, 4, 6, 8])
    return list(dict.fromkeys((rng.choice(firsts), rng.choice(seconds)) for _ in range(n)))


def kern_value(rng):
    r = rng.random()
    if r < 0.15:
        return 0
    if r < 0.45:
        return rng.randrange(-120, 60) + 0.5
    return rng.randrange(-120, 60)


def gen_rules(rng, axes, names):
    rules = []
    for _ in range(rng.choice([0, 0, 1, 1, 2])):
        csets = []
        for _ in range(rng.choice([1, 1, 2])):
            cs = []
            for ax in rng.sample(axes, rng.choice([1, 1, len(axes)])):
                lo, hi = ax["dmin"], ax["dmax"]
                a = rng.choice([lo, ax["ddef"], (lo + hi) / 2, lo + (hi - lo) / 4, hi])
                b = rng.choice([hi, (lo + hi) / 2, ax["ddef"], hi + 100, a])
                k = rng.random()
                c = {"name": ax["name"], "min": a, "max": b}
                if k < 0.2:
                    c["min"] = None
                elif k < 0.4:
                    c["max"] = None
                if rng.random() < 0.03:
                    c["name"] = "NoSuchAxis"
                cs.append(c)
            csets.append(cs)
        subs = []
        for _ in range(rng.choice([1, 1, 2, 3])):
            old = rng.choice(names + ["missing.old"])
            r = rng.random()
            if r < 0.08:
                new = "missing.new"
            elif r < 0.14:
                new = old
            elif old + ".alt" in names and r < 0.7:
                new = old + ".alt"
            else:
                new = rng.choice(names)
            subs.append([old, new])
        rules.append({"condSets": csets, "subs": subs})
    return rules


# ------------------------------------------------------------------ family

def gen_family(rng, exact=True, search=False):
    naxes = 1 if rng.random() < 0.7 or not exact else 2
    tags = rng.sample(TAGS, naxes)
    axes = [gen_axis(rng, n, t, exact) for n, t in tags]
    # master locations (normalized, as dict axis index -> p)
    locs = [{}]
    for i, ax in enumerate(axes):
        for p in positions(rng, ax, exact):
            locs.append({i: p})
    if naxes == 2:
        ends = [[p for p in (-1.0, 1.0) if (p > 0 and ax["dmax"] > ax["ddef"]) or (p < 0 and ax["dmin"] < ax["ddef"])] for ax in axes]
        for p0 in ends[0]:
            for p1 in ends[1]:
                if rng.random() < 0.35:
                    locs.append({0: p0, 1: p1})
    if len(locs) > 6:
        return gen_family(rng, exact, search)      # (dropping masters from a chain would make the arithmetic inexact)
    # masters that may be sparse (lack glyphs, be a layer, hold an empty glyph): the outermost one on each axis side
    # and the corner masters; taking one of those away leaves the remaining chain exact
    removable = set()
    for si, loc in enumerate(locs):
        if len(loc) == 2:
            removable.add(si)
        elif len(loc) == 1:
            (i, p), = loc.items()
            if all(abs(q[i]) <= abs(p) for q in locs if len(q) == 1 and i in q and q[i] * p > 0):
                removable.add(si)
    if not exact:
        removable = set(range(1, len(locs)))
    k = rng.choice([2, 3, 4, 5, 6])
    names = rng.sample(GLYPHS, k)
    if "a" in names and "a.alt" not in names and rng.random() < 0.7:
        names.append("a.alt")
    st = gen_structure(rng, names)
    cps = {n: ([0x61 + i] if rng.random() < 0.7 else []) + ([0x391 + i] if rng.random() < 0.15 else []) for i, n in enumerate(names)}
    groups = gen_groups(rng, names)
    pairs = gen_pairs(rng, names, groups)
    # (inexact stream: a master whose scalar is 0 in exact arithmetic gets a 1e-17 scalar in doubles and then takes part
    #  structurally - union of kerning pairs, None-handling of info, outline compatibility; not generated there)
    wild_kern = exact and rng.random() < 0.2
    info_mode = rng.choice(["all", "all", "all", "noitalic", "noitalic", "mixed"] if exact else ["all", "noitalic"])
    frac = rng.choice([0, 0.3, 0.3, 0.6])
    fonts, sources = [], []
    broken = None
    want_break = exact and rng.random() < (0.45 if search else 0.22)
    for si, loc in enumerate(locs):
        isdef = si == 0
        canrm = si in removable
        sparse_layer = canrm and rng.random() < 0.3       # a sparse layer of the default font
        glyph_names = list(names)
        if canrm and (sparse_layer or rng.random() < 0.25):
            glyph_names = [n for n in names if rng.random() < 0.6] or names[:1]
        glyphs = [gen_glyph(rng, n, st[n], cps[n] if rng.random() < 0.9 else [], frac) for n in glyph_names]
        if not isdef and rng.random() < 0.15:
            glyphs.append(gen_glyph(rng, "extra", {"contours": [["line"] * 3], "comps": [], "anchors": []}, [], frac))
        if canrm:
            for g in glyphs:
                if (g["contours"] or g["components"]) and rng.random() < 0.1:
                    g["contours"], g["components"] = [], []       # the "empty in one master" case
        if not isdef and want_break and broken is None and rng.random() < 0.7:
            g = rng.choice(glyphs)
            kind = break_glyph(rng, g, names)
            if kind:
                broken = [g["name"], kind]
        dloc = [[ax["name"], design(ax, loc.get(i, 0.0))] for i, ax in enumerate(axes) if i in loc or rng.random() < 0.5]
        if isdef and rng.random() < 0.5:
            dloc = [[ax["name"], ax["ddef"]] for ax in axes]
        if sparse_layer:
            lname = "L%d" % si
            fonts[0].setdefault("layers", {})[lname] = glyphs
            sources.append({"loc": dloc, "font": 0, "layer": lname})
            continue
        fd = {"upm": 1000, "glyphs": glyphs, "info": {"familyName": "Fam", "styleName": "M%d" % si}, "lib": {"com.test.key": [si, {"x": 1}]},
              "features": "# features of master %d\n" % si}
        # kerning
        ks = []
        for p in pairs:
            if wild_kern and not isdef and rng.random() < 0.4:
                continue
            ks.append([p[0], p[1], kern_value(rng)])
        if wild_kern and rng.random() < 0.5:
            extra = gen_pairs(rng, names, groups)[:2]
            ks += [[p[0], p[1], kern_value(rng)] for p in extra if p not in pairs]
        fd["kerning"] = ks
        fd["groups"] = dict(groups) if isdef or rng.random() < 0.7 else {"public.kern1.A": names[:1]}
        # info
        for j, a in enumerate(INFO_ATTRS):
            if a == "unitsPerEm":
                fd["upm"] = 1000 if rng.random() < 0.8 else 2048
                continue
            if a == "italicAngle" and info_mode == "noitalic":
                continue
            if info_mode == "mixed" and rng.random() < 0.3:
                continue
            fd["info"][a] = half(rng, 900, frac) if a != "italicAngle" else rng.choice([0, -8, -12.5, 3.25])
        fonts.append(fd)
        sources.append({"loc": dloc, "font": len(fonts) - 1, "layer": None})
    skip = []
    if rng.random() < 0.3:
        skip = rng.sample(names, rng.choice([1, 1, 2]))
    if broken and rng.random() < (0.7 if broken[1] in ("fewerpts", "fewercontours") else 0.4) and broken[0] in names:
        skip = list(dict.fromkeys(skip + [broken[0]]))
    fam = {"axes": axes, "fonts": fonts, "sources": sources, "rules": gen_rules(rng, axes, names), "skip": skip,
           "broken": broken, "wild_kern": wild_kern, "info_mode": info_mode}
    # malformed families
    r = rng.random()
    if r < 0.04 and len(sources) > 1:
        sources[-1]["loc"] = copy.deepcopy(sources[rng.randrange(len(sources) - 1)]["loc"])      # two masters at one location
        fam["malformed"] = "duploc"
    elif r < 0.07 and len(sources) > 1 and sources[1]["layer"] is None:
        ax = axes[0]
        other = ax["dmax"] if ax["dmax"] > ax["ddef"] else ax["dmin"]
        sources[0]["loc"] = [[ax["name"], (ax["ddef"] + other) / 2]]         # no source at the default location
        fam["malformed"] = "nodefault"
    # source ORDER: the default source need not be the first <source> of the designspace (the usual Light, Regular,
    # Bold listing).  `fonts` keeps its order (fonts[0] is the default font, sparse layers live in it); only the list of
    # source descriptors is permuted.  Everything that depends on "the default source" must find it by location.
    if len(sources) > 1 and rng.random() < (0.7 if search else 0.5):
        if rng.random() < 0.5:
            rng.shuffle(sources)
        else:
            sources.append(sources.pop(0))       # default listed last: every other master precedes it
        fam["order"] = "default@%d" % default_index(fam) if default_index(fam) is not None else "nodefault"
    return fam


def default_index(fam):
    """index of the source designspaceLib.findDefault() picks: the first one whose full design location (axes left out
    are at their default) is the default location; None if there is none"""
    dflt = {a["name"]: a["ddef"] for a in fam["axes"]}
    for i, s in enumerate(fam["sources"]):
        if {**dflt, **{n: v for n, v in s["loc"]}} == dflt:
            return i
    return None


def gen_instances(rng, fam, exact=True):
    """instance design locations: all master locations, axis extremes and beyond, interior dyadic points, points just
    off a master location (gen_near_master)"""
    axes = fam["axes"]
    out = []
    for s in fam["sources"]:
        if rng.random() < 0.45:
            out.append([list(e) for e in s["loc"]])
    for _ in range(rng.choice([4, 5, 6])):
        loc = []
        for ax in axes:
            r = rng.random()
            if r < 0.15:
                v = rng.choice([ax["dmin"], ax["dmax"]])
            elif r < 0.25:
                v = rng.choice([ax["dmin"] - 50, ax["dmax"] + 100])
            elif r < 0.35:
                continue                                    # axis left out: default
            elif exact:
                v = design(ax, rng.randrange(-16, 17) / 16)
            else:
                v = rng.choice([design(ax, rng.random() * 2 - 1), design(ax, rng.randrange(-10, 11) / 10), ax["ddef"] + 1])
            loc.append([ax["name"], v])
        out.append(loc)
    near = gen_near_master(rng, fam, exact)
    rng.shuffle(out)
    out = out[:7 - len(near)]
    for loc in near:
        out.insert(rng.randrange(len(out) + 1), loc)
    return out


NEAR_EXACT = [2.0 ** -11, 2.0 ** -12, 2.0 ** -13, 2.0 ** -16]       # all < 0.0005: inside any "3 decimals" plateau
NEAR_TOL = [0.0004, 0.0003, 0.00045, 0.0001]


def gen_near_master(rng, fam, exact=True):
    """0-2 instance locations that are NOT a master location but lie within 0.0005 (normalized) of one on every axis
    (just off a master, on one axis or on all; towards the inside of the axis range so that clamping cannot put them
    on the master).  The design values are not rounded (instance locations never go through the XML file); on the exact
    grids master +- span * 2^-k is exact in doubles."""
    if rng.random() < 0.4:
        return []
    axes = fam["axes"]
    out = []
    for _ in range(rng.choice([1, 1, 2])):
        s = rng.choice(fam["sources"])
        m = {ax["name"]: ax["ddef"] for ax in axes}
        m.update({n: v for n, v in s["loc"]})
        loc, moved = [], False
        for ax in axes:
            v = m[ax["name"]]
            dirs = []
            if v > ax["ddef"]:
                dirs = [(-1, ax["dmax"] - ax["ddef"])] + ([(1, ax["dmax"] - ax["ddef"])] if v < ax["dmax"] else [])
            elif v < ax["ddef"]:
                dirs = [(1, ax["ddef"] - ax["dmin"])] + ([(-1, ax["ddef"] - ax["dmin"])] if v > ax["dmin"] else [])
            else:
                if ax["dmax"] > ax["ddef"]:
                    dirs.append((1, ax["dmax"] - ax["ddef"]))
                if ax["dmin"] < ax["ddef"]:
                    dirs.append((-1, ax["ddef"] - ax["dmin"]))
            if dirs and (rng.random() < 0.75 or (not moved and ax is axes[-1])):
                sg, span = rng.choice(dirs)
                v = v + sg * span * rng.choice(NEAR_EXACT if exact else NEAR_TOL)
                moved = True
            elif v == ax["ddef"] and rng.random() < 0.3:
                continue                                    # axis left out: default
            loc.append([ax["name"], v])
        if moved:
            out.append(loc)
    return out


# ------------------------------------------------------------------ encoding for the Lean model

def enc_glyph(g):
    return {"name": g["name"], "unicodes": list(g.get("unicodes", [])), "width": rat(g.get("width", 0)), "height": rat(g.get("height", 0)),
            "contours": [[[rat(x), rat(y), t] for x, y, t in c] for c in g.get("contours", [])],
            "comps": [[b, [rat(v) for v in t]] for b, t in g.get("components", [])],
            "anchors": [[n, rat(x), rat(y)] for n, x, y in g.get("anchors", [])]}


def enc_font(f):
    return {"glyphs": [enc_glyph(g) for g in f["glyphs"]],
            "kerning": sorted([l, r, rat(v)] for l, r, v in f.get("kerning", [])),
            "groups": sorted([k, list(v)] for k, v in f.get("groups", {}).items())}


def enc_family(fam):
    axes = [{"name": a["name"], "tag": a["tag"], "min": rat(a["min"]), "default": rat(a["default"]), "max": rat(a["max"]),
             "map": [[rat(u), rat(d)] for u, d in a["map"]]} for a in fam["axes"]]
    srcs = []
    for s in fam["sources"]:
        fd = fam["fonts"][s["font"]]
        glyphs = fd["glyphs"] if s["layer"] is None else fd["layers"][s["layer"]]
        info = []
        for a in INFO_ATTRS:
            v = fd.get("upm", 1000) if a == "unitsPerEm" else fd.get("info", {}).get(a)
            info.append(None if v is None else rat(v))
        srcs.append({"loc": [[n, rat(v)] for n, v in s["loc"]], "sparse": s["layer"] is not None,
                     "glyphs": [enc_glyph(g) for g in glyphs],
                     "kerning": [[l, r, rat(v)] for l, r, v in fd.get("kerning", [])],
                     "groups": [[k, list(v)] for k, v in fd.get("groups", {}).items()], "info": info})
    rules = [{"condSets": [[{"name": c["name"], "min": None if c["min"] is None else rat(c["min"]),
                             "max": None if c["max"] is None else rat(c["max"])} for c in cs] for cs in r["condSets"]],
              "subs": [list(s) for s in r["subs"]]} for r in fam["rules"]]
    return {"axes": axes, "sources": srcs, "rules": rules, "skip": list(fam["skip"])}


# ------------------------------------------------------------------ running the implementation

def obs_glyph(g):
    return {"name": g.name, "unicodes": list(g.unicodes), "width": rat(g.width), "height": rat(g.height),
            "contours": [[[rat(p.x), rat(p.y), p.type if hasattr(p, "type") else p.segmentType] for p in c] for c in g],
            "comps": [[c.baseGlyph, [rat(v) for v in c.transformation]] for c in g.components],
            "anchors": [[a.name, rat(a.x), rat(a.y)] for a in g.anchors]}


def obs_font(font):
    return {"glyphs": sorted((obs_glyph(g) for g in font), key=lambda g: g["name"]),
            "kerning": sorted([l, r, rat(v)] for (l, r), v in font.kerning.items()),
            "groups": sorted([k, list(v)] for k, v in font.groups.items())}


def snapshot(font):
    """everything of a source font that generate_instance could possibly touch"""
    import attr
    layers = {}
    for layer in font.layers:
        layers[layer.name] = [[obs_glyph(g), repr(dict(g.lib)), g.note, repr(g.image), repr(g.guidelines)] for g in layer]
    info = {a.name: repr(getattr(font.info, a.name)) for a in attr.fields(type(font.info))}
    return {"layers": layers, "kerning": sorted((k, v) for k, v in font.kerning.items()),
            "groups": [(k, list(v)) for k, v in font.groups.items()], "info": info, "lib": repr(dict(font.lib)),
            "features": font.features.text, "defaultLayer": font.layers.defaultLayer.name}


def tree_digest(root):
    import hashlib
    h = hashlib.sha1()
    for d, ds, fs in sorted(os.walk(root)):
        ds.sort()
        for f in sorted(fs):
            p = os.path.join(d, f)
            h.update(os.path.relpath(p, root).encode())
            h.update(open(p, "rb").read())
    return h.hexdigest()


def build_designspace(fam, mode, tmpdir):
    """returns (DesignSpaceDocument, [font objects or None])"""
    from fontTools import designspaceLib as dl
    from ufo import build
    ds = dl.DesignSpaceDocument()
    for a in fam["axes"]:
        ax = dl.AxisDescriptor()
        ax.name, ax.tag = a["name"], a["tag"]
        ax.minimum, ax.default, ax.maximum = a["min"], a["default"], a["max"]
        ax.map = [tuple(m) for m in a["map"]]
        ds.addAxis(ax)
    fonts = [build(fd, "ufoLib2") for fd in fam["fonts"]]
    paths = []
    if mode == "disk":
        for i, f in enumerate(fonts):
            p = os.path.join(tmpdir, "m%d.ufo" % i)
            f.save(p)
            paths.append(p)
    for i, s in enumerate(fam["sources"]):
        sd = dl.SourceDescriptor()
        sd.name = "src%d" % i
        sd.location = {n: v for n, v in s["loc"]}
        sd.layerName = s["layer"]
        if mode == "disk":
            sd.path = paths[s["font"]]
        else:
            sd.font = fonts[s["font"]]
        ds.addSource(sd)
    for i, r in enumerate(fam["rules"]):
        rd = dl.RuleDescriptor()
        rd.name = "rule%d" % i
        rd.conditionSets = [[{"name": c["name"], "minimum": c["min"], "maximum": c["max"]} for c in cs] for cs in r["condSets"]]
        rd.subs = [tuple(s) for s in r["subs"]]
        ds.addRule(rd)
    if fam["skip"]:
        ds.lib["public.skipExportGlyphs"] = list(fam["skip"])
    if mode == "disk":
        p = os.path.join(tmpdir, "family.designspace")
        ds.write(p)
        ds = dl.DesignSpaceDocument.fromfile(p)
    return ds


def scalar_table(fam, nl_of, inst_nl):
    """measured master scalars: for every sub-list of the sources that contains the first origin source, the real
    VariationModel's getMasterScalars at the instance location.  nl_of: normalized location (dict) per source."""
    import itertools
    from fontTools.varLib.models import VariationModel
    names = [a["name"] for a in fam["axes"]]
    n = len(nl_of)
    table = []
    seen = set()
    for mask in range(1, 1 << n):
        idx = [i for i in range(n) if mask >> i & 1]
        locs = [nl_of[i] for i in idx]
        key = tuple(tuple(l[a] for a in names) for l in locs)
        if key in seen:
            continue
        seen.add(key)
        try:
            m = VariationModel([dict(l) for l in locs], names)
            sc = m.getMasterScalars(dict(inst_nl))
        except Exception:
            continue
        table.append([[[rat(v) for v in k] for k in key], [rat(s) for s in sc]])
    return table


def overlapping_kern_groups(fam):
    for fd in fam["fonts"]:
        for prefix in ("public.kern1.", "public.kern2."):
            seen = set()
            for k, v in fd.get("groups", {}).items():
                if k.startswith(prefix):
                    if seen & set(v) or len(set(v)) != len(v):
                        return True
                    seen |= set(v)
    return False
